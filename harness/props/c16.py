"""C16 — dose filtering applies the Grant-Grigorieff exposure attenuation (DESIGN.md section 4, C16)."""
import os, ast, math, copy, struct, tempfile, traceback, random as _random
from fractions import Fraction
import numpy as np
import core
from core import f2b, b2f

PROP = "C16"
COUNT = {"quick": 150, "thorough": 3000, "search": 500}
PARALLEL = True

# ------------------------------------------------------------------ translator
REL = "cryocat/tiltstack.py"
RELIO = "cryocat/ioutils.py"
RELM = "cryocat/mdoc.py"
# helpers on the dose path (item: "guarded only by correspondence"): (Gen name, file, qualified name, documented locals).  Looking them up
# with src.find also puts them under the framework's binding discipline (bound once, no re-binding, documented decorators).
HELPERS = [
    ("tsInit", REL, "TiltStack.__init__", []),
    ("tsWriteOut", REL, "TiltStack.write_out", ["data_to_write"]),
    ("tsCorrectOrder", REL, "TiltStack.correct_order", ["return_data"]),
    ("lineRead", RELIO, "one_value_per_line_read", ["data_df"]),
    ("mdocInit", RELM, "Mdoc.__init__", []),
    ("mdocSort", RELM, "Mdoc.sort_by_tilt", []),
    ("mdocFeature", RELM, "Mdoc.get_image_feature", []),
    # Warp .xml doses (total_dose_load's `.xml` branch): the values of the <Dose> node, one per line, IN FILE ORDER
    ("warpXml", RELIO, "get_data_from_warp_xml", ["tree", "root", "elements", "node_elements", "data", "node", "data_text", "value"]),
]
# parsers of the .mdoc text: their bodies belong to C17; here they are looked up (binding discipline) and exercised by the mdoc dose sources
BOUND_ONLY = [(RELM, "Mdoc._read_mdoc"), (RELM, "Mdoc._parse_images")]
# documented names of the local variables, in the order of their first binding: the translator renames the locals of the
# CURRENT source to these by position, so that renaming a local variable changes nothing (G5) while any change of structure
# (operators, constants, order of operations, call keywords, added / removed statements) changes the regenerated text
DOC_LOCALS = {
    "dose_filter_single_image": ["a", "b", "c", "ft", "q", "filtered_image"],
    "dose_filter": ["ts", "frequency_array", "cen_x", "cen_y", "rstep_x", "rstep_y", "x", "y", "d", "z", "image"],
    "total_dose_load": ["df", "mdoc_file", "image_dose", "prior_dose", "total_dose", "sorted_df", "result_df"],
}
# documented skeletons = fall-back text when an anchor is missing (Props/C16 states them again; anchorsOk is false then)
DOC = dict(
    qExpr="np.exp(-dose/(2*(a*freq_array**b+c)))",
    ftExpr="np.fft.fftshift(np.fft.fft2(image))",
    outExpr="np.fft.ifft2(np.fft.ifftshift(ft*q))",
    retExpr="filtered_image.real",
    cenX="ts.width//2", cenY="ts.height//2",
    rstepX="1/(ts.width*pixel_size)", rstepY="1/(ts.height*pixel_size)",
    freqExpr="np.sqrt((x-cen_x)**2*rstep_x**2+(y-cen_y)**2*rstep_y**2)",
    freqStore="frequency_array[y,x]=d",
    loopRangeX="range(ts.width)", loopRangeY="range(ts.height)", loopRangeZ="range(ts.n_tilts)",
    imageExpr="ts.data[z,:,:]",
    pairExpr="ts.data[z,:,:]=dose_filter_single_image(image,total_dose[z],frequency_array)",
    doseLoad="ioutils.total_dose_load(total_dose)",
    pixelCast="float(pixel_size)",
    returnExpr="ts.correct_order()",
    freqInit="np.zeros((ts.height,ts.width))",
    tsInit="TiltStack(tilt_stack=tilt_stack,input_order=input_order,output_order=output_order)",
    singleSig="dose_filter_single_image(image,dose,freq_array)",
    stackSig="dose_filter(tilt_stack,pixel_size,total_dose,output_file=None,input_order='xyz',output_order='xyz')",
    doseLoadSig="total_dose_load(input_dose,sort_mdoc=True)",
)
DOC_CONST = dict(a=[49, 200], b=[-333, 200], c=[281, 100])   # 0.245, -1.665, 2.81 (the statement's constants)


def _params(fn):
    a = fn.args
    return [x.arg for x in a.posonlyargs + a.args + a.kwonlyargs] + ([a.vararg.arg] if a.vararg else []) + ([a.kwarg.arg] if a.kwarg else [])


def canonical(fn, doc_names):
    """copy of the function with its local variables renamed, by order of their first BINDING occurrence, to the documented names.
    A local that is only ever stored and never read is a discard: every such store is renamed to `_` and takes no place in the
    order (so `_` <-> `unused` and two unrelated `_` are all the same text).  Type annotations are dropped (`x: T = v` becomes
    `x = v`, a bare declaration `x: T` disappears, argument / return annotations are removed): a type hint is not behaviour (H1).
    The map documented name -> name in the source is kept in `fn._orig` for the texts of missing anchors."""
    fn = copy.deepcopy(fn)

    class Strip(ast.NodeTransformer):
        def visit_AnnAssign(self, n):
            self.generic_visit(n)
            if n.value is None:
                return None
            return ast.copy_location(ast.Assign(targets=[n.target], value=n.value), n)

        def visit_arg(self, n):
            n.annotation = None
            return n

        def visit_FunctionDef(self, n):
            self.generic_visit(n)
            n.returns = None
            if not n.body:
                n.body = [ast.Pass()]
            return n

    fn = ast.fix_missing_locations(Strip().visit(fn))
    params = set(_params(fn))
    names = [n for n in ast.walk(fn) if isinstance(n, ast.Name)]
    stores = sorted((n for n in names if isinstance(n.ctx, (ast.Store, ast.Del))), key=lambda n: (n.lineno, n.col_offset))
    loaded = {n.id for n in names if isinstance(n.ctx, ast.Load)}
    # an augmented assignment reads its target
    loaded |= {n.target.id for n in ast.walk(fn) if isinstance(n, ast.AugAssign) and isinstance(n.target, ast.Name)}
    order = []
    for n in stores:
        if n.id not in params and n.id not in order and n.id in loaded:
            order.append(n.id)
    ren = {name: (doc_names[i] if i < len(doc_names) else f"v{i}") for i, name in enumerate(order)}
    for n in stores:
        if n.id not in params and n.id not in loaded:
            ren[n.id] = "_"
    for n in names:
        if n.id in ren:
            n.id = ren[n.id]
    fn._orig = {v: k for k, v in ren.items() if v != "_"}
    return fn


def _src_name(fn, doc):
    """the documented local `doc`, quoted together with the identifier it has in the current source"""
    o = getattr(fn, "_orig", {}).get(doc)
    return f"`{doc}`" if o in (None, doc) else f"`{doc}` (named `{o}` in the source)"


def _is_doc(st):
    return isinstance(st, ast.Expr) and isinstance(st.value, ast.Constant) and isinstance(st.value.value, str)


def _is_print(st):
    return isinstance(st, ast.Expr) and isinstance(st.value, ast.Call) and isinstance(st.value.func, ast.Name) and st.value.func.id == "print"


def body_dump(stmts, depth=0):
    """normalised dump of a statement list: one string per statement (kind + expressions), nesting shown by leading dots;
    docstrings and bare print(...) calls are dropped"""
    ne = core.norm_expr
    pre = "." * depth
    out = []
    for st in stmts:
        if _is_doc(st) or _is_print(st):
            continue
        if isinstance(st, ast.For):
            out.append(f"{pre}for {ne(st.target)} in {ne(st.iter)}")
            out += body_dump(st.body, depth + 1)
            if st.orelse:
                out.append(pre + "else"); out += body_dump(st.orelse, depth + 1)
        elif isinstance(st, ast.While):
            out.append(f"{pre}while {ne(st.test)}")
            out += body_dump(st.body, depth + 1)
            if st.orelse:
                out.append(pre + "else"); out += body_dump(st.orelse, depth + 1)
        elif isinstance(st, ast.If):
            out.append(f"{pre}if {ne(st.test)}")
            out += body_dump(st.body, depth + 1)
            if st.orelse:
                out.append(pre + "else"); out += body_dump(st.orelse, depth + 1)
        elif isinstance(st, ast.With):
            out.append(pre + "with " + ",".join(ne(i.context_expr) + ("as" + ne(i.optional_vars) if i.optional_vars else "") for i in st.items))
            out += body_dump(st.body, depth + 1)
        elif isinstance(st, ast.Try):
            out.append(pre + "try"); out += body_dump(st.body, depth + 1)
            for h in st.handlers:
                out.append(pre + "except " + (ne(h.type) if h.type else "")); out += body_dump(h.body, depth + 1)
            if st.orelse:
                out.append(pre + "else"); out += body_dump(st.orelse, depth + 1)
            if st.finalbody:
                out.append(pre + "finally"); out += body_dump(st.finalbody, depth + 1)
        elif isinstance(st, ast.Return):
            out.append(pre + "return " + (ne(st.value) if st.value is not None else ""))
        elif isinstance(st, ast.Raise):
            exc = st.exc.func if isinstance(st.exc, ast.Call) else st.exc   # the message text is not part of the structure
            out.append(pre + "raise " + (ne(exc) if exc is not None else ""))
        elif isinstance(st, (ast.FunctionDef, ast.ClassDef)):
            out.append(pre + "def " + _sig(st) if isinstance(st, ast.FunctionDef) else pre + "class " + st.name)
            out += body_dump(st.body, depth + 1)
        elif isinstance(st, ast.AnnAssign):       # `x: T = v` is `x = v`; a bare declaration `x: T` is nothing (H1)
            if st.value is not None:
                out.append(pre + ne(st.target) + "=" + ne(st.value))
        else:
            out.append(pre + ast.unparse(st).replace(" ", "").replace("\n", ";"))
    return out


def _root_name(t):
    while isinstance(t, (ast.Subscript, ast.Attribute, ast.Starred)):
        t = t.value
    return t.id if isinstance(t, ast.Name) else None


def _bindings(fn, name):
    """every statement that stores into `name` (plain assignment, augmented assignment, subscript / attribute store,
    loop target, with-target, walrus, del) -> list of (kind, node)"""
    out = []

    def targets(t):
        if isinstance(t, (ast.Tuple, ast.List)):
            for e in t.elts:
                yield from targets(e)
        else:
            yield t

    for n in ast.walk(fn):
        if isinstance(n, ast.Assign):
            for tt in n.targets:
                for t in targets(tt):
                    if _root_name(t) == name:
                        out.append(("assign" if isinstance(t, ast.Name) and len(n.targets) == 1 and t is tt else
                                    ("store" if not isinstance(t, ast.Name) else "multi-assign"), n))
        elif isinstance(n, ast.AnnAssign):        # `a: float = 0.245` is the assignment `a = 0.245` (H1); `a: float` binds nothing
            if n.value is not None and _root_name(n.target) == name:
                out.append(("assign" if isinstance(n.target, ast.Name) else "store", n))
        elif isinstance(n, ast.AugAssign):
            if _root_name(n.target) == name:
                out.append(("augassign", n))
        elif isinstance(n, (ast.For, ast.comprehension)):
            for t in targets(n.target):
                if _root_name(t) == name:
                    out.append(("loop", n))
        elif isinstance(n, ast.With):
            for i in n.items:
                if i.optional_vars is not None and any(_root_name(t) == name for t in targets(i.optional_vars)):
                    out.append(("with", n))
        elif isinstance(n, ast.NamedExpr):
            if n.target.id == name:
                out.append(("walrus", n))
        elif isinstance(n, ast.Delete):
            if any(_root_name(t) == name for t in n.targets):
                out.append(("del", n))
    return out


def _assign_value(fn, target, extra_stores=0):
    """value of THE assignment `target = ...` inside fn; every other statement that writes to `target` (augmented
    assignment `t *= 2`, subscript store `t[mask] = 0`, a second assignment ...) is counted and makes the anchor fail"""
    b = _bindings(fn, target)
    plain = [n for k, n in b if k == "assign"]
    other = [k for k, n in b if k != "assign"]
    if len(plain) != 1 or len(other) != extra_stores:
        where = "; ".join(f"line {n.lineno}: {ast.unparse(n)[:70]}" for _, n in b)
        raise core.AnchorMissing(f"{fn.name}: expected exactly one assignment to {_src_name(fn, target)}" + (f" and {extra_stores} element store(s)" if extra_stores else "")
                                 + f", found {len(plain)} assignment(s) and other writes {other}" + (f" [{where}]" if where else " [the statement is gone or its target moved]"))
    return plain[0].value


def _const(fn, name):
    v = _assign_value(fn, name)
    txt = ast.unparse(v).replace(" ", "")
    try:
        val = ast.literal_eval(v)
    except Exception:
        raise core.AnchorMissing(f"{fn.name}: {name} is not a numeric literal: {txt}")
    if isinstance(val, bool) or not isinstance(val, (int, float)):
        raise core.AnchorMissing(f"{fn.name}: {name} is not a numeric literal: {txt}")
    fr = Fraction(txt)  # exact decimal value of the literal as written in the source
    if float(fr) != float(val):
        raise core.AnchorMissing(f"{fn.name}: {name} literal {txt} not a plain decimal")
    return [fr.numerator, fr.denominator]


def _for_loops(fn):
    return [n for n in ast.walk(fn) if isinstance(n, ast.For)]


def _sig(fn):
    """name(parameters with their DEFAULT values): built from the names and defaults only, annotations are not part of it (H1)"""
    a = fn.args
    pos = a.posonlyargs + a.args
    nreq = len(pos) - len(a.defaults)
    out = [p.arg for p in pos[:nreq]] + [f"{p.arg}={core.norm_expr(d)}" for p, d in zip(pos[nreq:], a.defaults)]
    if a.posonlyargs:
        out.insert(len(a.posonlyargs), "/")
    if a.vararg:
        out.append("*" + a.vararg.arg)
    elif a.kwonlyargs:
        out.append("*")
    out += [p.arg if d is None else f"{p.arg}={core.norm_expr(d)}" for p, d in zip(a.kwonlyargs, a.kw_defaults)]
    if a.kwarg:
        out.append("**" + a.kwarg.arg)
    return fn.name + "(" + ",".join(out) + ")"


def translate(src):
    src.anchor("dose_filter_single_image", lambda: src.find(REL, "dose_filter_single_image").name)
    src.anchor("dose_filter", lambda: src.find(REL, "dose_filter").name)
    vals = {}
    cache = {}

    def canon(rel, name):
        if name not in cache:
            cache[name] = canonical(src.find(rel, name), DOC_LOCALS[name])
        return cache[name]

    def in_single(f):
        return lambda: f(canon(REL, "dose_filter_single_image"))

    def in_stack(f):
        return lambda: f(canon(REL, "dose_filter"))

    a = src.anchor("dose_filter_single_image:a", in_single(lambda fn: _const(fn, "a")))
    b = src.anchor("dose_filter_single_image:b", in_single(lambda fn: _const(fn, "b")))
    c = src.anchor("dose_filter_single_image:c", in_single(lambda fn: _const(fn, "c")))
    vals["qExpr"] = src.anchor("dose_filter_single_image:q", in_single(lambda fn: core.norm_expr(_assign_value(fn, "q"))))
    vals["ftExpr"] = src.anchor("dose_filter_single_image:ft", in_single(lambda fn: core.norm_expr(_assign_value(fn, "ft"))))
    vals["outExpr"] = src.anchor("dose_filter_single_image:filtered_image", in_single(lambda fn: core.norm_expr(_assign_value(fn, "filtered_image"))))

    def ret(fn):
        r = [n for n in ast.walk(fn) if isinstance(n, ast.Return)]
        if len(r) != 1 or r[0].value is None:
            raise core.AnchorMissing(f"{fn.name}: expected one return")
        return core.norm_expr(r[0].value)

    vals["retExpr"] = src.anchor("dose_filter_single_image:return", in_single(ret))
    vals["cenX"] = src.anchor("dose_filter:cen_x", in_stack(lambda fn: core.norm_expr(_assign_value(fn, "cen_x"))))
    vals["cenY"] = src.anchor("dose_filter:cen_y", in_stack(lambda fn: core.norm_expr(_assign_value(fn, "cen_y"))))
    vals["rstepX"] = src.anchor("dose_filter:rstep_x", in_stack(lambda fn: core.norm_expr(_assign_value(fn, "rstep_x"))))
    vals["rstepY"] = src.anchor("dose_filter:rstep_y", in_stack(lambda fn: core.norm_expr(_assign_value(fn, "rstep_y"))))
    vals["freqExpr"] = src.anchor("dose_filter:d", in_stack(lambda fn: core.norm_expr(_assign_value(fn, "d"))))
    vals["freqInit"] = src.anchor("dose_filter:frequency_array-init", in_stack(lambda fn: core.norm_expr(_assign_value(fn, "frequency_array", extra_stores=1))))
    vals["tsInit"] = src.anchor("dose_filter:ts", in_stack(lambda fn: core.norm_expr([n for k, n in _bindings(fn, "ts") if k == "assign"][0].value)
                                                         if len([1 for k, n in _bindings(fn, "ts") if k == "assign"]) == 1 else (_ for _ in ()).throw(core.AnchorMissing("dose_filter: ts = TiltStack(...)"))))

    def store(fn):
        hits = [n for k, n in _bindings(fn, "frequency_array") if k != "assign"]
        if len(hits) != 1 or not isinstance(hits[0], ast.Assign):
            raise core.AnchorMissing(f"dose_filter: exactly one frequency_array[..] = .. store expected, found {len(hits)} other writes")
        return core.norm_expr(hits[0].targets[0]) + "=" + core.norm_expr(hits[0].value)

    vals["freqStore"] = src.anchor("dose_filter:frequency_array-store", in_stack(store))

    def loop_range(var):
        def f(fn):
            hits = [n for n in _for_loops(fn) if core.norm_expr(n.target) == var]
            if len(hits) != 1 or len(_bindings(fn, var)) != 1:
                raise core.AnchorMissing(f"dose_filter: for {var} in ...")
            return core.norm_expr(hits[0].iter)
        return f

    vals["loopRangeX"] = src.anchor("dose_filter:for-x", in_stack(loop_range("x")))
    vals["loopRangeY"] = src.anchor("dose_filter:for-y", in_stack(loop_range("y")))
    vals["loopRangeZ"] = src.anchor("dose_filter:for-z", in_stack(loop_range("z")))
    vals["imageExpr"] = src.anchor("dose_filter:image", in_stack(lambda fn: core.norm_expr(_assign_value(fn, "image"))))

    def pair(fn):
        hits = [n for n in ast.walk(fn) if isinstance(n, (ast.Assign, ast.AugAssign)) and "dose_filter_single_image" in ast.unparse(n.value)]
        if len(hits) != 1 or not isinstance(hits[0], ast.Assign):
            raise core.AnchorMissing("dose_filter: call of dose_filter_single_image")
        return core.norm_expr(hits[0].targets[0]) + "=" + core.norm_expr(hits[0].value)

    vals["pairExpr"] = src.anchor("dose_filter:per-tilt-pairing", in_stack(pair))
    vals["doseLoad"] = src.anchor("dose_filter:total_dose", in_stack(lambda fn: core.norm_expr(_assign_value(fn, "total_dose"))))
    vals["pixelCast"] = src.anchor("dose_filter:pixel_size", in_stack(lambda fn: core.norm_expr(_assign_value(fn, "pixel_size"))))
    vals["returnExpr"] = src.anchor("dose_filter:return", in_stack(ret))
    # signatures: parameter names and DEFAULT values (G1)
    vals["singleSig"] = src.anchor("dose_filter_single_image:signature", lambda: _sig(src.find(REL, "dose_filter_single_image")))
    vals["stackSig"] = src.anchor("dose_filter:signature", lambda: _sig(src.find(REL, "dose_filter")))
    vals["doseLoadSig"] = src.anchor("ioutils.total_dose_load:signature", lambda: _sig(src.find(RELIO, "total_dose_load")))
    # whole bodies, normalised (statement kinds + expressions, locals renamed to the documented names): added statements,
    # element stores (`q[freq_array > 0.4] = 0`), augmented assignments (`ft *= 2`) and never-executed branches are visible
    bodies = {}
    bodies["singleBody"] = src.anchor("dose_filter_single_image:whole-body", lambda: body_dump(canon(REL, "dose_filter_single_image").body))
    bodies["stackBody"] = src.anchor("dose_filter:whole-body", lambda: body_dump(canon(REL, "dose_filter").body))
    bodies["doseLoadBody"] = src.anchor("ioutils.total_dose_load:whole-body", lambda: body_dump(canon(RELIO, "total_dose_load").body))

    def dose_passthrough():
        fn = canon(RELIO, "total_dose_load")
        first = fn.body[1] if _is_doc(fn.body[0]) else fn.body[0]
        if not isinstance(first, ast.If):
            raise core.AnchorMissing("total_dose_load: leading isinstance chain")
        t = core.norm_expr(first.test) + "->" + core.norm_expr(first.body[0].value)
        nxt = first.orelse[0]
        t += ";" + core.norm_expr(nxt.test) + "->" + core.norm_expr(nxt.body[0].value)
        return t

    dl = src.anchor("ioutils.total_dose_load:array-passthrough", dose_passthrough)
    helpers = {}
    for gname, rel, qn, locs in HELPERS:
        sig = src.anchor(f"{qn}:signature", lambda rel=rel, qn=qn: _sig(src.find(rel, qn)))
        body = src.anchor(f"{qn}:whole-body", lambda rel=rel, qn=qn, locs=locs: body_dump(canonical(src.find(rel, qn), locs).body))
        helpers[gname] = (sig if isinstance(sig, str) else "<missing>", body if isinstance(body, list) else ["<missing>"])
    for rel, qn in BOUND_ONLY:
        src.anchor(f"{qn}:defined", lambda rel=rel, qn=qn: src.find(rel, qn).name)

    def frac(v, d):
        v = v if v is not None else d
        return f"({v[0]}, {v[1]})"

    lines = [f"-- GENERATED by harness/props/c16.py from {REL} and {RELIO}; do not edit",
             "namespace CryoCat.Gen.C16",
             f"def anchorsOk : Bool := {'true' if src.ok else 'false'}",
             "/-- the literals `a`, `b`, `c` of `dose_filter_single_image` as exact decimal fractions (numerator, denominator);",
             "when an anchor is missing the DOCUMENTED value stands here and `anchorsOk` is false -/",
             f"def ggA : Int × Int := {frac(a, DOC_CONST['a'])}",
             f"def ggB : Int × Int := {frac(b, DOC_CONST['b'])}",
             f"def ggC : Int × Int := {frac(c, DOC_CONST['c'])}"]
    for k in DOC:
        v = vals.get(k)
        lines.append(f"def {k} : String := {core.lean_str(v if isinstance(v, str) else DOC[k])}")
    lines.append(f"def doseLoadPassthrough : String := {core.lean_str(dl if isinstance(dl, str) else '<missing>')}")
    for k in ("singleBody", "stackBody", "doseLoadBody"):
        v = bodies.get(k)
        v = v if isinstance(v, list) else ["<missing>"]
        lines.append(f"def {k} : List String := [\n  " + ",\n  ".join(core.lean_str(s) for s in v) + "]")
    for gname, _, qn, _ in HELPERS:
        sig, body = helpers[gname]
        lines.append(f"/-- `{qn}`: signature (names and defaults) and whole normalised body -/")
        lines.append(f"def {gname}Sig : String := {core.lean_str(sig)}")
        lines.append(f"def {gname}Body : List String := [\n  " + ",\n  ".join(core.lean_str(x) for x in body) + "]")
    lines.append("end CryoCat.Gen.C16")
    return "\n".join(lines) + "\n"


# ------------------------------------------------------------------ documentation constants
RULE = ("stacks of 1..10 images, width and height drawn independently from 4..64 (even and odd; half of the draws from 4..12, "
        "30% from 4..24, 20% from 4..64), pixel size 0.5..10 A (uniform, typical values, and the end points; 12% passed as a python int, 10% as "
        "numpy.float32), per-image doses in 0..300 e/A^2 in random order, 55% of the cases on the 1/8 grid and 45% DECIMAL numbers with 1..3 places "
        "(59.1, 120.3, 7.125; from every source kind; compose mode through a float32 source stays on the grid so that d1+d2 is a float32 number), "
        "in 30% of the cases integral doses are written as integers (`30`: python ints, int64 ndarray, all-integer text/csv/mdoc column) "
        "(0 and 300 forced in often; in 15% of the multi-image plain cases an exact 0.0 is forced "
        "directly before a non-zero dose), images: random (integers/8 + offset), pure plane waves at a chosen integer frequency incl. Nyquist "
        "and DC offset, impulses, constants. dtype: float64 72%, float32 18%, int16 6%, int8 4% (integer stacks hold integer pixel values). "
        "Doses reach the code as list / TUPLE / float64 (or int64) ndarray / float32 ndarray / one-value-per-line text / Warp .xml (<Dose> node, one value "
        "per line, UTF-16 with BOM or UTF-8, next to <Angles>, <AxisAngle> and a <GridCTF> of <Node> children) / .csv with CorrectedDose (with and "
        "without a Removed column and removed rows; row labels 0..n-1, with gaps, duplicated, or names) / .mdoc with PriorRecordDose+ExposureDose / .mdoc with ExposureDose and DateTime only "
        "(sections written in acquisition order with dose-symmetric tilt angles: the loader re-sorts by tilt angle, dose_i is the dose of "
        "the i-th image in tilt order); 6% of the cases pass 1..3 surplus doses. The stack is an ndarray (xyz or zyx) or, in ~10% of the "
        "cases with non-float64 images (1..10 of them: a one-image stack is a 3-D file with nz = 1), the path of an MRC file; ~10% pass output_file and the written file is re-read by the harness's "
        "own MRC parser. Each of the keywords output_file / input_order / output_order is OMITTED with probability 0.3 (the documented default "
        "None / 'xyz' / 'xyz' is then what the harness expects). Entry points dose_filter (85%) and dose_filter_single_image (15%, with a "
        "harness-built fftshifted |fftfreq| array re-used for every image). Modes: plain, linear (third image = alpha*first + beta*second, equal "
        "doses), monotone (one image, several doses), compose (filter d1, then filter the RETURNED array with d2, vs once d1+d2 on the caller's "
        "array), and a 3% malformed stream (dose list shorter than the stack -> must be refused by ANY exception raised inside cryocat; kind corr, the statement is silent on refusals). Cross-call stream (25% of the dose_filter cases): a "
        "second call in the same process on the SAME caller-owned array object / MRC path / dose-file path / dose ndarray with a DIFFERENT pixel "
        "size and other doses, optionally after the harness legitimately rewrote the content (images rolled by one, dose file rewritten, dose "
        "ndarray overwritten); every call is judged alike, and before/after every call the caller-owned stack array (or file bytes), dose "
        "list/ndarray/file and frequency array are compared byte for byte; results of earlier calls are re-compared after later calls. "
        "dose_i is the dose the filter is GIVEN: for the float32 sources (text file, .csv, float32 ndarray) the float32 rounding of the decimal "
        "(assumption float32-dose-loading), for .mdoc the float64 sum of the two numbers in the file, else the number itself. "
        "Judgement, per call and image, on floating-point results: the 2-D DFT (numpy) of the output is compared at EVERY coefficient with "
        "gain * DFT(input): |Fo - G Fi| <= 1e-9 G |Fi| + 1e-13 max|Fi| (float64; 1e-4, 1e-5 for float32), and where |Fi| >= 1e-6 max|Fi| and "
        "the gain is above the noise floor the LOG-gain is compared (so strongly attenuated coefficients count as much as weak ones); G from the "
        "formula of the statement (kind spec) and from the Lean driver executing Model/C16 `doseFilter` at Float (kind corr); then mean, zero-dose "
        "identity per pixel, power per coefficient, and over several images linearity / monotonicity / composition. "
        "INTEGER STACKS: when the output is of integer dtype only the relation out = trunc(filter(x)) per pixel is judged (statement's gain: a "
        "deviation from it is a spec finding); the driver runs the model of the code as it is (Model/C16 `doseFilterInt` with a Float DFT service) on "
        "the same pixels, and a result that equals the MODEL's integers and differs visibly from the filtered image is the open known finding C16-K1 "
        "(witness theorem `int_stack_counterexample`); the clauses attenuation per "
        "frequency, zero-frequency/mean, zero-dose identity, power, linearity, monotonicity and composition are judged on floating-point results "
        "only (float stacks, dose_filter_single_image, and integer stacks whose result comes back as floats). "
        "non-trivial = valid case with >= 2 images, >= 2 distinct doses, some gain < 0.99; distinct = distinct case content")
ASSUMPTIONS = [
    "numpy.fft.fft2/ifft2 are linear and mutually inverse, fftshift/ifftshift rotate indices by floor(n/2)/ceil(n/2) (probed on every run: probes fft-roundtrip, fftshift-index)",
    "a Hermitian-even real multiplier applied to the DFT of a real image gives a real image, so taking `.real` drops rounding noise only (probe even-multiplier-real; field `IsDFT.even_mult` — a THEOREM for the exact complex DFT of every size, `dftN_isDFT`; numpy computing that DFT is the assumption)",
    "IEEE float64 arithmetic of numpy ~ exact real arithmetic: |Fo - G Fi| <= 1e-9 G|Fi| + 1e-13 max|Fi| on float64 stacks (1e-4, 1e-5 on float32 stacks); the largest deviation seen is recorded in the evidence histograms",
    "numpy `0.0 ** -1.665 = inf`, `exp(-d/inf) = 1`: the zero-frequency gain is exactly 1 (the driver evaluates the branch-free source expression at Float next to the model's case split and both are compared: clause qliteral-vs-model)",
    "Lean `Float.exp/pow/sqrt` (C libm) agree with numpy's within 1e-12 relative (checked on every case: model gain vs. the statement's formula evaluated in Python)",
    "numpy casts float -> integer by truncation toward zero (probe int-cast-truncates; used only to recognise the open finding C16-K1)",
    "float32-dose-loading: doses given as a one-value-per-line text file or a .csv reach the filter in float32 (`one_value_per_line_read(file_path, data_type=np.float32)`, "
    "`df[...].astype(np.single)`; both anchored: theorems dose_helpers_documented, total_dose_load_body_documented), so dose_i is the float32 rounding of the decimal in the "
    "file: relative change of the dose <= 2^-24 = 6.0e-8, of a gain <= 6.0e-8 * dose/(2*2.81) <= 3.2e-6 at 300 e/A^2. This is the loader's numeric precision, not a "
    "violation: the judge evaluates the statement at the dose as loaded (as_loaded / _effective), and a float32 ndarray passed by the caller is treated the same way",
    "the driver's Float DFT (Drv/C16 `floatDFT`, separable O(HW(H+W)) sums) used to run `doseFilterInt` on integer stacks agrees with numpy.fft to 1e-9 relative "
    "(checked on every integer case: clause int-model-filter-vs-statement)",
    "the dose of image i when doses come from a file is what ioutils.total_dose_load documents: CorrectedDose of the rows not Removed (.csv), PriorRecordDose+ExposureDose or ExposureDose*(rank by DateTime+1) in tilt-angle order (.mdoc), the lines (.txt), the lines of the <Dose> node in file order (Warp .xml); the harness computes these itself from the content it wrote",
]
TRUSTED = ["numpy.fft used by the harness to measure the gain (same library the code under test uses; its linearity/inversion is probed)",
           "harness evaluation of the statement's formula (props/c16.py _spec_gain), independent of model and implementation",
           "harness MRC parser (props/c16.py parse_mrc; probed against mrcfile) and mrcfile to create input files"]
LEVEL_TEXT = ("Lean 4 theorems about an executable polymorphic model of dose_filter / dose_filter_single_image, instantiated at the reals with "
              "Real.exp, Real.rpow, Real.sqrt: the multiplier on every raw DFT coefficient is exp(-d/(2(0.245 f^-1.665 + 2.81))) with f the physical "
              "frequency of that coefficient (fftshift index arithmetic proved for even and odd sizes), DC gain 1, gain(0)=1, gain(d1)gain(d2)=gain(d1+d2), "
              "0<gain<=1, antitone in dose, Hermitian-even; and, for any Fourier service satisfying the stated DFT laws — PROVED for the exact complex 2-D DFT "
              "of every image size H, W >= 1 (`dftN_isDFT`), so hypothesis-free there — the image-level consequences "
              "(spectrum multiplied, zero dose = identity, linear, power never increases, more dose attenuates more, d1 then d2 = d1+d2, DC and mean unchanged, "
              "per-image dose pairing, short dose list rejected); integer stacks modelled as the code is (truncation; zero dose still the identity; witness of the open "
              "finding C16-K1). Tied to the source by regenerated constants, signatures, expression skeletons and whole-body "
              "dumps (insensitive to renaming of locals) and by a per-frequency "
              "differential run of the real functions against the driver executing the same definitions at Float")
LEVEL_NOTE = ("trusted: Lean kernel; translator anchors; numpy.fft as the measuring instrument and as the Fourier service (the DFT laws are theorems for the exact complex DFT; that numpy.fft "
              "computes it is probed each run); float64 vs real arithmetic within the stated tolerances")
TECHNIQUE = "Lean 4 proof over the reals (Mathlib exp/rpow/sqrt, index arithmetic by omega) + regenerated constants/signatures/expression skeletons/body dumps + per-frequency differential correspondence incl. cross-call and file I/O streams"
DESIGN_REF = "DESIGN.md section 4, C16"

A_DOC, B_DOC, C_DOC = 0.245, -1.665, 2.81  # the statement's constants (NOT read from the source)
DEFAULTS = dict(output_file=None, input_order="xyz", output_order="xyz")   # documented signature defaults (Props/C16 defaults_documented)
NP_DT = {"f8": np.float64, "f4": np.float32, "i2": np.int16, "i1": np.int8}
INT_LIM = {"i2": 8000, "i1": 40}
FILE_SRC = ("txt", "csv", "csv_removed", "mdoc", "mdoc_dt", "xml")
# dose sources through which cryoCAT holds the doses in float32 (ASSUMPTIONS: `float32-dose-loading`): one_value_per_line_read reads
# with its default data_type=np.float32, the .csv branch casts CorrectedDose with .astype(np.single), and a float32 ndarray simply IS
# float32.  "dose_i" of the statement is the dose the filter is GIVEN, i.e. the float32 rounding of the decimal in the file.
F32_SRC = ("txt", "csv", "csv_removed", "ndarray32")


def as_loaded(src, d):
    """the dose the filter is given when the decimal `d` reaches it through source `src`"""
    return float(np.float32(d)) if src in F32_SRC else float(d)


# ------------------------------------------------------------------ generators
def _size(rng):
    k = rng.random()
    hi = 12 if k < 0.5 else (24 if k < 0.8 else 64)
    return rng.randint(4, hi)


def _px(rng):
    k = rng.random()
    if k < 0.15:
        return rng.choice([0.5, 10.0, 1.0, 1.327, 2.654, 3.5])
    if k < 0.55:
        return 0.5 * 20.0 ** rng.random()  # log-uniform: small pixel sizes (high frequencies, strong attenuation) as often as large
    return rng.uniform(0.5, 10.0)


def _dose(rng, hi=300.0, decimal=False):
    """a dose in 0..hi: on the dyadic 1/8 grid, or (decimal=True) a decimal with 1..3 places as people write them into dose files"""
    k = rng.random()
    if k < 0.08:
        return 0.0
    if k < 0.14:
        return hi
    top = hi if k < 0.5 else min(hi, 60.0)
    if decimal:
        return min(hi, round(rng.uniform(0.0, top), rng.choice([1, 2, 2, 3])))
    return rng.randint(0, int(top * 8)) / 8.0


def _image(rng, W, H):
    k = rng.random()
    off = rng.choice([0.0, 0.0, rng.randint(-80, 80) / 8.0, 100.0])
    if k < 0.45:
        return dict(kind="random", seed=rng.randrange(1 << 30), offset=off)
    if k < 0.85:
        kx = rng.choice([rng.randint(-(W // 2), (W - 1) // 2), -(W // 2), 0, 1])
        ky = rng.choice([rng.randint(-(H // 2), (H - 1) // 2), -(H // 2), 0, 1])
        return dict(kind="wave", kx=kx, ky=ky, phase=rng.randint(0, 15), amp=rng.choice([1.0, 0.5, 8.0]), offset=off)
    if k < 0.95:
        return dict(kind="delta", y=rng.randrange(H), x=rng.randrange(W), amp=rng.choice([1.0, -2.0, 16.0]), offset=off)
    return dict(kind="const", offset=off if off != 0.0 else 3.0)


def _mdoc_dt_doses(expo_bits, seed):
    """expected per-image doses (tilt order) of an .mdoc without PriorRecordDose: ExposureDose * (rank by DateTime + 1)"""
    n = len(expo_bits)
    _, rank = _mdoc_perms(n, seed)
    return [f2b(b2f(e) * (rank[i] + 1)) for i, e in enumerate(expo_bits)]


def _mdoc_perms(n, seed):
    """acq[j] = stack index (tilt order) of the j-th section of the file; rank[i] = DateTime rank of stack image i"""
    r = _random.Random(seed)
    acq = list(range(n)); r.shuffle(acq)
    order = list(range(n)); r.shuffle(order)
    rank = [0] * n
    for k, i in enumerate(order):
        rank[i] = k
    return acq, rank


def fix(case):
    """re-establish the derived fields after a structural edit (shrinking): doses of an mdoc_dt case follow from its exposures"""
    c = dict(case)
    n = len(c["images"])
    if c.get("dose_src") == "mdoc_dt" and not c.get("malformed"):
        c["expo"] = list(c["expo"][:n]) + [f2b(1.0)] * max(0, n - len(c["expo"]))
        c["doses"] = _mdoc_dt_doses(c["expo"], c.get("aux_seed", 0))
    ag = c.get("again")
    if ag:
        ag = dict(ag); ag["doses"] = list(ag["doses"][:n]) + [f2b(5.0)] * max(0, n - len(ag["doses"])); c["again"] = ag
    return c


def generate(rng, tier, n):
    for t in range(n):
        W, H = _size(rng), _size(rng)
        k = rng.random()
        mode = "plain" if k < 0.55 else ("linear" if k < 0.67 else ("monotone" if k < 0.79 else ("compose" if k < 0.94 else "plain")))
        api = "single" if (mode == "plain" and rng.random() < 0.25) else "stack"
        N = rng.choice([1, 2, 3, rng.randint(1, 10), rng.randint(1, 10)])
        if tier == "search":
            W, H, N = rng.randint(4, 9), rng.randint(4, 9), min(N, 4)
        hi = 150.0 if mode == "compose" else 300.0
        dose_src = rng.choice(["list"] * 4 + ["tuple"] * 2 + ["ndarray"] * 4 + ["ndarray32"] * 2 + ["txt"] * 3 + ["csv", "csv", "csv_removed"] + ["mdoc"] * 3 + ["mdoc_dt"] * 2 + ["xml"] * 3)
        if api == "single":
            dose_src = "list"
        # decimal doses (59.1, 120.3, 7.125 ...) from EVERY source kind; in compose mode through a float32 source the sum d1+d2 must
        # itself be a float32 number (else "once with d1+d2" is not the same dose as d1 then d2), so those stay on the 1/8 grid
        dec = rng.random() < 0.45 and not (mode == "compose" and dose_src in F32_SRC)
        dose_of = lambda r, h=300.0: _dose(r, h, dec)
        if mode == "linear":
            N = 3
            d = dose_of(rng)
            images = [_image(rng, W, H), _image(rng, W, H),
                      dict(kind="lincomb", alpha=rng.choice([1.0, -1.0, 0.5, 2.0, 3.25]), beta=rng.choice([1.0, -0.5, 4.0, -2.75]))]
            doses = [d, d, d]
        elif mode == "monotone":
            N = max(N, 2)
            images = [_image(rng, W, H)] + [dict(kind="copy") for _ in range(N - 1)]
            doses = [dose_of(rng) for _ in range(N)]
        else:
            images = [_image(rng, W, H) for _ in range(N)]
            doses = [dose_of(rng, hi) for _ in range(N)]
            if N >= 2 and rng.random() < 0.5:  # ascending accumulated dose, then shuffled: "in any order"
                step = round(rng.uniform(0.1, 30.0), 2) if dec else rng.randint(1, 240) / 8.0
                doses = [min(hi, round(step * (i + 1), 2) if dec else step * (i + 1)) for i in range(N)]
                if rng.random() < 0.7:
                    rng.shuffle(doses)
            if N >= 2 and mode == "plain" and rng.random() < 0.15:  # an exact zero directly before an exposed image
                j = rng.randrange(N - 1)
                doses[j] = 0.0
                if doses[j + 1] == 0.0:
                    doses[j + 1] = rng.randint(1, 480) / 8.0
        k = rng.random()
        dtype = "f8" if k < 0.72 else ("f4" if k < 0.90 else ("i2" if k < 0.96 else "i1"))
        if dtype in ("i2", "i1") and (api == "single" or mode == "compose"):
            dtype = "f8"
        case = dict(W=W, H=H, px=f2b(_px(rng)), doses=[f2b(d) for d in doses], images=images, mode=mode, api=api, dtype=dtype,
                    dose_src=dose_src,
                    order_in=rng.choice(["xyz", "xyz", "zyx"]), order_out=rng.choice(["xyz", "xyz", "zyx"]),
                    aux_seed=rng.randrange(1 << 20))
        if mode == "compose":
            case["doses2"] = [f2b(dose_of(rng, 150.0)) for _ in range(N)]
        # how the numbers are written (H3): integral doses as integers (`30`, not `30.0`: python ints in a list / tuple, an int64 ndarray
        # when all are integral, an all-integer text / csv / mdoc column), pixel size as python int / numpy float32 / python float
        if rng.random() < 0.3:
            case["int_text"] = True
        k = rng.random()
        if k < 0.12:
            case["px"] = f2b(float(rng.choice([1, 2, 3, 4, 5, 8, 10]))); case["px_as"] = "int"
        elif k < 0.22:
            case["px"] = f2b(float(np.float32(b2f(case["px"])))); case["px_as"] = "f32"
        if api == "single":
            case["dose_src"] = "list"
        else:
            if case["dose_src"] == "mdoc_dt" and mode in ("linear", "compose"):
                case["dose_src"] = "mdoc"
            if case["dose_src"] == "mdoc_dt":
                case["expo"] = [f2b(round(rng.uniform(0.01, 300.0 / N), rng.choice([1, 2, 3])) if dec and rng.random() < 0.9 else
                                    rng.randint(0 if rng.random() < 0.1 else 1, max(1, int(300 * 8 / N))) / 8.0) for _ in range(N)]
                case["doses"] = _mdoc_dt_doses(case["expo"], case["aux_seed"])
            omit = [kw for kw in ("output_file", "input_order", "output_order") if rng.random() < 0.3]
            if "input_order" in omit:
                case["order_in"] = DEFAULTS["input_order"]
            if "output_order" in omit:
                case["order_out"] = DEFAULTS["output_order"]
            if "output_file" not in omit and rng.random() < 0.15:
                case["out_file"] = True
            case["omit"] = omit
            # (a stack of ONE image is a 3-D MRC file with nz = 1, as every stack writer produces it; a 2-D single-IMAGE file is not a stack:
            #  there `TiltStack.__init__` tests `self.data.shape == 2`, never true, and fails to unpack the shape — outside the quantifier, DESIGN section 6)
            if rng.random() < 0.13:      # the stack is handed over as the path of an MRC file (float32 / int16 / int8 modes)
                case["stack_src"] = "file"
                if case["dtype"] == "f8":
                    case["dtype"] = dtype = "f4"
            if mode == "plain" and N >= 2 and rng.random() < 0.12:
                case["doses"] = case["doses"][: rng.randint(0, N - 1)]
                case["malformed"] = "short-doses"
                case["dose_src"] = rng.choice(["list", "ndarray", "txt", "csv", "xml"]) if case["doses"] else rng.choice(["list", "ndarray"])
                case.pop("expo", None)
                if dtype in ("i2", "i1"):
                    case["dtype"] = "f8"; case.pop("stack_src", None)
            elif case["dose_src"] not in ("mdoc", "mdoc_dt") and rng.random() < 0.07:
                case["surplus"] = [f2b(dose_of(rng)) for _ in range(rng.randint(1, 3))]
            if case["dose_src"] in ("csv", "csv_removed"):     # row labels of the .csv (first column, index_col=0): default, with gaps, duplicated
                case["csv_index"] = rng.choice(["range"] * 4 + ["gaps", "dup", "text"])
            if not case.get("malformed") and mode != "compose" and rng.random() < 0.25:
                px2 = _px(rng)
                while abs(px2 - b2f(case["px"])) < 0.05 * b2f(case["px"]):
                    px2 = _px(rng)
                src1 = case["dose_src"]
                src2 = ("mdoc" if src1 == "mdoc_dt" else src1) if rng.random() < 0.7 else rng.choice(["list", "ndarray"])
                case["again"] = dict(px=f2b(px2), doses=[f2b(dose_of(rng)) for _ in range(N)], mutate=rng.random() < 0.35, dose_src=src2,
                                     same_dose_obj=rng.random() < 0.6)
        yield case


def _shrunk_image(im):
    if im["kind"] in ("lincomb", "copy"):
        return im
    return dict(kind="delta", y=0, x=0, amp=1.0, offset=0.0)


def _drop(case, *keys):
    return {k: v for k, v in case.items() if k not in keys}


def shrink(case):
    N = len(case["images"])
    mode = case["mode"]
    if case.get("malformed"):
        if N > 2:
            yield dict(case, images=case["images"][:2], doses=case["doses"][:1])
        if case["W"] > 4 or case["H"] > 4:
            yield dict(case, W=4, H=4, images=[_shrunk_image(i) for i in case["images"]])
        for k, v in (("dose_src", "list"), ("order_in", "xyz"), ("order_out", "xyz")):
            if case.get(k) != v:
                yield dict(case, **{k: v})
        return
    # fewer features
    if case.get("again"):
        yield _drop(case, "again")
        ag = case["again"]
        if ag.get("mutate"):
            yield dict(case, again=dict(ag, mutate=False))
        if ag.get("dose_src") != "list":
            yield dict(case, again=dict(ag, dose_src="list"))
    for k in ("surplus", "out_file", "stack_src", "int_text", "px_as", "csv_index"):
        if case.get(k):
            yield _drop(case, k)
    if case.get("omit"):
        yield dict(case, omit=[])
    if case.get("dose_src") not in ("list", None) and case["api"] == "stack":
        yield _drop(dict(case, dose_src="list"), "expo")
    # fewer images
    if mode in ("plain", "compose") and N > 1 and not (case.get("stack_src") == "file" and N == 2):
        for i in range(N):
            if case.get("stack_src") == "file":
                break
            c = dict(case, images=[case["images"][i]], doses=[case["doses"][i]])
            if "doses2" in case:
                c["doses2"] = [case["doses2"][i]]
            if "expo" in case:
                c["expo"] = [case["expo"][i]]
            if case.get("again"):
                c["again"] = dict(case["again"], doses=[case["again"]["doses"][i]])
            yield fix(c)
        if N > 2:
            h = max(2, N // 2)
            c = dict(case, images=case["images"][:h], doses=case["doses"][:h])
            if "doses2" in case:
                c["doses2"] = case["doses2"][:h]
            yield fix(c)
    if mode == "monotone" and N > 2:
        for i in range(1, N):
            c = dict(case, images=case["images"][:i] + case["images"][i + 1:], doses=case["doses"][:i] + case["doses"][i + 1:])
            if "expo" in case:
                c["expo"] = case["expo"][:i] + case["expo"][i + 1:]
            yield fix(c)
    # plain settings
    for k, v in (("dtype", "f8"), ("order_in", "xyz"), ("order_out", "xyz")):
        if case[k] != v and not (k == "dtype" and case.get("stack_src") == "file"):
            yield dict(case, **{k: v})
    if mode != "plain" and mode != "linear" and N == 1:
        yield dict(case, mode="plain")
    # smaller images
    for W2, H2 in ((4, 4), (4, case["H"]), (case["W"], 4), (5, 4), (4, 5), (max(4, case["W"] // 2), max(4, case["H"] // 2))):
        if (W2, H2) != (case["W"], case["H"]) and W2 <= case["W"] and H2 <= case["H"]:
            ims = []
            for im in case["images"]:
                im = dict(im)
                if im["kind"] == "wave":
                    im["kx"] = max(-(W2 // 2), min((W2 - 1) // 2, im["kx"])); im["ky"] = max(-(H2 // 2), min((H2 - 1) // 2, im["ky"]))
                if im["kind"] == "delta":
                    im["x"] %= W2; im["y"] %= H2
                ims.append(im)
            yield dict(case, W=W2, H=H2, images=ims)
    # simpler images
    simple = [_shrunk_image(i) for i in case["images"]]
    if simple != case["images"]:
        yield dict(case, images=simple)
    # simpler numbers
    if b2f(case["px"]) != 1.0:
        yield dict(case, px=f2b(1.0))
        yield dict(case, px=f2b(float(round(b2f(case["px"])) or 1)))
    if case.get("dose_src") != "mdoc_dt":
        ds = [b2f(d) for d in case["doses"]]
        for cand in ([float(round(d)) for d in ds], [10.0 * (i + 1) for i in range(len(ds))] if mode != "linear" else [10.0] * len(ds)):
            if cand != ds:
                yield dict(case, doses=[f2b(d) for d in cand])


# ------------------------------------------------------------------ building inputs
def build_images(case):
    """the pixel values the stack really holds (float64 copies), image by image"""
    W, H = case["W"], case["H"]
    dt = case["dtype"]
    yy, xx = np.meshgrid(np.arange(H), np.arange(W), indexing="ij")
    out = []
    for im in case["images"]:
        k = im["kind"]
        if k == "random":
            a = np.random.default_rng(im["seed"]).integers(-64, 65, size=(H, W)) / 8.0 + im["offset"]
        elif k == "wave":
            a = im["amp"] * np.cos(2 * np.pi * (im["kx"] * xx / W + im["ky"] * yy / H) + im["phase"] * np.pi / 8) + im["offset"]
        elif k == "delta":
            a = np.full((H, W), im["offset"], dtype=float)
            a[im["y"], im["x"]] += im["amp"]
        elif k == "const":
            a = np.full((H, W), im["offset"], dtype=float)
        elif k == "copy":
            a = out[0].copy()
        elif k == "lincomb":
            a = im["alpha"] * out[0] + im["beta"] * out[1]
        else:
            raise ValueError(k)
        a = np.asarray(a, dtype=np.float64)
        if dt == "f4":
            a = a.astype(np.float32).astype(np.float64)  # the values the float32 stack really holds
        elif dt in INT_LIM:
            if k in ("random", "wave", "delta", "const"):
                a = a * 4.0          # more distinct integer levels
            a = np.clip(np.rint(a), -INT_LIM[dt], INT_LIM[dt])
        out.append(a)
    return out


def _rolled(imgs):
    """content after the harness's legitimate in-place edit between two calls: image i becomes the old image i-1"""
    return [imgs[-1]] + imgs[:-1] if imgs else imgs


def _stack_array(case, imgs, order):
    arr = np.stack(imgs, axis=0).astype(NP_DT[case["dtype"]])  # (n, H, W)
    return arr.transpose(2, 1, 0).copy() if order == "xyz" else arr


def _num(d, int_text=False):
    """a dose as text: shortest repr; with int_text an integral value is written as an integer (`30`, as in a hand-written file)"""
    d = float(d)
    return str(int(d)) if (int_text and d == int(d)) else repr(d)


def _mdoc_parts(doses, seed):
    """(ExposureDose, PriorRecordDose) of stack image i of a `mdoc` file, in the order the sections are written"""
    acq, _ = _mdoc_perms(len(doses), seed)
    r = _random.Random(seed + 7)
    parts = {}
    for i in acq:
        e = r.randint(0, int(doses[i] * 8)) / 8.0
        parts[i] = (e, doses[i] - e)
    return parts


def _mdoc_text(doses, kind, seed, expo_bits=None, int_text=False):
    """SerialEM-style .mdoc whose sections stand in ACQUISITION order; tilt angles ascend with the stack index"""
    n = len(doses)
    acq, rank = _mdoc_perms(n, seed)
    parts = _mdoc_parts(doses, seed) if kind == "mdoc" else None
    lines = ["PixelSpacing = 1.35", "ImageFile = ts.st", "DataMode = 1", "", "[T = SerialEM: written by the C16 harness]", ""]
    for j, i in enumerate(acq):
        ang = 3.0 * i - 3.0 * (n // 2)
        lines.append(f"[ZValue = {j}]")
        lines.append(f"TiltAngle = {ang!r}")
        if kind == "mdoc":
            e, prior = parts[i]
            lines.append(f"ExposureDose = {_num(e, int_text)}")
            lines.append(f"PriorRecordDose = {_num(prior, int_text)}")
            minute = j
        else:
            lines.append(f"ExposureDose = {_num(b2f(expo_bits[i]), int_text)}")
            minute = rank[i]
        lines.append(f"DateTime = 2024-02-21 12:{minute:02d}:00")
        lines.append("")
    return "\n".join(lines) + "\n"


def _csv_text(doses, removed, seed, int_text=False, index="range"):
    r = _random.Random(seed + 3)
    rows = [(d, False) for d in doses]
    if removed:
        for _ in range(r.randint(1, 3)):
            rows.insert(r.randint(0, len(rows)), (r.randint(0, 2400) / 8.0, True))
    head = ",ZValue,CorrectedDose" + (",Removed" if removed else "")
    # the first column becomes the row labels (index_col=0): 0..n-1, labels with gaps (rows were dropped before), duplicated labels, names
    lab = {"range": lambda i: i, "gaps": lambda i: 3 * i + 2, "dup": lambda i: i // 2, "text": lambda i: f"img_{i:03d}"}[index]
    return head + "\n" + "".join(f"{lab(i)},{i},{_num(d, int_text)}" + (f",{rm}" if removed else "") + "\n" for i, (d, rm) in enumerate(rows))


def _warp_xml_text(doses, seed, int_text=False):
    """a Warp tilt-series .xml as Warp writes it: root <TiltSeries ...> whose children <Angles>, <Dose>, <AxisAngle>, ... hold one value
    per line (image order = stack order) and whose <GridCTF> holds <Node Value=...> children; total_dose_load reads the <Dose> node"""
    n = len(doses)
    r = _random.Random(seed + 11)
    col = lambda vals: "\n".join(vals)
    angles = col(_num(3.0 * i - 3.0 * (n // 2), True) for i in range(n))
    axis = col(repr(round(r.uniform(80, 90), 4)) for _ in range(n))
    nodes = "".join(f'\n\t\t<Node X="0" Y="0" Z="{i}" Value="{round(r.uniform(1, 5), 4)!r}" />' for i in range(n))
    return (f'<TiltSeries AreAnglesInverted="False" PlaneNormal="0, 0, 1" Bfactor="0" Weight="1" UnselectFilter="False" CTFResolutionEstimate="5.2">\n'
            f"\t<Angles>{angles}</Angles>\n\t<Dose>{col(_num(d, int_text) for d in doses)}</Dose>\n\t<AxisAngle>{axis}</AxisAngle>\n"
            f'\t<GridCTF Width="1" Height="1" Depth="{n}">{nodes}\n\t</GridCTF>\n</TiltSeries>\n')


def _doses_arg(src, doses, td, seed, expo=None, reuse=None, int_text=False, csv_index="range"):
    """the object handed to dose_filter as total_dose; `reuse`: ndarray of an earlier call to overwrite in place"""
    if src in ("list", "tuple"):
        vals = [int(d) if (int_text and d == int(d)) else float(d) for d in doses]
        return vals if src == "list" else tuple(vals)
    if src in ("ndarray", "ndarray32"):
        dt = np.float64 if src == "ndarray" else np.float32
        if src == "ndarray" and int_text and doses and all(d == int(d) for d in doses) and reuse is None:
            return np.array([int(d) for d in doses], dtype=np.int64)     # np.array([10, 20, 30]) is an integer array
        if reuse is not None and isinstance(reuse, np.ndarray) and reuse.dtype == dt and reuse.shape == (len(doses),):
            reuse[...] = doses          # the caller legitimately re-uses its own array
            return reuse
        return np.array(doses, dtype=dt)
    if src == "txt":
        p, text = os.path.join(td, "dose.txt"), "".join(_num(d, int_text) + "\n" for d in doses)
    elif src in ("csv", "csv_removed"):
        p, text = os.path.join(td, "dose.csv"), _csv_text(doses, src == "csv_removed", seed, int_text, csv_index)
    elif src in ("mdoc", "mdoc_dt"):
        p, text = os.path.join(td, "dose.mdoc"), _mdoc_text(doses, src, seed, expo, int_text)
    elif src == "xml":
        # Warp writes UTF-16 with a byte order mark (tests/test_data/TS_018/018.xml); hand-edited files are UTF-8
        enc = "utf-16" if (seed % 2 == 0) else "utf-8"
        p, text = os.path.join(td, "dose.xml"), f'<?xml version="1.0" encoding="{enc}"?>\n' + _warp_xml_text(doses, seed, int_text)
        with open(p, "w", encoding=enc) as f:
            f.write(text)
        return p
    else:
        raise ValueError(src)
    with open(p, "w") as f:     # the same path is rewritten when a second call uses the same kind of file
        f.write(text)
    return p


def _snap(obj):
    """byte-exact snapshot of a caller-owned argument"""
    if isinstance(obj, np.ndarray):
        return ("nd", str(obj.dtype), obj.shape, obj.tobytes())
    if isinstance(obj, str):
        return ("file", open(obj, "rb").read())
    if isinstance(obj, (list, tuple)):
        return (type(obj).__name__, [repr(x) for x in obj])
    return ("other", repr(obj))


def _enc(arr_nhw):
    a = np.ascontiguousarray(np.asarray(arr_nhw, dtype=np.float64))
    return dict(shape=list(a.shape), hex=a.tobytes().hex())


def _dec(o):
    return np.frombuffer(bytes.fromhex(o["hex"]), dtype=np.float64).reshape(o["shape"])


def _describe(out):
    """dtype / python type of what the library returned, and its values as float64 where that is possible (G3)"""
    info = dict(type=type(out).__name__)
    try:
        arr = out if isinstance(out, np.ndarray) else np.asarray(out)
    except Exception as e:
        info.update(dtype="?", shape=[], unconvertible=f"{type(e).__name__}")
        return None, info
    info.update(dtype=str(arr.dtype), kind=arr.dtype.kind, shape=list(arr.shape))
    if arr.dtype.kind == "c":
        info["imag_max"] = float(np.max(np.abs(arr.imag))) if arr.size else 0.0
        return np.asarray(arr.real, dtype=np.float64), info
    if arr.dtype.kind not in "fiub":
        info["unconvertible"] = "non-numeric dtype"
        return None, info
    return np.asarray(arr, dtype=np.float64), info


# independent MRC reader (header + payload; modes 0 int8, 1 int16, 2 float32, 6 uint16)
MRC_MODES = {0: "i1", 1: "<i2", 2: "<f4", 6: "<u2"}


def parse_mrc(path):
    raw = open(path, "rb").read()
    if len(raw) < 1024:
        return dict(ok=False, why=f"file of {len(raw)} bytes has no 1024-byte header")
    nx, ny, nz, mode = struct.unpack("<4i", raw[0:16])
    mapc, mapr, maps = struct.unpack("<3i", raw[64:76])
    nsymbt = struct.unpack("<i", raw[92:96])[0]
    if mode not in MRC_MODES:
        return dict(ok=False, why=f"mode {mode}", dims=[nx, ny, nz], mode=mode)
    dt = np.dtype(MRC_MODES[mode])
    payload = raw[1024 + nsymbt:]
    if len(payload) != nx * ny * nz * dt.itemsize or (mapc, mapr, maps) != (1, 2, 3) or raw[212:213] != b"\x44":
        return dict(ok=False, why="payload size / axis order / machine stamp", dims=[nx, ny, nz], mode=mode)
    data = np.frombuffer(payload, dtype=dt).reshape(nz, ny, nx)   # x fastest
    return dict(ok=True, dims=[nx, ny, nz], mode=mode, data=data)


def _write_mrc(path, nhw, dtype):
    import mrcfile
    with mrcfile.new(path, overwrite=True) as m:
        m.set_data(np.ascontiguousarray(np.asarray(nhw).astype(NP_DT[dtype])))
    p = parse_mrc(path)
    if not p["ok"] or not np.array_equal(p["data"].astype(np.float64), np.asarray(nhw, dtype=np.float64)):
        raise RuntimeError("harness could not write the MRC input file")   # no cryocat frame -> harness-or-library-raised


def harness_freq_array(W, H, px):
    """|frequency| in cycles per Angstrom of every position of the fftshifted spectrum (documented convention, numpy fftfreq)"""
    fx = np.fft.fftshift(np.fft.fftfreq(W, d=px))
    fy = np.fft.fftshift(np.fft.fftfreq(H, d=px))
    return np.sqrt(fx[None, :] ** 2 + fy[:, None] ** 2)


def _nhw(out, order):
    return out.transpose(2, 1, 0) if (order == "xyz" and out is not None and out.ndim == 3) else out


def _call_stack(ts_mod, case, stack_arg, px, dose_arg, order_in, order_out, out_path):
    """one call of dose_filter; keywords listed in case['omit'] are not passed (library defaults apply).
    returns (raw returned object, observation dict)"""
    import io, contextlib
    omit = case.get("omit") or []
    kw = {}
    if "output_file" not in omit:
        kw["output_file"] = out_path
    if "input_order" not in omit or order_in != DEFAULTS["input_order"]:     # a keyword is only left out where the documented default is meant
        kw["input_order"] = order_in
    if "output_order" not in omit or order_out != DEFAULTS["output_order"]:
        kw["output_order"] = order_out
    s_stack, s_dose = _snap(stack_arg), _snap(dose_arg)
    if out_path and os.path.exists(out_path):
        os.remove(out_path)
    with contextlib.redirect_stdout(io.StringIO()):
        out = ts_mod.dose_filter(stack_arg, px, dose_arg, **kw)
    vals, info = _describe(out)
    ob = dict(info=info, input_untouched=bool(_snap(stack_arg) == s_stack), doses_untouched=bool(_snap(dose_arg) == s_dose))
    if isinstance(out, np.ndarray) and isinstance(stack_arg, np.ndarray):
        ob["aliases_input"] = bool(np.shares_memory(out, stack_arg))
    if vals is not None:
        v = _nhw(vals, order_out)
        ob["out"] = _enc(v)
        ob["info"]["shape_nhw"] = list(v.shape)
    if out_path:
        if os.path.exists(out_path):
            p = parse_mrc(out_path)
            ob["file"] = dict(ok=p["ok"], why=p.get("why", ""), dims=p.get("dims"), mode=p.get("mode"))
            if p["ok"]:
                ob["file"]["out"] = _enc(p["data"])
        else:
            ob["file"] = dict(ok=False, why="file not written")
    return out, ob


def _raised_in_cryocat(e):
    return any("/cryocat/" in fr.filename for fr in traceback.extract_tb(e.__traceback__))


def _effective(src, doses, seed):
    """bits of the doses the filter is GIVEN when the numbers `doses` (bits) travel through source `src`: float32 rounding for the
    float32 sources (F32_SRC), ExposureDose + PriorRecordDose as float64 sum of the two numbers in the file for `mdoc`, else the number"""
    ds = [b2f(d) for d in doses]
    if src == "mdoc":
        parts = _mdoc_parts(ds, seed)
        return [f2b(parts[i][0] + parts[i][1]) for i in range(len(ds))]
    return [f2b(as_loaded(src, d)) for d in ds]


def plan(case):
    """the library calls of a case in the order they are made: list of dict(tag, px (bits), doses (bits of the numbers as written / passed,
    incl. surplus), eff (bits of the doses the filter is given: `_effective`), src, seed (of the dose file))"""
    seed = case.get("aux_seed", 0)
    d1 = list(case["doses"]) + list(case.get("surplus") or [])
    calls = [dict(tag="first", px=case["px"], doses=d1, src=case["dose_src"], seed=seed)]
    if not (case.get("malformed") or case["api"] == "single"):
        if case["mode"] == "compose":
            calls.append(dict(tag="second", px=case["px"], doses=list(case["doses2"]), src=case["dose_src"], seed=seed + 1))
            calls.append(dict(tag="once", px=case["px"], doses=[f2b(b2f(a) + b2f(b)) for a, b in zip(case["doses"], case["doses2"])], src=case["dose_src"], seed=seed + 2))
        if case.get("again"):
            ag = case["again"]
            calls.append(dict(tag="again", px=ag["px"], doses=list(ag["doses"]), src=ag["dose_src"], seed=seed + 1))
    for c in calls:
        c["eff"] = _effective(c["src"], c["doses"], c["seed"])
    return calls


def _px_arg(case, px):
    """the pixel size as the caller writes it: python float, python int (`2`) or numpy float32 — `float(pixel_size)` must take all"""
    k = case.get("px_as")
    if k == "int" and px == int(px):
        return int(px)
    if k == "f32" and float(np.float32(px)) == px:
        return np.float32(px)
    return px


def run_impl(case):
    import warnings
    from cryocat import tiltstack
    W, H = case["W"], case["H"]
    imgs = build_images(case)
    seed = case.get("aux_seed", 0)
    order_in, order_out = case["order_in"], case["order_out"]
    with warnings.catch_warnings(), tempfile.TemporaryDirectory(prefix="c16_") as td:
        warnings.simplefilter("ignore")
        if case["api"] == "single":
            fa = harness_freq_array(W, H, b2f(case["px"]))
            fa_snap = _snap(fa)
            outs, infos, untouched = [], [], True
            for im, d in zip(imgs, [b2f(d) for d in case["doses"]]):
                if case.get("int_text") and d == int(d):
                    d = int(d)
                arr = im.astype(NP_DT[case["dtype"]])
                keep = _snap(arr)
                vals, info = _describe(tiltstack.dose_filter_single_image(arr, d, fa))
                untouched = untouched and _snap(arr) == keep and _snap(fa) == fa_snap   # the same frequency array serves every image
                infos.append(info)
                if vals is None or list(vals.shape) != [H, W]:
                    return dict(calls=[dict(tag="first", info=info, input_untouched=bool(untouched), doses_untouched=True)], freq=_enc(fa))
                outs.append(vals)
            info = dict(infos[0], shape_nhw=[len(outs), H, W])
            if any(i.get("dtype") != info.get("dtype") for i in infos):
                info["dtype"] = "mixed:" + ",".join(sorted({i.get("dtype", "?") for i in infos}))
            if any("imag_max" in i for i in infos):
                info["imag_max"] = max(i.get("imag_max", 0.0) for i in infos)
            return dict(calls=[dict(tag="first", out=_enc(np.stack(outs, 0)), info=info, input_untouched=bool(untouched), doses_untouched=True)], freq=_enc(fa))
        pl = plan(case)
        out_path = os.path.join(td, "filtered.mrc") if case.get("out_file") else None
        if case.get("stack_src") == "file":
            stack_arg = os.path.join(td, "stack.mrc")
            _write_mrc(stack_arg, np.stack(imgs, 0), case["dtype"])
        else:
            stack_arg = _stack_array(case, imgs, order_in)
        first = pl[0]
        it, ci = bool(case.get("int_text")), case.get("csv_index", "range")
        dose_arg = _doses_arg(first["src"], [b2f(d) for d in first["doses"]], td, first["seed"], case.get("expo"), int_text=it, csv_index=ci)
        if case.get("malformed"):
            try:
                _call_stack(tiltstack, case, stack_arg, _px_arg(case, b2f(case["px"])), dose_arg, order_in, order_out, out_path)
            except Exception as e:      # ANY exception raised inside cryocat is a refusal (IndexError today; a ValueError with a helpful text is as good)
                if not _raised_in_cryocat(e):
                    raise
                return dict(reject=type(e).__name__)
            return dict(accepted=True)
        raw1, ob1 = _call_stack(tiltstack, case, stack_arg, _px_arg(case, b2f(first["px"])), dose_arg, order_in, order_out, out_path)
        ob1["tag"] = "first"
        obs = dict(calls=[ob1])
        snap1 = _snap(raw1) if isinstance(raw1, np.ndarray) else None
        for c in pl[1:]:
            doses = [b2f(d) for d in c["doses"]]
            if c["tag"] == "second":     # the array the library returned is filtered again, as it came back
                if not isinstance(raw1, np.ndarray):
                    break
                darg = _doses_arg(c["src"], doses, td, c["seed"], int_text=it, csv_index=ci)
                _, ob = _call_stack(tiltstack, case, raw1, _px_arg(case, b2f(c["px"])), darg, order_out, order_out, out_path)
            elif c["tag"] == "once":
                darg = _doses_arg(c["src"], doses, td, c["seed"], int_text=it, csv_index=ci)
                _, ob = _call_stack(tiltstack, case, stack_arg, _px_arg(case, b2f(c["px"])), darg, order_in, order_out, out_path)
            else:                        # "again": same caller-owned objects / paths, other pixel size and doses
                ag = case["again"]
                if ag.get("mutate"):
                    new = _rolled(imgs)
                    if isinstance(stack_arg, np.ndarray):
                        stack_arg[...] = _stack_array(case, new, order_in)     # in place: same object, new content
                    else:
                        _write_mrc(stack_arg, np.stack(new, 0), case["dtype"])  # same path, new content
                darg = _doses_arg(c["src"], doses, td, c["seed"], reuse=dose_arg if ag.get("same_dose_obj") else None, int_text=it, csv_index=ci)
                _, ob = _call_stack(tiltstack, case, stack_arg, b2f(c["px"]), darg, order_in, order_out, out_path)
            ob["tag"] = c["tag"]
            obs["calls"].append(ob)
        if snap1 is not None and len(pl) > 1:
            obs["first_result_intact"] = bool(_snap(raw1) == snap1)
        return obs


# ------------------------------------------------------------------ model requests
def requests(case, obs):
    W, H, n = case["W"], case["H"], len(case["images"])
    reqs = [dict(op="stack", W=W, H=H, px=c["px"], n=n, doses=c["eff"]) for c in plan(case)]   # the doses the filter is given
    if case["api"] == "single":
        reqs.append(dict(op="arrays", W=W, H=H, px=case["px"], dose=case["doses"][0]))
    if case["dtype"] in INT_LIM and not case.get("malformed") and "error" not in obs:
        # integer-typed stack: the driver runs the model of the code AS IT IS (`doseFilterInt`: convert, filter, truncate toward zero;
        # open finding C16-K1) on the very pixel values, one request per library call, after the "stack" requests
        inputs = _call_inputs(case, obs)
        for c in plan(case):
            if c["tag"] in inputs:
                imgs, _, _ = inputs[c["tag"]]
                reqs.append(dict(op="intstack", W=W, H=H, px=c["px"], doses=c["eff"], tag=c["tag"],
                                 images=[[int(v) for v in np.asarray(im).reshape(-1)] for im in imgs]))
    return reqs


# ------------------------------------------------------------------ the statement, evaluated independently
def _spec_gain(W, H, px, dose):
    """exp(-dose / (2*(0.245*f^-1.665 + 2.81))) at the physical frequency of every raw DFT coefficient [v,u]; 1 at f = 0"""
    fx = np.fft.fftfreq(W) * W / (W * px)  # integer frequency / (size * pixel size)  [cycles per Angstrom]
    fy = np.fft.fftfreq(H) * H / (H * px)
    f = np.sqrt(fx[None, :] ** 2 + fy[:, None] ** 2)
    g = np.ones((H, W))
    nz = f > 0
    g[nz] = np.exp(-dose / (2.0 * (A_DOC * f[nz] ** B_DOC + C_DOC)))
    return g


# (relative tolerance on the gain, noise floor relative to max|Fi|, pixel tolerance relative to max|x|)
TOLS = {"f8": (1e-9, 1e-13, 1e-11), "f4": (1e-4, 1e-5, 1e-5)}


def _table(t):
    return np.array([[b2f(x) for x in row] for row in t], dtype=np.float64)


def _where(dev, W, H):
    v, u = np.unravel_index(int(np.argmax(dev)), dev.shape)
    kx = u if 2 * u < W else u - W
    ky = v if 2 * v < H else v - H
    return int(v), int(u), int(kx), int(ky)


def _cmp_gain(Fi, Fo, G, tols):
    """`Fo = G * Fi` at every coefficient: |Fo - G Fi| <= rel*G*|Fi| + floor*max|Fi|; where the input coefficient is strong
    (|Fi| >= 1e-6 max|Fi|) and the expected output is above the noise floor the LOG-gain is compared as well.
    returns (excess map (>0 = violated), dict of statistics)"""
    rel, floor, _ = tols
    aFi = np.abs(Fi)
    scale = float(aFi.max()) or 1.0
    err = np.abs(Fo - G * Fi)
    bound = rel * G * aFi + floor * scale
    exc = err / bound - 1.0
    strong = (aFi >= 1e-6 * scale) & (G * aFi >= 1e3 * floor * scale)
    st = dict(max_abs=float(err.max()) / scale, dlog=0.0, gmin_checked=1.0)
    if strong.any():
        ratio = (Fo[strong] / Fi[strong])
        lb = np.log1p(rel + floor * scale / (G[strong] * aFi[strong]))
        with np.errstate(divide="ignore", invalid="ignore"):
            dlog = np.where(ratio.real > 0, np.abs(np.log(np.abs(ratio)) - np.log(G[strong])), np.inf)
        e2 = np.zeros_like(exc)
        e2[strong] = dlog / (2.0 * lb) - 1.0
        exc = np.maximum(exc, e2)
        st["dlog"] = float(np.max(dlog))
        st["gmin_checked"] = float(G[strong].min())
    return exc, st


def _judge_float(tag, i, img, res, G_spec, G_model, dose, px, W, H, tols, out, st_acc):
    """all single-image clauses on a floating-point result"""
    rel, floor, pix = tols
    Fi, Fo = np.fft.fft2(img), np.fft.fft2(res)
    amax = max(1.0, float(np.max(np.abs(img))))
    # (a) the statement itself, at every frequency
    exc, st = _cmp_gain(Fi, Fo, G_spec, tols)
    if (exc > 0).any():
        v, u, kx, ky = _where(exc, W, H)
        f = math.hypot(kx / (W * px), ky / (H * px))
        clause = "zero-frequency-changed" if (kx, ky) == (0, 0) else ("zero-dose-not-identity" if dose == 0 else "attenuation")
        out.append(dict(kind="spec", clause=clause,
                        detail=f"call {tag} image {i} dose {dose} px {px} size {W}x{H}: DFT coefficient [v={v},u={u}] (kx={kx},ky={ky}, f={f:.6g}/A) "
                               f"is multiplied by {Fo[v,u]/Fi[v,u] if abs(Fi[v,u])>0 else 'n/a'}; the property demands {G_spec[v,u]:.12g}"))
    # (b) mean / zero frequency
    if abs(float(res.mean()) - float(img.mean())) > pix * amax:
        out.append(dict(kind="spec", clause="mean-changed", detail=f"call {tag} image {i}: mean {img.mean()!r} -> {res.mean()!r}"))
    # (c) zero dose = identity, pixel-wise
    if dose == 0 and float(np.max(np.abs(res - img))) > pix * amax:
        out.append(dict(kind="spec", clause="zero-dose-not-identity", detail=f"call {tag} image {i}: max pixel change {np.max(np.abs(res-img))!r}"))
    # (d) power never increases
    scale = float(np.max(np.abs(Fi))) or 1.0
    pex = np.abs(Fo) - np.abs(Fi) * (1 + rel) - floor * scale
    if (pex > 0).any():
        v, u, kx, ky = _where(pex, W, H)
        out.append(dict(kind="spec", clause="power-increased", detail=f"call {tag} image {i}: |DFT[{v},{u}]| {abs(Fi[v,u])!r} -> {abs(Fo[v,u])!r}"))
    # (e) correspondence with the Lean model (same defs as the theorems), at every frequency
    if G_model is not None:
        exc2, _ = _cmp_gain(Fi, Fo, G_model, tols)
        if (exc2 > 0).any():
            v, u, kx, ky = _where(exc2, W, H)
            out.append(dict(kind="corr", clause="gain-vs-model", detail=f"call {tag} image {i} dose {dose}: coefficient [v={v},u={u}] measured gain "
                            f"{Fo[v,u]/Fi[v,u] if abs(Fi[v,u])>0 else 'n/a'}, model {G_model[v,u]!r}"))
    for k in ("max_abs", "dlog"):
        st_acc[k] = max(st_acc.get(k, 0.0), st[k])
    st_acc["gmin_checked"] = min(st_acc.get("gmin_checked", 1.0), st["gmin_checked"])
    return Fi, Fo


def _judge_int(tag, i, img, res, G_spec, G_model, dose, out, flags, model=None):
    """integer stack, integer result.
    spec (independent of the model): the result must at least be trunc(filter(x)) per pixel with the STATEMENT's gain — anything else is
    a violation outside the listed finding.  The listed finding C16-K1 is recognised by the MODEL: `model` = (integers, floats) the driver
    obtained by running `doseFilterInt` / `doseFilter` of Model/C16 on these pixels; the flag `k1` is raised only when the library's
    integers are the model's integers (a pixel whose float value lies within `tol` of an integer may fall to either side: there rounding
    noise of the FFT decides) and differ visibly from the filtered image."""
    tol = 1e-9 * max(1.0, float(np.max(np.abs(img))))
    F = np.fft.fft2(img)

    def within(G):
        f = np.fft.ifft2(G * F).real
        lo, hi = np.trunc(f - tol), np.trunc(f + tol)
        return (res >= np.minimum(lo, hi)) & (res <= np.maximum(lo, hi)), f

    ok, f = within(G_spec)
    if not ok.all():
        y, x = np.unravel_index(int(np.argmax(np.where(ok, 0.0, np.abs(res - f)))), ok.shape)
        out.append(dict(kind="spec", clause="int-stack-not-truncated-filter",
                        detail=f"call {tag} image {i} dose {dose}: pixel [y={y},x={x}] is {res[y,x]!r}; the filtered value is {f[y,x]!r} (integer stack: trunc expected)"))
    elif float(np.max(np.abs(res - f))) > tol:
        if model is None:
            out.append(dict(kind="corr", clause="int-result-vs-model", detail=f"call {tag} image {i}: truncated integer result but no model run to compare with"))
        else:
            flags.setdefault("k1", (tag, i, float(np.max(np.abs(res - f))), float(res.mean() - img.mean())))
    if model is not None:
        mi, mf = model
        lo, hi = np.trunc(mf - tol), np.trunc(mf + tol)
        sure = lo == hi                                  # the model's float is not within tol of an integer: its truncation is decided
        bad = (sure & (res != mi)) | (res < np.minimum(lo, hi)) | (res > np.maximum(lo, hi))
        if float(np.max(np.abs(mf - f))) > 1e-9 * max(1.0, float(np.max(np.abs(f)))):
            y, x = np.unravel_index(int(np.argmax(np.abs(mf - f))), f.shape)
            out.append(dict(kind="corr", clause="int-model-filter-vs-statement", detail=f"call {tag} image {i}: model's filtered pixel [y={y},x={x}] {mf[y,x]!r}, statement's {f[y,x]!r}"))
        elif bad.any():
            y, x = np.unravel_index(int(np.argmax(bad)), bad.shape)
            out.append(dict(kind="corr", clause="int-result-vs-model", detail=f"call {tag} image {i}: pixel [y={y},x={x}] is {res[y,x]!r}, model doseFilterInt gives {mi[y,x]!r} (float value {mf[y,x]!r})"))
        flags["int_model_runs"] = flags.get("int_model_runs", 0) + 1
    if G_model is not None and not within(G_model)[0].all():
        out.append(dict(kind="corr", clause="gain-vs-model", detail=f"call {tag} image {i}: integer result is not trunc(model filter)"))


def _call_inputs(case, obs):
    """per call of plan(case): (images the call was given, expected per-image doses, pixel size)"""
    imgs = build_images(case)
    n = len(imgs)
    res = {}
    for c in plan(case):
        doses = [b2f(d) for d in c["eff"]][:n]      # dose_i = the dose the filter is given (float32 rounding for the float32 sources)
        if c["tag"] in ("first", "once"):
            res[c["tag"]] = (imgs, doses, b2f(c["px"]))
        elif c["tag"] == "second":
            first = next((o for o in obs.get("calls", []) if o.get("tag") == "first"), None)
            if first and "out" in first:
                r1 = _dec(first["out"])
                res["second"] = ([r1[i] for i in range(r1.shape[0])], doses, b2f(c["px"]))
        elif c["tag"] == "again":
            res["again"] = (_rolled(imgs) if case["again"].get("mutate") else imgs, doses, b2f(c["px"]))
    return res


def judge(case, obs, resps):
    out = []
    W, H = case["W"], case["H"]
    N = len(case["images"])
    model = resps[0] if resps else {}
    if "error" in obs and not obs.get("where"):
        # G4: no frame of the traceback lies inside cryocat -> not a statement about the code under test
        return [dict(kind="corr", clause="harness-or-library-raised", detail=obs["error"])]
    if case.get("malformed"):
        nd = len(case["doses"])
        if "error" in obs:      # cannot happen for an exception from inside cryocat (run_impl turns those into `reject`)
            return [dict(kind="corr", clause="short-dose-list-other-error", detail=obs["error"] + " @" + obs.get("where", ""))]
        if model.get("error") != "reject:IndexError":
            out.append(dict(kind="corr", clause="model-accepts-short-dose-list", detail=str(model)[:200]))
        if "reject" not in obs:
            # independent of model and implementation: images nd..N-1 have no dose, so no factor the statement allows exists for them
            # (kind corr: the statement speaks about images that HAVE a dose; how a stack with missing doses is refused is beyond it)
            out.append(dict(kind="corr", clause="image-without-dose-filtered",
                            detail=f"{nd} doses for {N} images of size {W}x{H} (dose source {case['dose_src']}): dose_filter returned a stack although images {nd}..{N-1} have no dose"))
        return out
    if "error" in obs:
        return [dict(kind="spec", clause="raises", detail=obs["error"] + " @" + obs.get("where", ""))]
    pl = plan(case)
    for c, r in zip(pl, resps):
        if "error" in r:
            return [dict(kind="corr", clause="model-rejects", detail=f"call {c['tag']}: {r}")]
    inputs = _call_inputs(case, obs)
    obs_calls = {o.get("tag"): o for o in obs.get("calls", [])}
    int_in = case["dtype"] in INT_LIM
    int_model = {}
    if int_in:
        tags = [c["tag"] for c in pl if c["tag"] in inputs]
        for tg, r in zip(tags, resps[len(pl):]):
            if isinstance(r, dict) and "out" in r and "filtered" in r:
                int_model[tg] = (np.array(r["out"], dtype=np.float64).reshape(N, H, W),
                                 np.array([[b2f(x) for x in im] for im in r["filtered"]], dtype=np.float64).reshape(N, H, W))
            else:
                out.append(dict(kind="corr", clause="int-model-missing", detail=f"call {tg}: driver answered {str(r)[:160]}"))
    flags, st_acc = {}, {}
    results, spectra = {}, {}
    for ci, c in enumerate(pl):
        tag = c["tag"]
        o = obs_calls.get(tag)
        if o is None or tag not in inputs:
            out.append(dict(kind="corr", clause="call-not-observed", detail=f"call {tag} has no observation"))
            continue
        imgs, doses, px = inputs[tag]
        info = o.get("info", {})
        # ---- what came back (G3) and what happened to the caller's objects (G2)
        if "out" not in o:
            out.append(dict(kind="corr", clause="output-dtype", detail=f"call {tag}: returned {info.get('type')} of dtype {info.get('dtype')} ({info.get('unconvertible')}), not a numeric image stack"))
            continue
        res = _dec(o["out"])
        if list(res.shape) != [N, H, W]:
            out.append(dict(kind="spec", clause="output-shape", detail=f"call {tag}: returned shape {info.get('shape')} for {N} images {W}x{H}, "
                            f"output_order={'omitted (default xyz)' if 'output_order' in (case.get('omit') or []) else case['order_out']}"))
            continue
        kind = info.get("kind", "f")
        if kind == "c":
            if info.get("imag_max", 0.0) > TOLS["f4"][2] * max(1.0, float(np.max(np.abs(res)))):
                out.append(dict(kind="spec", clause="output-not-real", detail=f"call {tag}: complex result, max |imag| {info.get('imag_max')!r}"))
            else:
                out.append(dict(kind="corr", clause="output-dtype", detail=f"call {tag}: complex dtype {info.get('dtype')} (imaginary part negligible)"))
        elif kind not in "fiu":
            out.append(dict(kind="corr", clause="output-dtype", detail=f"call {tag}: dtype {info.get('dtype')} is not numeric"))
            continue
        elif kind in "iu" and not int_in:
            out.append(dict(kind="corr", clause="output-dtype", detail=f"call {tag}: a {case['dtype']} stack came back as {info.get('dtype')}"))
        want = str(np.dtype(NP_DT[case["dtype"]]))
        if case["api"] == "stack" and kind in "fiu" and info.get("dtype") != want:
            out.append(dict(kind="corr", clause="output-dtype", detail=f"call {tag}: {info.get('dtype')} for a {want} stack (model: dtype kept)"))
        if not o.get("input_untouched", True):
            out.append(dict(kind="corr", clause="input-modified", detail=f"call {tag}: the caller's {'file' if case.get('stack_src') == 'file' and tag != 'second' else 'array'} "
                            f"passed as tilt_stack / image / freq_array differs after the call ({N} images {W}x{H}, dose {doses})"))
        if not o.get("doses_untouched", True):
            out.append(dict(kind="corr", clause="input-modified", detail=f"call {tag}: the caller's total_dose object ({c['src']}) differs after the call"))
        if o.get("aliases_input"):
            out.append(dict(kind="corr", clause="output-aliases-input", detail=f"call {tag}: the returned array shares memory with the caller's stack"))
        # ---- per image
        m = resps[ci] if ci < len(resps) else {}
        if not m.get("imagzero", False):
            out.append(dict(kind="corr", clause="model-gain-not-real", detail="driver returned a multiplier with non-zero imaginary part"))
        gains = [_table(t) for t in m.get("gain", [])]
        prec = "f4" if (case["dtype"] == "f4" or info.get("dtype") == "float32" or kind == "c" and info.get("dtype") == "complex64") else "f8"
        tols = TOLS[prec]
        int_out = int_in and kind in "iu"
        Fis, Fos = [], []
        for i in range(N):
            Gs = _spec_gain(W, H, px, doses[i])
            Gm = gains[i] if i < len(gains) else None
            if int_out:
                im_ = int_model.get(tag)
                _judge_int(tag, i, imgs[i], res[i], Gs, Gm, doses[i], out, flags, None if im_ is None else (im_[0][i], im_[1][i]))
            else:
                Fi, Fo = _judge_float(tag, i, imgs[i], res[i], Gs, Gm, doses[i], px, W, H, tols, out, st_acc)
                Fis.append(Fi); Fos.append(Fo)
            if Gm is not None:   # (f) model at Float vs the statement's formula
                md = np.abs(Gm - Gs) - (1e-12 * Gs + 1e-300)
                if (md > 0).any():
                    v, u, kx, ky = _where(md, W, H)
                    out.append(dict(kind="corr", clause="model-vs-statement", detail=f"dose {doses[i]} [v={v},u={u}]: model {Gm[v,u]!r}, statement {Gs[v,u]!r}"))
        results[tag] = (res, int_out, tols, gains)
        spectra[tag] = (Fis, Fos)
        # ---- the written file holds the result
        if "file" in o:
            fo = o["file"]
            if not fo.get("ok"):
                out.append(dict(kind="spec", clause="output-file", detail=f"call {tag}: output_file given but {fo.get('why')} (dims {fo.get('dims')}, mode {fo.get('mode')})"))
            else:
                fres = _dec(fo["out"])
                if list(fres.shape) != [N, H, W]:
                    out.append(dict(kind="spec", clause="output-file", detail=f"call {tag}: file holds nx,ny,nz = {fo.get('dims')} for {N} images {W}x{H}"))
                else:
                    if not int_out:
                        facc = {}
                        for i in range(N):
                            sub = []
                            _judge_float(tag + "(output file)", i, imgs[i], fres[i], _spec_gain(W, H, px, doses[i]), None, doses[i], px, W, H, TOLS["f4"], sub, facc)
                            out.extend(dict(f, clause=f["clause"] + "(output-file)") for f in sub)
                    expect = res if (int_out or prec == "f4") else res.astype(np.float32).astype(np.float64)
                    if not np.array_equal(fres, expect):
                        out.append(dict(kind="corr", clause="output-file-differs", detail=f"call {tag}: the file does not hold the returned stack (max diff {np.max(np.abs(fres-expect))!r})"))
        elif case.get("out_file"):
            out.append(dict(kind="corr", clause="output-file", detail=f"call {tag}: no observation of the output file"))
    if "k1" in flags:
        tag, i, dev, dmean = flags["k1"]
        out.append(dict(kind="spec", clause="int-stack-truncated",
                        detail=f"call {tag} image {i}: {case['dtype']} stack, result = trunc(filtered) exactly; differs from the filtered image by up to {dev:.3g} per pixel, mean changes by {dmean:.3g}"))
    if obs.get("first_result_intact") is False:
        out.append(dict(kind="spec", clause="earlier-result-changed", detail="the array returned by the first call changed its content during a later call"))
    # ---- clauses over several images (floating-point results of the first call)
    if "first" in results and not results["first"][1]:
        res, _, tols, gains = results["first"]
        rel, floor, pix = tols
        imgs, doses, px = inputs["first"]
        Fis, Fos = spectra["first"]
        if case["mode"] == "linear":
            al, be = case["images"][2]["alpha"], case["images"][2]["beta"]
            lin = al * res[0] + be * res[1]
            sc = max(1.0, float(np.max(np.abs(lin))), float(np.max(np.abs(imgs[2]))))
            if float(np.max(np.abs(res[2] - lin))) > 10 * pix * sc:
                out.append(dict(kind="spec", clause="not-linear", detail=f"filter({al}*x+{be}*y) differs from {al}*filter(x)+{be}*filter(y) by {np.max(np.abs(res[2]-lin))!r}"))
        if case["mode"] == "monotone":
            order = sorted(range(N), key=lambda i: doses[i])
            scale = float(np.max(np.abs(Fis[0]))) or 1.0
            for a, b in zip(order, order[1:]):
                exc = np.abs(Fos[b]) - np.abs(Fos[a]) * (1 + rel) - 2 * floor * scale
                if (exc > 0).any():
                    v, u, kx, ky = _where(exc, W, H)
                    out.append(dict(kind="spec", clause="more-dose-attenuates-less",
                                    detail=f"doses {doses[a]} <= {doses[b]} but |DFT[{v},{u}]| {abs(Fos[a][v,u])!r} < {abs(Fos[b][v,u])!r}"))
                    break
        if case["mode"] == "compose" and "second" in results and "once" in results:
            second, once = results["second"][0], results["once"][0]
            sc = max(1.0, float(np.max(np.abs(once))))
            if float(np.max(np.abs(second - once))) > 10 * pix * sc:
                out.append(dict(kind="spec", clause="compose-differs", detail=f"filter(d2) o filter(d1) differs from filter(d1+d2) by {np.max(np.abs(second-once))!r}"))
            g2, g12 = results["second"][3], results["once"][3]
            for i in range(min(N, len(gains), len(g2), len(g12))):
                gg = gains[i] * g2[i]
                if float(np.max(np.abs(gg - g12[i]) - 1e-12 * g12[i])) > 1e-300:
                    out.append(dict(kind="corr", clause="model-compose", detail=f"image {i}: model gain(d1)*gain(d2) != gain(d1+d2) at Float beyond 1e-12"))
                    break
    if case["api"] == "single" and len(resps) >= 2 and "freq" in resps[-1]:
        ar = resps[-1]
        fa = _dec(obs["freq"])
        fm = _table(ar["freq"])
        if float(np.max(np.abs(fa - fm) - 1e-13 * np.abs(fa))) > 1e-300:
            out.append(dict(kind="corr", clause="freq-array-vs-model", detail="harness |fftfreq| array differs from the model's frequency_array"))
        q, ql = _table(ar["q"]), _table(ar["qliteral"])
        if not np.array_equal(q, ql):
            out.append(dict(kind="corr", clause="qliteral-vs-model", detail="branch-free source expression at Float differs from the model's case split"))
        sx = np.round(np.fft.fftfreq(W) * W).astype(int).tolist()
        sy = np.round(np.fft.fftfreq(H) * H).astype(int).tolist()
        if ar["sfreqx"] != sx or ar["sfreqy"] != sy:
            out.append(dict(kind="corr", clause="sfreq-vs-fftfreq", detail="model sfreq differs from numpy fftfreq"))
        if [b2f(x) for x in ar["consts"]] != [A_DOC, B_DOC, C_DOC]:
            out.append(dict(kind="corr", clause="model-constants", detail=str([b2f(x) for x in ar["consts"]])))
    obs["_st"] = st_acc   # deviation statistics for stats() (not part of the judgement)
    return out


def classify(case, obs, finding):
    """C16-K1 (open): integer-typed stack, filtered result truncated into the integer array — exactly that and nothing else"""
    if finding.get("clause") == "int-stack-truncated" and case.get("dtype") in INT_LIM:
        return "C16-K1"
    return None


def nontrivial(case, obs):
    if case.get("malformed") or "error" in obs:
        return False
    ds = {b2f(d) for d in case["doses"]}
    if len(case["images"]) < 2 or len(ds) < 2 or max(ds) <= 0:
        return False
    g = _spec_gain(case["W"], case["H"], b2f(case["px"]), max(ds))
    return bool(g.min() < 0.99)


def _bucket(x):
    if x <= 0:
        return "0"
    return f"1e{int(math.floor(math.log10(x)))}"


def stats(case, obs, resps):
    W, H, N = case["W"], case["H"], len(case["images"])
    s = {"n_images": str(N), "parity(W,H)": ("even" if W % 2 == 0 else "odd") + "," + ("even" if H % 2 == 0 else "odd"),
         "size": "<=12" if max(W, H) <= 12 else ("<=24" if max(W, H) <= 24 else "<=64"), "square": str(W == H),
         "dtype": case["dtype"], "dose_src": case["dose_src"], "api": case["api"], "order(in,out)": case["order_in"] + "," + case["order_out"],
         "mode": case.get("malformed") or case["mode"], "image_kind": [im["kind"] for im in case["images"]],
         "stack_src": case.get("stack_src", "array"), "output_file": str(bool(case.get("out_file"))),
         "omitted_keywords": sorted(case.get("omit") or []) or ["none"], "surplus_doses": str(len(case.get("surplus") or [])),
         "calls": [c["tag"] for c in plan(case)],
         "dose_numbers": ("decimal" if any((b2f(d) * 8) != int(b2f(d) * 8) for d in case["doses"]) else "1/8 grid") + (",integers-as-int" if case.get("int_text") else ""),
         "doses_changed_by_float32_loading": str(any(c["eff"] != c["doses"] for c in plan(case) if c["src"] in F32_SRC)),
         "pixel_size_as": case.get("px_as", "float"), "csv_row_labels": case.get("csv_index", "n/a")}
    if case.get("again"):
        ag = case["again"]
        s["again"] = ("rewritten-content" if ag.get("mutate") else "same-content") + "," + ag["dose_src"] + ("(same path)" if ag["dose_src"] in FILE_SRC and ag["dose_src"][:3] == case["dose_src"][:3] else
                                                                                                     ("(same ndarray)" if ag.get("same_dose_obj") and ag["dose_src"] == case["dose_src"] and ag["dose_src"].startswith("nd") else ""))
    ds = [b2f(d) for d in case["doses"]]
    s["dose"] = ["0" if d == 0 else ("300" if d == 300 else ("<10" if d < 10 else ("<60" if d < 60 else "<300"))) for d in ds]
    s["dose_order"] = "n/a" if len(ds) < 2 else ("ascending" if ds == sorted(ds) else ("descending" if ds == sorted(ds, reverse=True) else "mixed"))
    s["zero_before_nonzero"] = str(any(a == 0 and b > 0 for a, b in zip(ds, ds[1:])))
    px = b2f(case["px"])
    s["px"] = "0.5-1" if px < 1 else ("1-2" if px < 2 else ("2-5" if px < 5 else "5-10"))
    for o in obs.get("calls", []) if isinstance(obs, dict) else []:
        s.setdefault("returned_dtype", []).append(o.get("info", {}).get("dtype", "?"))
    st = obs.get("_st") if isinstance(obs, dict) else None
    if st:
        p = "f4" if case["dtype"] == "f4" else "f8"
        s[f"max_abs_dev_spectrum_{p}"] = _bucket(st.get("max_abs", 0.0))
        s[f"max_dlog_gain_strong_{p}"] = _bucket(st.get("dlog", 0.0))
        s[f"smallest_gain_checked_in_log_{p}"] = _bucket(st.get("gmin_checked", 1.0))
    return s


def sample_view(case):
    v = dict(W=case["W"], H=case["H"], px=b2f(case["px"]), doses=[b2f(d) for d in case["doses"]], images=case["images"][:4],
             mode=case["mode"], api=case["api"], dtype=case["dtype"], dose_src=case["dose_src"],
             order=(case["order_in"], case["order_out"]), malformed=case.get("malformed"))
    for k in ("omit", "stack_src", "out_file", "int_text", "px_as", "csv_index"):
        if case.get(k):
            v[k] = case[k]
    if case.get("surplus"):
        v["surplus"] = [b2f(d) for d in case["surplus"]]
    if case.get("again"):
        v["again"] = dict(case["again"], px=b2f(case["again"]["px"]), doses=[b2f(d) for d in case["again"]["doses"]])
    return v


# ------------------------------------------------------------------ probes of the recorded library assumptions
def probes(rng):
    out = []
    r = np.random.default_rng(rng.randrange(1 << 30))
    worst = 0.0
    for (H, W) in ((4, 4), (5, 8), (7, 9), (16, 5), (33, 64)):
        x, y = r.normal(size=(H, W)), r.normal(size=(H, W))
        F = np.fft.fft2
        worst = max(worst, float(np.max(np.abs(np.fft.ifft2(F(x)) - x))), float(np.max(np.abs(F(2.5 * x - y) - (2.5 * F(x) - F(y))))) / W / H,
                    abs(F(x)[0, 0] - x.sum()) / W / H)
    out.append(dict(name="fft-roundtrip-linear-dc", ok=worst < 1e-12, detail=f"max deviation {worst:.3g}"))
    ok = True
    for n in range(1, 70):
        a = np.arange(n)
        s, i = np.fft.fftshift(a), np.fft.ifftshift(a)
        ok &= all(s[x] == (x + (n - n // 2)) % n for x in range(n)) and all(i[k] == (k + n // 2) % n for k in range(n))
        ok &= all((s[x] if 2 * s[x] < n else s[x] - n) == x - n // 2 for x in range(n))
        ok &= np.array_equal(np.round(np.fft.fftfreq(n) * n).astype(int), np.array([k if 2 * k < n else k - n for k in range(n)]))
    out.append(dict(name="fftshift-index", ok=bool(ok), detail="fftshift/ifftshift/fftfreq index maps for n = 1..69 equal Model/C16 shiftSrc/ishiftSrc/sfreq"))
    worst = 0.0
    for (H, W) in ((4, 6), (5, 7), (8, 5), (9, 9)):
        x = r.normal(size=(H, W))
        G = _spec_gain(W, H, 1.7, 40.0)
        worst = max(worst, float(np.max(np.abs(np.fft.ifft2(G * np.fft.fft2(x)).imag))))
    out.append(dict(name="even-multiplier-real", ok=worst < 1e-13, detail=f"max |imag| {worst:.3g}"))
    with np.errstate(divide="ignore"):
        z = np.exp(-np.float64(300.0) / (2 * (0.245 * np.float64(0.0) ** -1.665 + 2.81)))
    out.append(dict(name="zero-frequency-inf", ok=bool(z == 1.0), detail=f"exp(-300/(2*(a*0**b+c))) = {z!r}"))
    # the exact 2x3 DFT of Lemmas/C16_Dft23 (dft23) is what numpy computes
    x = r.integers(-8, 9, size=(2, 3)).astype(float)
    s3 = math.sqrt(3.0)
    c3 = lambda m: 1.0 if m % 3 == 0 else -0.5
    n3 = lambda m: 0.0 if m % 3 == 0 else (s3 / 2 if m % 3 == 1 else -s3 / 2)
    sg = lambda m: 1.0 if m % 2 == 0 else -1.0
    F = np.array([[complex(sum(sg(v * y) * c3(u * i) * x[y, i] for y in range(2) for i in range(3)),
                           -sum(sg(v * y) * n3(u * i) * x[y, i] for y in range(2) for i in range(3))) for u in range(3)] for v in range(2)])
    dev = float(np.max(np.abs(F - np.fft.fft2(x))))
    out.append(dict(name="dft23-is-numpy-fft2", ok=dev < 1e-12, detail=f"Lemmas/C16_Dft23 `dft23.fft2` formula vs numpy.fft.fft2 on a 2x3 image: max deviation {dev:.3g}"))
    # the exact complex DFT of Lemmas/C16_DftN (`dftN_fft2_exp`: sum of x[y,i] exp(-2 pi i (y v/H + i u/W))) is what numpy computes, any size
    dev = 0.0
    for (H, W) in ((1, 1), (1, 2), (4, 4), (5, 7), (8, 3), (9, 16)):
        x = r.normal(size=(H, W))
        ey = np.exp(-2j * np.pi * np.outer(np.arange(H), np.arange(H)) / H)
        ex = np.exp(-2j * np.pi * np.outer(np.arange(W), np.arange(W)) / W)
        F = ey @ x @ ex
        back = (np.conj(ey) @ F @ np.conj(ex)).real / (H * W)
        dev = max(dev, float(np.max(np.abs(F - np.fft.fft2(x)))), float(np.max(np.abs(back - np.fft.ifft2(F).real))))
    out.append(dict(name="dftN-is-numpy-fft2", ok=dev < 1e-11, detail=f"Lemmas/C16_DftN `dftN` formulas vs numpy.fft.fft2 / ifft2(.).real on 6 sizes: max deviation {dev:.3g}"))
    t = np.array([-1.7, -0.2, 0.9, 1.7, 2.999999]).astype(np.int16).tolist() == [-1, 0, 0, 1, 2]
    out.append(dict(name="int-cast-truncates", ok=bool(t), detail="float -> int16 conversion truncates toward zero"))
    try:
        import mrcfile
        with tempfile.TemporaryDirectory(prefix="c16p_") as td:
            okm = True
            for dt in (np.int16, np.float32, np.int8):
                a = (np.arange(3 * 5 * 7).reshape(3, 5, 7) % 23 - 11).astype(dt)
                p = os.path.join(td, "p.mrc")
                mrcfile.write(p, a, overwrite=True)
                q = parse_mrc(p)
                okm &= q["ok"] and q["dims"] == [7, 5, 3] and np.array_equal(q["data"], a) and np.array_equal(mrcfile.open(p).data, a)
        out.append(dict(name="mrc-parser-agrees-with-mrcfile", ok=bool(okm), detail="3x5x7 int8/int16/float32, header nx,ny,nz = 7,5,3, x fastest"))
    except Exception as e:
        out.append(dict(name="mrc-parser-agrees-with-mrcfile", ok=False, detail=f"{type(e).__name__}: {e}"))
    return out
