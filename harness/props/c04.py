"""C04 — STOPGAP <-> cryoCAT conversion is a lossless renaming with parity half-sets (DESIGN.md section 4, C04)."""
import os, re, ast, math, tempfile, warnings, traceback
import core
from core import f2b, b2f

PROP = "C04"
COUNT = {"quick": 150, "thorough": 2400, "search": 600}
PARALLEL = True

MOTL_COLS = ["score", "geom1", "geom2", "subtomo_id", "tomo_id", "object_id", "subtomo_mean", "x", "y", "z",
             "shift_x", "shift_y", "shift_z", "geom3", "geom4", "geom5", "phi", "psi", "theta", "class"]
# the documented renaming (written by hand here, independently of the source and of the Lean side)
DOC_PAIRS = [("subtomo_id", "subtomo_num"), ("tomo_id", "tomo_num"), ("object_id", "object"), ("x", "orig_x"), ("y", "orig_y"),
             ("z", "orig_z"), ("score", "score"), ("shift_x", "x_shift"), ("shift_y", "y_shift"), ("shift_z", "z_shift"),
             ("phi", "phi"), ("psi", "psi"), ("theta", "the"), ("class", "class")]
DOC_COLUMNS = ["motl_idx", "tomo_num", "object", "subtomo_num", "halfset", "orig_x", "orig_y", "orig_z", "score",
               "x_shift", "y_shift", "z_shift", "phi", "psi", "the", "class"]
SPECIFIER = "data_stopgap_motivelist"
MAXABS = 1e15
STAR_TEXT_LIMIT = 400000      # characters of a written file handed to the proved Lean reader (a 300-particle file has ~70 000)
ID_COLS = ["subtomo_id", "tomo_id", "object_id", "class"]

RULE = ("every run starts with the boundary counts N = 1, 2, 63, 64, 65, 128, 255, 256, 257, 300 in BOTH directions (content random per seed); then "
        "export cases: particle lists of N in 1..300 particles (quick: mostly <=40), the 20 fields drawn from realistic values (integer/fractional "
        "coordinates, shifts incl. exact .5 ties, ~12 % of the particles next to / below the origin so that x+shift is a NEGATIVE exact half on x, y and z, "
        "angles with many or with 2-3 decimals, scores with many decimals, values printed in exponent form), arbitrary finite values |v|<1e15 "
        "(gauss*10^k, k in -8..14, +-0) or whole numbers only (~8 %: every column int64, as read from an all-integer file), non-sequential subtomogram "
        "numbers (random, repeated, large, 0; shares with negative numbers, numbers beyond 2^53 and non-integral numbers), ~15 % with REPEATED particles "
        "(exact copies of whole rows p,q,p and rows sharing only the number), id columns as float64 or int64 (sometimes also the coordinates / geom "
        "columns), DataFrame columns in canonical or shuffled order, row index default / filtered (gaps) / shuffled / offset / DUPLICATED labels, "
        "x reset_index in {omitted, False, True} x update_coord in {omitted, False, True} (an omitted keyword exercises the library default, ~30 % each); "
        "each step is run in memory (StopgapMotl.convert_to_sg_motl), via file (StopgapMotl(df).write_out -> own STAR parser + proved Lean reader -> "
        "StopgapMotl(path), then StopgapMotl(<that object>)), through emmotl2stopgap, and through the wrappers Motl(df).write_out(path, 'stopgap') -> "
        "Motl.load(path, 'stopgap') (motl_type positional or by keyword), all on the SAME caller-owned DataFrame object, which is compared before/after every call. "
        "~40 % of the steps continue with a HISTORY on the list loaded back from the file just written (the object then also holds the STOPGAP table it was "
        "made from): fields edited in place without adding / removing particles (~60 %) and / or update_coord, then write_out to a new path x reset_index; "
        "the second file and its reload are judged like a first export against the list held right before the call. "
        "~32 % of the export cases (N < 128) have a second step in the same process: a different list (other count) written to and loaded from the SAME paths, "
        "or the caller's frame edited in place and converted / written again; the second step is judged exactly like the first. "
        "import cases: STOPGAP tables of N in 1..300 rows with the 16 columns in any order and row index default / filtered / shuffled / offset / duplicated "
        "(sometimes one extra column, repeated rows, all-integer tables; rarely one of the 14 columns missing -> KeyError expected; rarely a text cell in a "
        "numeric column -> the model must reject, nothing is demanded), through StopgapMotl(sg_df) and stopgap2emmotl(sg_df) on the same frame object. "
        "dtypes are recorded (stats), never judged: any numeric dtype with equal values is accepted, a numeric field returned as text is a finding. "
        "non-trivial = N>=2 and (export: subtomogram numbers of both parities, not equal to 1..N, at least 10 distinct values among the 14 shared fields "
        "of a particle; import: column order != documented order); distinct = distinct case content")
ASSUMPTIONS = [
    "STAR layer: theorem via_file_c02 derives the file round trip from C02's typed_roundtrip for the C02 model of Starfile.write/read, for tables whose numbers "
    "the printer prints as number cells (no NaN: write_out's fillna(0), pinned by the body digest and executed on every case, is not part of the model); what stays outside the "
    "proof is value -> printed digits (DataFrame.round(6) + repr) and digits -> value (pandas.to_numeric), observed each run: every written file is parsed by the "
    "harness's own tokenizer and re-read by StopgapMotl(path), compared at 5e-7 + 16 ulp",
    "pandas: `df[col] = ndarray` assigns by position, `df[col] = Series` aligns on index labels; `Series.mod(2).eq(0)` is numpy floored modulo "
    "(model: x - 2*floor(x/2) == 0, exact for finite float64); the verified checker does not use it: it decodes the IEEE bit pattern to an integer exactly "
    "(decodeInt) and the driver cross-checks decoding and float parity against the hardware float for every subtomogram number of every case",
    "decimal.Decimal(x).to_integral_value(ROUND_HALF_UP) on a float64 = C round() (half away from zero) = Lean Float.round (compared bit-exactly each run; "
    "the driver also checks on every re-centred sum that Float.round equals the proved exact rule ratRoundAway on the exactly decoded rational, decodeRat). "
    "Of update_coord=True the statement of C04 needs only that the complete position x+shift survives (spec clause update-position, exact rational "
    "arithmetic, slack = one ulp of the float64 sum) and that the other fields are untouched; the rounding RULE (integer coordinate, |shift| <= 1/2, halves "
    "away from zero: Lean updateCoord_recentred / updateCoord_rat / updateCoord_rat_ties over exact arithmetic) is C05's property, deviations are reported "
    "as disagreements with the model (corr), as are in-place changes of the caller's DataFrame, which the statement does not mention",
    "numpy float64 +,- = IEEE binary64 = Lean Float (compared bit-exactly in update_coordinates)",
    "pandas.to_numeric parses decimal text to within a few ulp (not correctly rounded; 3 ulp seen at |v|~2e12): the via-file tolerance is 5e-7 + 16 ulp",
    "field values are finite with |v| < 1e15 (subtomogram numbers up to 2^62) (DataFrame.round(6) overflows to inf above 1.8e302; not generated)",
    "a subtomogram number that is no integer is neither even nor odd: its half-set is compared with the model only (corr), never reported as a violated clause",
]
TRUSTED = ["harness STAR tokenizer for the written file (props/c04.py parse_star; cross-checked on EVERY written file, up to 300 particles, against the proved Lean reader starRead = C02 model)", "AST extraction in props/c04.py translate()",
           "exact decoding of binary64 bit patterns (Model/C04.decodeInt; cross-checked against the hardware float at run time)"]


# ------------------------------------------------------------------------------------------ translator
import copy, hashlib


_MSG = "<msg>"
_LOG_ATTRS = ("warn", "warning", "info", "debug", "error", "critical", "exception", "log")


def _is_text(node):
    return isinstance(node, ast.JoinedStr) or (isinstance(node, ast.Constant) and isinstance(node.value, str))


def _strip_docstrings(node):
    for n in ast.walk(node):
        if isinstance(n, (ast.FunctionDef, ast.AsyncFunctionDef, ast.ClassDef)) and n.body and isinstance(n.body[0], ast.Expr) \
                and isinstance(n.body[0].value, ast.Constant) and isinstance(n.body[0].value.value, str):
            n.body = n.body[1:] or [ast.Pass()]


class _Neutral(ast.NodeTransformer):
    """H1: what a harmless edit may change is removed before anything is compared -- type annotations (`x: T = v` is `x = v`, a bare
    `x: T` is no statement), the TEXT of exception / warning / log / print messages (the exception type and the call stay), and the
    two spellings of the same Series operator (`s.mod(m)` is `s % m`, `s.eq(k)` is `s == k`)."""
    def visit_arg(self, node):
        node.annotation = None
        return node
    def visit_FunctionDef(self, node):
        node.returns = None
        self.generic_visit(node)
        if not node.body:
            node.body = [ast.Pass()]
        return node
    visit_AsyncFunctionDef = visit_FunctionDef
    def visit_AnnAssign(self, node):
        self.generic_visit(node)
        if node.value is None:
            return None
        return ast.copy_location(ast.Assign(targets=[node.target], value=node.value), node)
    def visit_Raise(self, node):
        self.generic_visit(node)
        if isinstance(node.exc, ast.Call):
            node.exc.args = [ast.Constant(_MSG) if _is_text(x) else x for x in node.exc.args]
            for kw in node.exc.keywords:
                if _is_text(kw.value):
                    kw.value = ast.Constant(_MSG)
        return node
    def visit_Expr(self, node):
        self.generic_visit(node)
        v = node.value
        if isinstance(v, ast.Call):
            f = v.func
            if (isinstance(f, ast.Name) and f.id == "print") or (isinstance(f, ast.Attribute) and f.attr in _LOG_ATTRS):
                v.args = [ast.Constant(_MSG) if _is_text(x) else x for x in v.args]
        return node
    def visit_Call(self, node):
        self.generic_visit(node)
        f = node.func
        if isinstance(f, ast.Attribute) and len(node.args) == 1 and not node.keywords:
            if f.attr == "mod":
                return ast.copy_location(ast.BinOp(left=f.value, op=ast.Mod(), right=node.args[0]), node)
            if f.attr == "eq":
                return ast.copy_location(ast.Compare(left=f.value, ops=[ast.Eq()], comparators=[node.args[0]]), node)
        return node


def _is_init_stmt(st):
    """`super().__init__(...)` or `self.<attr> = <expression that reads no local and no attribute of self>`"""
    if isinstance(st, ast.Expr) and isinstance(st.value, ast.Call) and ast.unparse(st.value.func) == "super().__init__":
        return True
    if isinstance(st, ast.Assign) and len(st.targets) == 1 and isinstance(st.targets[0], ast.Attribute) \
            and isinstance(st.targets[0].value, ast.Name) and st.targets[0].value.id == "self":
        reads = {n.id for n in ast.walk(st.value) if isinstance(n, ast.Name)}
        return "self" not in reads and all(not re.fullmatch(r"[av]\d+", r) for r in reads)
    return False


def _canon(fn):
    """copy of a FunctionDef made insensitive to harmless edits and sensitive to every change of structure:
    docstrings dropped (also of nested defs); annotations, message texts and operator spellings neutralised (`_Neutral`);
    every parameter / local name replaced by a positional placeholder -- `a0, a1, ...` for parameters other than self/cls,
    `v0, v1, ...` for the names bound in the body, numbered by BINDING occurrence in textual order (assignment targets, loop and
    comprehension targets, `with ... as`, `except ... as`, walrus, lambda / nested-def parameters, local imports); every `_`
    discard is a binding of its own (`a, _, _ = f()` and `a, b, c = f()` with b, c unused have the same normal form);
    in an `__init__` the leading run of independent initialisers (`super().__init__()`, `self.x = <no local, no self>`) is
    sorted, since their order is not observable.  `fn._orig` maps every placeholder back to the identifier of the source."""
    fn = copy.deepcopy(fn)
    _strip_docstrings(fn)
    fn = _Neutral().visit(fn)
    for n in ast.walk(fn):                       # a block emptied by the removal of a bare annotation
        if isinstance(getattr(n, "body", None), list) and not n.body:
            n.body = [ast.Pass()]
    ast.fix_missing_locations(fn)
    names = {}          # current name -> placeholder
    orig = {}           # placeholder -> source identifier
    params = [a for a in fn.args.posonlyargs + fn.args.args + fn.args.kwonlyargs] + [a for a in (fn.args.vararg, fn.args.kwarg) if a]
    k = 0
    for a in params:
        if a.arg in ("self", "cls"):
            continue
        names[a.arg] = f"a{k}"; orig[f"a{k}"] = a.arg; k += 1
    counter = [0]
    discards = []       # placeholders of the `_` bindings, in textual order (filled by pass 1, replayed by pass 2)
    state = {"pass": 1, "next_discard": 0}

    def bind(name):
        if name in ("self", "cls"):
            return name
        if name == "_":
            if state["pass"] == 1:
                ph = f"v{counter[0]}"; counter[0] += 1
                discards.append(ph); orig[ph] = "_"
            else:
                ph = discards[state["next_discard"]]; state["next_discard"] += 1
            names["_"] = ph
            return ph
        if name not in names:
            ph = f"v{counter[0]}"; counter[0] += 1
            names[name] = ph; orig[ph] = name
        return names[name]

    class Ren(ast.NodeTransformer):
        """one pass in textual (binding) order: a Store binds (or re-uses the placeholder of) a name, a Load is replaced by the
        placeholder of the latest binding of that name"""
        def visit_Name(self, node):
            if isinstance(node.ctx, ast.Store):
                node.id = bind(node.id)
            elif node.id in names:
                node.id = names[node.id]
            return node
        def visit_Assign(self, node):
            node.value = self.visit(node.value)           # evaluated first: `_` on the right is the previous discard
            node.targets = [self.visit(t) for t in node.targets]
            return node
        def visit_AugAssign(self, node):
            node.value = self.visit(node.value)
            node.target = self.visit(node.target)
            return node
        def visit_NamedExpr(self, node):
            node.value = self.visit(node.value)
            node.target = self.visit(node.target)
            return node
        def _comp(self, node):
            for g in node.generators:                     # generators bind before the element expression reads
                g.iter = self.visit(g.iter)
                g.target = self.visit(g.target)
                g.ifs = [self.visit(i) for i in g.ifs]
            for fld in ("elt", "key", "value"):
                if hasattr(node, fld):
                    setattr(node, fld, self.visit(getattr(node, fld)))
            return node
        visit_ListComp = visit_SetComp = visit_GeneratorExp = visit_DictComp = _comp
        def visit_For(self, node):
            node.iter = self.visit(node.iter)
            node.target = self.visit(node.target)
            node.body = [self.visit(s) for s in node.body]
            node.orelse = [self.visit(s) for s in node.orelse]
            return node
        def visit_ExceptHandler(self, node):
            if node.type is not None:
                node.type = self.visit(node.type)
            if node.name:
                node.name = bind(node.name)
            node.body = [self.visit(s) for s in node.body]
            return node
        def visit_alias(self, node):
            local = node.asname or node.name.split(".")[0]
            ph = bind(local)
            if node.asname:
                node.asname = ph
            return node
        def _params(self, args):
            for a in args.posonlyargs + args.args + args.kwonlyargs + [x for x in (args.vararg, args.kwarg) if x]:
                a.arg = bind(a.arg)
            args.defaults = [self.visit(d) for d in args.defaults]
            args.kw_defaults = [self.visit(d) if d is not None else None for d in args.kw_defaults]
        def visit_Lambda(self, node):
            self._params(node.args)
            node.body = self.visit(node.body)
            return node
        def visit_FunctionDef(self, node):
            if node is not self.root:
                node.name = bind(node.name)
                self._params(node.args)
            node.body = [self.visit(s) for s in node.body]
            return node
        def run(self, root):
            self.root = root
            self.visit(root)

    Ren().run(copy.deepcopy(fn))       # pass 1: number the bindings (a name read before its textual binding, e.g. in a loop, is known in pass 2)
    state["pass"] = 2
    names.pop("_", None)
    Ren().run(fn)
    if fn.name == "__init__":
        lead = 0
        while lead < len(fn.body) and _is_init_stmt(fn.body[lead]):
            lead += 1
        fn.body[:lead] = sorted(fn.body[:lead], key=ast.unparse)
    fn._orig = orig
    return fn


def _orig_text(fn, text):
    """a normalised text with the placeholders replaced by the identifiers of the source (for messages, H2)"""
    m = getattr(fn, "_orig", {})
    return re.sub(r"\b[av]\d+\b", lambda g: m.get(g.group(0), g.group(0)), text)


def _dump_lines(fn):
    """normalised statements of a canonical function, one per line (no blanks): signature defaults first"""
    sig = ",".join(ast.unparse(d) for d in fn.args.defaults + [d for d in fn.args.kw_defaults if d is not None])
    out = [f"defaults({sig})"]
    for st in fn.body:
        out += [ln.replace(" ", "") for ln in ast.unparse(st).split("\n") if ln.strip()]
    return out


def _dump(fn):
    """normalised text of a canonical function: defaults of the signature + statements (no blanks)"""
    return ";".join(_dump_lines(fn))


def _first_diff(fn, got, want):
    """position and text of the first normalised statement that differs from the reviewed body (expected vs found, the found one
    also with the identifiers of the source)"""
    g, w = got.split(";"), want.split(";")
    for i in range(max(len(g), len(w))):
        a, b = (g[i] if i < len(g) else "<end of body>"), (w[i] if i < len(w) else "<end of body>")
        if a != b:
            return f"statement {i}: expected `{b}`, found `{a}` (source: `{_orig_text(fn, a)}`)"
    return "no difference"


def _sig_default(src, rel, qual, name):
    fn = src.find(rel, qual)
    names = [a.arg for a in fn.args.args]
    defaults = dict(zip(names[len(names) - len(fn.args.defaults):], fn.args.defaults))
    for a, d in zip(fn.args.kwonlyargs, fn.args.kw_defaults):
        if d is not None:
            defaults[a.arg] = d
    if name not in defaults:
        raise core.AnchorMissing(f"{qual}({name}=<const>)")
    return src.literal(defaults[name])


BODY_FUNCS = ["StopgapMotl.__init__", "StopgapMotl.read_in", "StopgapMotl.convert_to_motl", "StopgapMotl.convert_to_sg_motl",
              "StopgapMotl.sg_df_reset_index", "StopgapMotl.write_out", "stopgap2emmotl", "emmotl2stopgap"]
# the reviewed, normalised bodies (written down from the reviewed source; `_canon` + `_dump`): a body anchor compares the current
# body with this text statement by statement and names the first statement that differs
DOC_DUMPS = {
    'StopgapMotl.__init__':
        "defaults(None);self.sg_df=pd.DataFrame();super().__init__();ifa0isnotNone:;ifisinstance(a0,StopgapMotl):;self.df=a0.df.copy();self.sg_df=a0.sg_df.copy();elifisinstance(a0,pd.DataFrame):;self.check_df_type(a0);elifisinstance(a0,str):;v0=self.read_in(a0);self.convert_to_motl(v0);else:;raiseUserInputError('<msg>')",
    'StopgapMotl.read_in':
        "defaults();v0,v1,v2=starfileio.Starfile.read(a0);if'data_stopgap_motivelist'notinv1:;raiseUserInputError('<msg>');else:;v3=starfileio.Starfile.get_specifier_id(v1,'data_stopgap_motivelist');v4=v0[v3];returnv4",
    'StopgapMotl.convert_to_motl':
        "defaults(False);self.sg_df=a0;forv0,v1inStopgapMotl.pairs.items():;self.df[v0]=a0[v1];ifa1:;ifa0['halfset'].nunique()==2:;self.df['geom3']=[1.0ifv2.lower()=='a'else0.0forv2ina0['halfset']];v3=self.df['geom3'].values%2;v4=1ifv3[0]==1else2;v5=[v4];forv6inrange(1,self.df.shape[0]):;ifv4%2==1andv3[v6]==1or(v4%2==0andv3[v6]==0):;v4+=2;else:;v4+=1;v5.append(v4);self.df['geom3']=self.df['subtomo_id'];self.df['subtomo_id']=v5",
    'StopgapMotl.convert_to_sg_motl':
        "defaults(False);v0=pd.DataFrame(data=np.zeros((a0.shape[0],16)),columns=StopgapMotl.columns);forv1,v2inStopgapMotl.pairs.items():;v0[v2]=a0[v1].to_numpy();v0['halfset']=np.where((a0['subtomo_id']%2==0).to_numpy(),'A','B');v0['motl_idx']=v0['subtomo_num'];v0=StopgapMotl.sg_df_reset_index(v0,a1);returnv0",
    'StopgapMotl.sg_df_reset_index':
        "defaults(False);ifa1:;a0['motl_idx']=range(1,a0.shape[0]+1);returna0",
    'StopgapMotl.write_out':
        "defaults(False,False);ifa1:;self.update_coordinates();ifa0.endswith('.star'):;v0=StopgapMotl.convert_to_sg_motl(self.df,a2);v0.fillna(0,inplace=True);starfileio.Starfile.write([v0],a0,specifiers=['data_stopgap_motivelist']);elifa0.endswith('.em'):;super().write_out(output_path=a0,motl_type='emmotl')",
    'stopgap2emmotl':
        'defaults(None,False);v0=StopgapMotl(a0);v1=EmMotl(v0.df);ifa2:;v1.update_coordinates();ifa1isnotNone:;v1.write_out(a1);returnv1',
    'emmotl2stopgap':
        'defaults(None,False,False);v0=EmMotl(a0);v1=StopgapMotl(v0.df);ifa2:;v1.update_coordinates();ifa1isnotNone:;v1.write_out(a1,update_coord=False,reset_index=a3);returnv1',
}
# sha256 (first 16 hex digits) of the reviewed bodies (the Lean side holds its own hand-written copy in Model/C04.docBodyDigests)
DOC_DIGESTS = {'StopgapMotl.__init__': '6cd60100075c261e', 'StopgapMotl.read_in': '977330a5ab207af8', 'StopgapMotl.convert_to_motl': '41bddc0a26f2ac2c', 'StopgapMotl.convert_to_sg_motl': 'bd1b72a459e815c1', 'StopgapMotl.sg_df_reset_index': 'a328d3752cd8e76f', 'StopgapMotl.write_out': '6150d53d35833acb', 'stopgap2emmotl': 'b93283c9d4d67905', 'emmotl2stopgap': '43955f188247229d'}
# helpers on the call path of the entry points: looked up so that the framework's binding discipline (bound once, no re-binding,
# documented decorators, live object = anchored def) covers them; their behaviour is covered by the correspondence run
PATH_HELPERS = [("cryocat/cryomotl.py", q) for q in ("Motl.__init__", "Motl.check_df_type", "Motl.check_df_correct_format", "Motl.update_coordinates",
                                                      "Motl.write_out", "Motl.load", "EmMotl.__init__")] + \
               [("cryocat/starfileio.py", q) for q in ("Starfile.read", "Starfile.write", "Starfile.get_specifier_id")]
DOC_DEFAULTS = {"conv_reset": False, "sg_reset": False, "write_update": False, "write_reset": False, "em2sg_update": False,
                "em2sg_reset": False, "sg2em_update": False, "keep_halfsets": False}


def _is_sub(node, base, key=None):
    """node is `base[<key>]` (key: Name id or constant string; None = anything)"""
    if not (isinstance(node, ast.Subscript) and isinstance(node.value, (ast.Name, ast.Attribute)) and ast.unparse(node.value) == base):
        return False
    if key is None:
        return True
    sl = node.slice
    return (isinstance(sl, ast.Name) and sl.id == key) or (isinstance(sl, ast.Constant) and sl.value == key)


def _strip_positional(node):
    """`X.to_numpy()` / `X.values` / `X.array` -> (X, True); else (node, False)"""
    if isinstance(node, ast.Call) and isinstance(node.func, ast.Attribute) and node.func.attr in ("to_numpy", "to_list", "tolist") and not node.args:
        return node.func.value, True
    if isinstance(node, ast.Attribute) and node.attr in ("values", "array"):
        return node.value, True
    return node, False


def _pairs_loop(fn):
    """the `for a, b in StopgapMotl.pairs.items(): T[..] = S[..]` loop of fn -> (a, b, target, value)"""
    for n in ast.walk(fn):
        if isinstance(n, ast.For) and isinstance(n.target, ast.Tuple) and len(n.target.elts) == 2 \
                and ast.unparse(n.iter).endswith("pairs.items()") and len(n.body) == 1 and isinstance(n.body[0], ast.Assign) \
                and len(n.body[0].targets) == 1:
            a, b = (e.id for e in n.target.elts)
            return a, b, n.body[0].targets[0], n.body[0].value
    raise core.AnchorMissing("loop over StopgapMotl.pairs.items() with a single assignment")


def _frame_var(fn):
    """the local that holds `pd.DataFrame(data=np.zeros((<arg0>.shape[0], W)), columns=StopgapMotl.columns)` -> (name, W)"""
    for st in fn.body:
        if isinstance(st, ast.Assign) and len(st.targets) == 1 and isinstance(st.targets[0], ast.Name) and isinstance(st.value, ast.Call) \
                and ast.unparse(st.value.func) in ("pd.DataFrame", "pandas.DataFrame"):
            kws = {k.arg: k.value for k in st.value.keywords}
            data = kws.get("data", st.value.args[0] if st.value.args else None)
            if data is None or ast.unparse(kws.get("columns", ast.Constant(None))) != "StopgapMotl.columns":
                continue
            if isinstance(data, ast.Call) and ast.unparse(data.func) in ("np.zeros", "numpy.zeros") and data.args and isinstance(data.args[0], ast.Tuple) \
                    and len(data.args[0].elts) == 2 and isinstance(data.args[0].elts[1], ast.Constant) and ast.unparse(data.args[0].elts[0]) == "a0.shape[0]":
                return st.targets[0].id, int(data.args[0].elts[1].value)
    raise core.AnchorMissing("convert_to_sg_motl: <frame> = pd.DataFrame(data=np.zeros((motl_df.shape[0], <const>)), columns=StopgapMotl.columns)")


def translate(src):
    rel = "cryocat/cryomotl.py"
    pairs = src.anchor("StopgapMotl.pairs", lambda: [[k, v] for k, v in src.literal(src.class_attr(rel, "StopgapMotl", "pairs")).items()])
    columns = src.anchor("StopgapMotl.columns", lambda: src.literal(src.class_attr(rel, "StopgapMotl", "columns")))
    canon = lambda q: _canon(src.find(rel, q))          # parameters a0.., locals v0.. (renaming-insensitive)

    width = src.anchor("convert_to_sg_motl:zeros-width", lambda: _frame_var(canon("StopgapMotl.convert_to_sg_motl"))[1])

    def export_loop():
        fn = canon("StopgapMotl.convert_to_sg_motl")
        frame, _ = _frame_var(fn)
        a, b, tgt, val = _pairs_loop(fn)
        inner, positional = _strip_positional(val)
        if not (_is_sub(tgt, frame, b) and _is_sub(inner, "a0", a)):
            raise core.AnchorMissing("convert_to_sg_motl loop is not `<frame>[star_key] = <motl_df>[em_key]`; the source has `" + _orig_text(fn, f"{ast.unparse(tgt)} = {ast.unparse(val)}") + "`")
        return [True, positional]

    exp = src.anchor("convert_to_sg_motl:loop stopgap_df[star_key]=motl_df[em_key] (by position)", export_loop)

    def import_loop():
        fn = canon("StopgapMotl.convert_to_motl")
        a, b, tgt, val = _pairs_loop(fn)
        if not (_is_sub(tgt, "self.df", a) and _is_sub(val, "a0", b)):
            raise core.AnchorMissing("convert_to_motl loop is not `self.df[em_key] = <stopgap_df>[star_key]`; the source has `" + _orig_text(fn, f"{ast.unparse(tgt)} = {ast.unparse(val)}") + "`")
        return True

    imp = src.anchor("convert_to_motl:loop self.df[em_key]=stopgap_df[star_key]", import_loop)

    def halfset():
        fn = canon("StopgapMotl.convert_to_sg_motl")
        frame, _ = _frame_var(fn)
        for n in ast.walk(fn):
            if isinstance(n, ast.Assign) and len(n.targets) == 1 and _is_sub(n.targets[0], frame, "halfset"):
                v = n.value
                if not (isinstance(v, ast.Call) and ast.unparse(v.func) in ("np.where", "numpy.where") and len(v.args) == 3):
                    break
                cond, _ = _strip_positional(v.args[0])
                # (<motl_df>[SRC] % M == K) -- `_canon` has already rewritten `.mod(M).eq(K)` to the operator form
                if not (isinstance(cond, ast.Compare) and len(cond.ops) == 1 and isinstance(cond.ops[0], ast.Eq) and len(cond.comparators) == 1):
                    break
                m = cond.left
                if not (isinstance(m, ast.BinOp) and isinstance(m.op, ast.Mod)):
                    break
                s = m.left
                if not (_is_sub(s, "a0") and isinstance(s.slice, ast.Constant)):
                    break
                vals = [src.literal(x) for x in (m.right, cond.comparators[0], v.args[1], v.args[2])]
                if not (isinstance(vals[0], int) and isinstance(vals[1], int) and vals[0] >= 0 and vals[1] >= 0 and isinstance(vals[2], str) and isinstance(vals[3], str)):
                    break
                return [s.slice.value] + vals
        st = next((ast.unparse(n) for n in ast.walk(fn) if isinstance(n, ast.Assign) and _is_sub(n.targets[0], frame, "halfset")), "<no assignment to the halfset column>")
        raise core.AnchorMissing('convert_to_sg_motl: <frame>["halfset"] = np.where(<motl_df>[<col>].mod(<m>).eq(<k>)[.to_numpy()], <a>, <b>) (or `% <m> == <k>`); '
                                 f'the source has `{_orig_text(fn, st)}`')

    half = src.anchor("convert_to_sg_motl:halfset = np.where(subtomo_id.mod(2).eq(0), A, B)", halfset)

    def motl_idx():
        fn = canon("StopgapMotl.convert_to_sg_motl")
        frame, _ = _frame_var(fn)
        for n in ast.walk(fn):
            if isinstance(n, ast.Assign) and len(n.targets) == 1 and _is_sub(n.targets[0], frame, "motl_idx"):
                if _is_sub(n.value, frame) and isinstance(n.value.slice, ast.Constant):
                    return n.value.slice.value
        st = next((ast.unparse(n) for n in ast.walk(fn) if isinstance(n, ast.Assign) and _is_sub(n.targets[0], frame, "motl_idx")), "<no assignment to the motl_idx column>")
        raise core.AnchorMissing('convert_to_sg_motl: <frame>["motl_idx"] = <frame>[<col>]; the source has `' + _orig_text(fn, st) + "`")

    idx_src = src.anchor("convert_to_sg_motl:motl_idx source column", motl_idx)

    def export_order():
        """statement order of convert_to_sg_motl: frame, copy loop, halfset, motl_idx, reset call (with the reset_index parameter), return"""
        fn = canon("StopgapMotl.convert_to_sg_motl")
        frame, _ = _frame_var(fn)
        kinds = []
        for st in fn.body:
            t = ast.unparse(st).replace(" ", "")
            if isinstance(st, ast.For):
                kinds.append("loop")
            elif t.startswith(f"{frame}['halfset']="):
                kinds.append("halfset")
            elif t.startswith(f"{frame}['motl_idx']="):
                kinds.append("motl_idx")
            elif t in (f"{frame}=StopgapMotl.sg_df_reset_index({frame},a1)", f"{frame}=StopgapMotl.sg_df_reset_index({frame},reset_index=a1)"):
                kinds.append("reset")
            elif t == f"return{frame}":
                kinds.append("return")
            elif isinstance(st, ast.Assign) and t.startswith(f"{frame}=pd.DataFrame("):
                kinds.append("frame")
            else:
                kinds.append("other:" + t[:60])
        return kinds

    order = src.anchor("convert_to_sg_motl:statement order", export_order)

    def reset_range():
        fn = canon("StopgapMotl.sg_df_reset_index")
        for n in ast.walk(fn):
            if isinstance(n, ast.If) and ast.unparse(n.test) == "a1" and not n.orelse:
                for st in n.body:
                    if isinstance(st, ast.Assign) and _is_sub(st.targets[0], "a0", "motl_idx") and isinstance(st.value, ast.Call) \
                            and ast.unparse(st.value.func) == "range" and len(st.value.args) == 2 and isinstance(st.value.args[0], ast.Constant):
                        start, stop = st.value.args
                        if ast.unparse(stop) == "a0.shape[0]":
                            return [int(start.value), 0]
                        if isinstance(stop, ast.BinOp) and isinstance(stop.op, ast.Add) and ast.unparse(stop.left) == "a0.shape[0]" \
                                and isinstance(stop.right, ast.Constant):
                            return [int(start.value), int(stop.right.value)]
        raise core.AnchorMissing('sg_df_reset_index: if reset_index: <df>["motl_idx"] = range(<start>, <df>.shape[0] + <k>); the source has `'
                                 + _orig_text(fn, "; ".join(ast.unparse(st) for st in fn.body).replace("\n", " ")[:200]) + "`")

    rr = src.anchor("sg_df_reset_index:range(1, N+1)", reset_range)

    def write_spec():
        fn = canon("StopgapMotl.write_out")          # a0 output_path, a1 update_coord, a2 reset_index
        txt = ast.unparse(fn).replace(" ", "")
        if "StopgapMotl.convert_to_sg_motl(self.df,a2)" not in txt.replace("reset_index=a2", "a2"):
            call = next((ast.unparse(n) for n in ast.walk(fn) if isinstance(n, ast.Call) and ast.unparse(n.func).endswith("convert_to_sg_motl")), "<no call of convert_to_sg_motl>")
            raise core.AnchorMissing("write_out: convert_to_sg_motl(self.df, reset_index); the source has `" + _orig_text(fn, call) + "`")
        for n in ast.walk(fn):
            if isinstance(n, ast.Call) and ast.unparse(n.func).endswith("Starfile.write"):
                if len(n.args) < 2 or ast.unparse(n.args[1]) != "a0" or not isinstance(n.args[0], ast.List) or len(n.args[0].elts) != 1:
                    continue
                for kw in n.keywords:
                    if kw.arg == "specifiers":
                        v = src.literal(kw.value)
                        if isinstance(v, list) and len(v) == 1:
                            return v[0]
        call = next((ast.unparse(n) for n in ast.walk(fn) if isinstance(n, ast.Call) and ast.unparse(n.func).endswith("Starfile.write")), "<no call of Starfile.write>")
        raise core.AnchorMissing("write_out: Starfile.write([<frame>], output_path, specifiers=[<const>]); the source has `" + _orig_text(fn, call) + "`")

    wspec = src.anchor("write_out:specifier", write_spec)

    def write_order():
        """`if update_coord: self.update_coordinates()` comes before the conversion in write_out"""
        fn = canon("StopgapMotl.write_out")
        upd = conv = None
        for n in ast.walk(fn):
            if isinstance(n, ast.If) and ast.unparse(n.test) == "a1" and ast.unparse(n.body[0]) == "self.update_coordinates()" and len(n.body) == 1 and not n.orelse:
                upd = n.lineno
            if isinstance(n, ast.Call) and ast.unparse(n.func).endswith("convert_to_sg_motl"):
                conv = n.lineno
        if upd is None or conv is None or not upd < conv:
            raise core.AnchorMissing("write_out: `if update_coord: self.update_coordinates()` before convert_to_sg_motl")
        return True

    src.anchor("write_out:update_coordinates before conversion", write_order)

    def converter():
        fn1 = canon("emmotl2stopgap")
        txt = _dump(fn1)                            # a0 input_motl, a1 output_motl_path, a2 update_coordinates, a3 reset_index
        need = ["v0=EmMotl(a0)", "v1=StopgapMotl(v0.df)", "ifa2:;v1.update_coordinates()",
                "v1.write_out(a1,update_coord=False,reset_index=a3)", "returnv1"]
        miss = [x for x in need if x not in txt]
        if miss:
            raise core.AnchorMissing(f"emmotl2stopgap: statements not found {miss}; the source has `{_orig_text(fn1, txt)}`")
        fn2 = canon("stopgap2emmotl")
        txt2 = _dump(fn2)
        need2 = ["v0=StopgapMotl(a0)", "v1=EmMotl(v0.df)", "returnv1"]
        miss = [x for x in need2 if x not in txt2]
        if miss:
            raise core.AnchorMissing(f"stopgap2emmotl: statements not found {miss}; the source has `{_orig_text(fn2, txt2)}`")
        return True

    src.anchor("emmotl2stopgap/stopgap2emmotl: go through StopgapMotl, pass reset_index", converter)

    def read_spec():
        fn = canon("StopgapMotl.read_in")
        names = set()
        for n in ast.walk(fn):
            if isinstance(n, ast.Compare) and isinstance(n.left, ast.Constant) and isinstance(n.ops[0], (ast.NotIn, ast.In)) and isinstance(n.comparators[0], ast.Name):
                names.add(n.left.value)
            if isinstance(n, ast.Call) and ast.unparse(n.func).endswith("get_specifier_id") and len(n.args) == 2 and isinstance(n.args[1], ast.Constant):
                names.add(n.args[1].value)
        if len(names) != 1:
            raise core.AnchorMissing(f'read_in: one block name in `"<specifier>" not in specifiers` and get_specifier_id(specifiers, "<specifier>"): {sorted(names)}')
        return names.pop()

    rspec = src.anchor("read_in:specifier", read_spec)
    prec = src.anchor("Starfile.write:float_precision", lambda: int(_sig_default(src, "cryocat/starfileio.py", "Starfile.write", "float_precision")))

    dflt = {}
    for key, qual, name in (("conv_reset", "StopgapMotl.convert_to_sg_motl", "reset_index"), ("sg_reset", "StopgapMotl.sg_df_reset_index", "reset_index"),
                            ("write_update", "StopgapMotl.write_out", "update_coord"), ("write_reset", "StopgapMotl.write_out", "reset_index"),
                            ("em2sg_update", "emmotl2stopgap", "update_coordinates"), ("em2sg_reset", "emmotl2stopgap", "reset_index"),
                            ("sg2em_update", "stopgap2emmotl", "update_coordinates"), ("keep_halfsets", "StopgapMotl.convert_to_motl", "keep_halfsets")):
        def get(qual=qual, name=name):
            v = _sig_default(src, rel, qual, name)
            if not isinstance(v, bool):
                raise core.AnchorMissing(f"{qual}({name}=<bool>): {v!r}")
            return v
        v = src.anchor(f"default:{qual}({name})", get)
        dflt[key] = DOC_DEFAULTS[key] if v is None else v

    digests, dumps = [], []
    for q in BODY_FUNCS:
        got = {}

        def body(q=q, got=got):
            fn = canon(q)
            got["dump"] = _dump(fn)
            if got["dump"] != DOC_DUMPS[q]:
                raise core.AnchorMissing(f"{q} differs from the reviewed body at {_first_diff(fn, got['dump'], DOC_DUMPS[q])}")
            return got["dump"]

        src.anchor(f"body:{q}", body)
        d = got.get("dump")
        dumps.append((q, d))
        digests.append((q, hashlib.sha256(d.encode()).hexdigest()[:16] if d is not None else DOC_DIGESTS.get(q, "")))

    # the wrapper entry points sta.py / tmana.py use: the "stopgap" branch of Motl.write_out / Motl.load (the other branches belong to other properties)
    def branch(qual, var, what):
        fn = canon(qual)
        for n in ast.walk(fn):
            if isinstance(n, ast.If):
                t = ast.unparse(n.test).replace(" ", "")
                if t in (f"{var}.lower()=='stopgap'", f"{var}=='stopgap'"):
                    return [ast.unparse(st).replace(" ", "") for st in n.body]
        raise core.AnchorMissing(f"{qual}: branch `if/elif {_orig_text(fn, var)}[.lower()] == 'stopgap'` ({what})")

    wrap_w = src.anchor("Motl.write_out:stopgap branch", lambda: branch("Motl.write_out", "a1", "StopgapMotl(self.df).write_out(output_path)"))
    wrap_l = src.anchor("Motl.load:stopgap branch", lambda: branch("Motl.load", "a1", "return StopgapMotl(input_motl)"))
    for rel_h, q in PATH_HELPERS:
        src.anchor(f"helper:{q}", lambda rel_h=rel_h, q=q: bool(src.find(rel_h, q)))

    # a missing anchor falls back to the DOCUMENTED value (anchorsOk = false reports it), never to a value that changes the model
    ok_pairs = isinstance(pairs, list) and all(isinstance(k, str) and isinstance(v, str) for k, v in pairs)
    pairs = pairs if ok_pairs else [list(p) for p in DOC_PAIRS]
    columns = columns if isinstance(columns, list) and all(isinstance(c, str) for c in columns) else DOC_COLUMNS
    half = half or ["subtomo_id", 2, 0, "A", "B"]
    rr = rr or [1, 1]
    exp = exp or [True, True]
    imp = True if imp is None else imp
    order = order if order is not None else ["frame", "loop", "halfset", "motl_idx", "reset", "return"]
    wrap_w = wrap_w if wrap_w is not None else ["StopgapMotl(self.df).write_out(a0)"]
    wrap_l = wrap_l if wrap_l is not None else ["returnStopgapMotl(a0)"]
    b = lambda x: "true" if x else "false"
    pair_txt = "[" + ", ".join(f"({core.lean_str(k)}, {core.lean_str(v)})" for k, v in pairs) + "]"
    dig_txt = "[" + ", ".join(f"({core.lean_str(k)}, {core.lean_str(v)})" for k, v in digests) + "]"
    dump_txt = "\n".join(f"-- {q}: {d}" for q, d in dumps)
    return f"""-- GENERATED by harness/props/c04.py from cryocat/cryomotl.py, cryocat/starfileio.py; do not edit
namespace CryoCat.Gen.C04
def anchorsOk : Bool := {b(src.ok)}
def sgPairNames : List (String × String) := {pair_txt}
def sgColumnNames : List String := {core.lean_str_list(columns)}
def zerosWidth : Nat := {width if width is not None else 16}
def exportLoopCopiesMotlToSg : Bool := {b(exp[0])}
def exportLoopPositional : Bool := {b(exp[1])}
def importLoopCopiesSgToMotl : Bool := {b(imp)}
def exportOrder : List String := {core.lean_str_list(order)}
def halfsetSourceName : String := {core.lean_str(half[0])}
def halfsetMod : Nat := {half[1]}
def halfsetEq : Nat := {half[2]}
def halfsetThen : String := {core.lean_str(half[3])}
def halfsetElse : String := {core.lean_str(half[4])}
def motlIdxSourceName : String := {core.lean_str(idx_src or "subtomo_num")}
def resetStart : Nat := {rr[0]}
def resetStopOffset : Nat := {rr[1]}
def writeSpecifier : String := {core.lean_str(wspec or SPECIFIER)}
def readSpecifier : String := {core.lean_str(rspec or SPECIFIER)}
def starFloatPrecision : Nat := {prec if prec is not None else 6}
def convResetDefault : Bool := {b(dflt["conv_reset"])}
def sgResetDefault : Bool := {b(dflt["sg_reset"])}
def writeUpdateDefault : Bool := {b(dflt["write_update"])}
def writeResetDefault : Bool := {b(dflt["write_reset"])}
def em2sgUpdateDefault : Bool := {b(dflt["em2sg_update"])}
def em2sgResetDefault : Bool := {b(dflt["em2sg_reset"])}
def sg2emUpdateDefault : Bool := {b(dflt["sg2em_update"])}
def keepHalfsetsDefault : Bool := {b(dflt["keep_halfsets"])}
-- the "stopgap" branches of the wrappers Motl.write_out(path, motl_type) / Motl.load(path, motl_type) (normalised statements)
def motlWriteOutStopgap : List String := {core.lean_str_list(wrap_w)}
def motlLoadStopgap : List String := {core.lean_str_list(wrap_l)}
-- normalised bodies (parameters a0.., locals v0.., docstrings dropped) and their sha256 digests (first 16 hex digits)
{dump_txt}
def bodyDigests : List (String × String) := {dig_txt}
end CryoCat.Gen.C04
"""


# ------------------------------------------------------------------------------------------ independent STAR parser
def parse_star(path):
    """minimal reader of the file StopgapMotl.write_out produces: block name, loop_ header, whitespace-separated rows"""
    blocks = []
    cur = None
    for line in open(path).read().split("\n"):
        s = line.split("#")[0].strip()
        if not s:
            continue
        if s.startswith("data_"):
            cur = dict(spec=s, cols=[], rows=[], loop=False)
            blocks.append(cur)
        elif cur is None:
            raise ValueError(f"text before a data block: {s[:40]}")
        elif s == "loop_":
            cur["loop"] = True
        elif s.startswith("_") and not cur["rows"]:
            cur["cols"].append(s.split()[0][1:])
        else:
            cur["rows"].append(s.split())
    return blocks


# ------------------------------------------------------------------------------------------ generators
def _arb(rng):
    k = rng.random()
    if k < 0.15:
        return float(rng.randint(-500, 5000))
    if k < 0.25:
        return rng.choice([0.0, -0.0])
    v = rng.gauss(0, 1) * 10.0 ** rng.randint(-8, 14)
    return max(-MAXABS, min(MAXABS, v))


def _tie(rng):
    return rng.choice([0.5, -0.5, 1.5, -1.5, 2.5, -2.5, 0.25, -0.75, 0.49999999999999994, -0.49999999999999994])


def _particle(rng, style):
    if style == "arbitrary":
        p = {c: _arb(rng) for c in MOTL_COLS}
    elif style == "integer":
        # what an all-integer STAR / CSV file gives: every field a whole number (every column is then read as int64)
        p = {c: 0.0 for c in MOTL_COLS}
        p["score"] = float(rng.randint(0, 1))
        p["geom1"], p["geom2"], p["geom3"] = float(rng.randint(0, 9)), float(rng.randint(0, 3)), float(rng.randint(0, 1))
        p["tomo_id"], p["object_id"] = float(rng.randint(1, 300)), float(rng.randint(1, 2000))
        for c in "xyz":
            p[c] = float(rng.randint(-8, 8) if rng.random() < 0.2 else rng.randint(1, 4096))
            p["shift_" + c] = float(rng.randint(-6, 6)) if rng.random() < 0.5 else 0.0
        p["phi"], p["psi"], p["theta"] = float(rng.randint(-360, 360)), float(rng.randint(-180, 180)), float(rng.randint(0, 180))
        p["class"] = float(rng.randint(0, 12))
    else:
        frac = rng.random() < 0.4
        near0 = rng.random() < 0.12           # positions next to / below the origin: x + shift is negative, exact negative halves on x, y AND z
        p = {c: 0.0 for c in MOTL_COLS}
        p["score"] = rng.random() if rng.random() < 0.8 else rng.uniform(-1, 1) * 1e-5
        p["geom1"], p["geom2"], p["geom3"] = float(rng.randint(0, 9)), float(rng.randint(0, 3)), rng.random()
        p["tomo_id"], p["object_id"] = float(rng.randint(1, 300)), float(rng.randint(1, 2000))
        p["subtomo_mean"] = rng.gauss(0, 1)
        for c in "xyz":
            if near0:
                p[c] = float(rng.randint(-8, 2))
                p["shift_" + c] = _tie(rng) if rng.random() < 0.7 else rng.uniform(-6, 6)
                continue
            p[c] = float(rng.randint(1, 4096)) + (rng.choice([0.0, 0.5, rng.random()]) if frac else 0.0)
            p["shift_" + c] = _tie(rng) if rng.random() < 0.25 else (rng.uniform(-6, 6) if rng.random() < 0.8 else 0.0)
        if rng.random() < 0.3:                # decimal values off the dyadic grid, as typed / printed with 2-3 decimals
            p["phi"], p["psi"], p["theta"] = round(rng.uniform(-360, 360), 2), round(rng.uniform(-180, 180), 3), round(rng.uniform(0, 180), 2)
        else:
            p["phi"], p["psi"], p["theta"] = rng.uniform(-360, 360), rng.uniform(-180, 180), rng.uniform(0, 180)
        p["class"] = float(rng.randint(0, 12))
    return p


BIG_IDS = [2.0 ** 53, 2.0 ** 53 + 2, 2.0 ** 53 + 4, 1e16, 1e17, 2.0 ** 60, 2.0 ** 62, 9007199254740990.0, 9007199254740991.0]


def _ids(rng, n):
    """subtomogram numbers: mostly non-negative integers, non-sequential; small shares of negative, beyond-2^53 and non-integral numbers"""
    k = rng.random()
    if k < 0.08:
        return [float(i) for i in range(1, n + 1)]                       # already sequential (trivial for reset)
    if k < 0.16:
        return [float(rng.choice([2, 4, 6, 1000]))] * n if rng.random() < 0.5 else [float(2 * rng.randint(1, 10 ** 5)) for _ in range(n)]
    if k < 0.22:
        return [float(2 * rng.randint(0, 10 ** 5) + 1) for _ in range(n)]   # all odd
    hi = rng.choice([3 * n + 5, 10 ** 4, 10 ** 6, 2 ** 31 - 1, 10 ** 9])
    ids = [float(rng.randint(0 if rng.random() < 0.02 else 1, hi)) for _ in range(n)]
    if rng.random() < 0.5:
        ids.sort(reverse=rng.random() < 0.3)
    k = rng.random()
    if k < 0.07:                                                          # negative numbers (both parities)
        for i in rng.sample(range(n), max(1, n // 3)):
            ids[i] = -ids[i] if ids[i] else -3.0
    elif k < 0.13:                                                        # beyond 2^53: every float is an even integer there
        for i in rng.sample(range(n), max(1, n // 4)):
            ids[i] = rng.choice(BIG_IDS) * rng.choice([1.0, 1.0, -1.0])
    elif k < 0.17:                                                        # non-integral: neither even nor odd (statement silent)
        for i in rng.sample(range(n), max(1, n // 4)):
            ids[i] = ids[i] + rng.choice([0.5, 0.25, -0.5, 1e-9])
    return ids


def _opt(rng):
    """an optional boolean keyword: omitted (None -> the library's default is exercised) in ~30 % of the cases"""
    k = rng.random()
    return None if k < 0.3 else (k < 0.65)


BOUNDARY_COUNTS = [1, 2, 63, 64, 65, 128, 255, 256, 257, 300]      # both ends of the quantifier (1..300) and the powers of two writers like to buffer by


def _labels(rng, n, index):
    if index == "filtered":
        return sorted(rng.sample(range(0, 2 * n + 3), n))
    if index == "shuffled":
        labels = list(range(n)); rng.shuffle(labels)
        return labels
    if index == "offset":
        off = rng.randint(1, 50)
        return list(range(off, off + n))
    if index == "duplicated":                 # e.g. pd.concat of two lists without ignore_index: labels repeat
        k = rng.randint(1, max(1, n // 2))
        return [i % k for i in range(n)]
    return list(range(n))


def _repeat_rows(rng, rows, id_col):
    """the same particle picked twice: exact copies of whole rows (p, q, p) and rows that only share the subtomogram number"""
    n = len(rows)
    if n < 2:
        return "none"
    kind = rng.choice(["copies", "copies", "ids", "both"])
    for i in rng.sample(range(n), max(1, min(n - 1, rng.randint(1, max(1, n // 3))))):
        j = rng.choice([k for k in range(n) if k != i])
        if kind in ("copies", "both"):
            rows[i] = list(rows[j])
        if kind == "ids" or (kind == "both" and rng.random() < 0.5):
            rows[i] = list(rows[i]); rows[i][id_col] = rows[j][id_col]
    return kind


def _export_step(rng, tier, n=None, like=None):
    big = {"quick": 0.08, "thorough": 0.15, "search": 0.0}[tier]
    if n is None:
        n = rng.randint(41, 300) if rng.random() < big else (1 if rng.random() < 0.06 else rng.randint(2, 12 if tier == "search" else 40))
    k = rng.random()
    style = "arbitrary" if k < 0.33 else ("integer" if k < 0.41 else "realistic")
    rows = []
    ids = _ids(rng, n)
    if style == "integer":
        ids = [float(int(x)) if abs(x) < 2.0 ** 53 else x for x in ids]
    int_ids = (rng.random() < 0.3 or style == "integer") if like is None else like["int_ids"]
    for i in range(n):
        p = _particle(rng, style)
        p["subtomo_id"] = ids[i]
        if int_ids:                                   # an int64 column cannot hold -0.0
            for c in ID_COLS:
                p[c] = p[c] + 0.0
        rows.append([f2b(p[c] + 0.0 if style == "integer" else p[c]) for c in MOTL_COLS])
    repeated = _repeat_rows(rng, rows, 3) if rng.random() < 0.15 else "none"
    if like is not None:
        index, labels, cols = like["index"], list(like["labels"]), list(like["cols"])
        int_cols = like.get("int_cols")
    else:
        index = rng.choices(["range", "filtered", "shuffled", "offset", "duplicated"], [0.38, 0.22, 0.22, 0.1, 0.08])[0]
        labels = _labels(rng, n, index)
        cols = list(MOTL_COLS)
        if rng.random() < 0.3:
            rng.shuffle(cols)
        # which columns are stored as int64 (when all their values are whole numbers): the four id columns; also the coordinates
        # (picked positions are whole numbers); every column for an all-integer list
        int_cols = None
        if style == "integer":
            int_cols = list(MOTL_COLS)
        elif int_ids and rng.random() < 0.4:
            int_cols = ID_COLS + ["x", "y", "z"] + (["geom1", "geom2"] if rng.random() < 0.5 else [])
    step = dict(rows=rows, reset=_opt(rng), update=_opt(rng), index=index, labels=labels, int_ids=int_ids, cols=cols)
    if int_cols is not None:
        step["int_cols"] = int_cols
    for c in (int_cols if int_cols is not None else (ID_COLS if int_ids else [])):       # an int64 column cannot hold -0.0: the caller's frame has 0
        j = MOTL_COLS.index(c)
        for r in rows:
            if b2f(r[j]) == 0.0:
                r[j] = f2b(0.0)
    if repeated != "none":
        step["repeated"] = repeated
    if rng.random() < 0.4:
        # a HISTORY on the list loaded back from the file just written: StopgapMotl(path) (the object then also holds the STOPGAP
        # table it was made from) -> fields edited in place (same particles) and / or update_coord -> written again
        step["hist"] = dict(update=_opt(rng), reset=_opt(rng), edit=rng.randrange(1, 2 ** 31) if rng.random() < 0.6 else None)
    if rng.random() < 0.4:
        step["wrap_kw"] = True          # Motl.write_out(path, motl_type="stopgap") / Motl.load(path, motl_type="stopgap") by keyword
    return step


def _export_case(rng, tier, n=None):
    case = dict(kind="export", **_export_step(rng, tier, n=n))
    k = rng.random()
    n = len(case["rows"])
    if k < 0.22:        # the same two paths are written and loaded a second time with a DIFFERENT list (usually another count)
        n2 = rng.choice([1, 2, 3, max(1, n - 1), n + 1, n, rng.randint(1, 12)])
        case["second"] = dict(_export_step(rng, tier, n=n2), mode="new")
    elif k < 0.32:      # the caller edits its own DataFrame in place (same object) and converts / writes it again
        case["second"] = dict(_export_step(rng, tier, n=n, like=case), mode="mutate")
    return case


def _import_case(rng, tier, n=None, plain=False):
    big = {"quick": 0.08, "thorough": 0.15, "search": 0.0}[tier]
    if n is None:
        n = rng.randint(41, 300) if rng.random() < big else (1 if rng.random() < 0.06 else rng.randint(2, 12 if tier == "search" else 40))
    cols = list(DOC_COLUMNS)
    k = rng.random()
    if k < 0.6:
        rng.shuffle(cols)
    elif k < 0.8:
        i, j = rng.sample(range(16), 2); cols[i], cols[j] = cols[j], cols[i]
    extra = rng.random() < 0.15
    missing = None
    if not plain and rng.random() < 0.10:
        missing = rng.choice([s for _, s in DOC_PAIRS])
        cols.remove(missing)
    k = rng.random()
    style = "arbitrary" if k < 0.45 else ("integer" if k < 0.53 else "realistic")
    rows = []
    int_ids = rng.random() < 0.3 or style == "integer"
    for i in range(n):
        p = _particle(rng, style)
        p["subtomo_id"] = float(rng.randint(1, 10 ** 6))
        if int_ids:
            for c in ID_COLS:
                p[c] = p[c] + 0.0
        sg = {s: p[e] + 0.0 if style == "integer" else p[e] for e, s in DOC_PAIRS}
        sg["motl_idx"] = float(i + 1) if rng.random() < 0.5 else sg["subtomo_num"]
        row = []
        for c in cols:
            row.append(rng.choice(["A", "B"]) if c == "halfset" else f2b(sg[c]))
        rows.append(row)
    repeated = "none"
    if "subtomo_num" in cols and rng.random() < 0.15:
        repeated = _repeat_rows(rng, rows, cols.index("subtomo_num"))
    index = rng.choices(["range", "filtered", "shuffled", "offset", "duplicated"], [0.42, 0.18, 0.22, 0.1, 0.08])[0]
    labels = _labels(rng, n, index)
    text_cell = None
    if missing is None and not plain and rng.random() < 0.06:       # outside the quantifier: a text cell in one of the 14 numeric columns
        c = rng.choice([s for _, s in DOC_PAIRS])
        i = rng.randrange(n)
        rows[i][cols.index(c)] = rng.choice(["n/a", "x12", "--", "1,5"])
        text_cell = [i, c]
    case = dict(kind="import", cols=cols, rows=rows, extra=extra, missing=missing, int_ids=int_ids, index=index, labels=labels, text_cell=text_cell)
    if style == "integer":
        case["int_all"] = True          # every numeric column of the table is int64
    if repeated != "none":
        case["repeated"] = repeated
    return case


def generate(rng, tier, n):
    fixed = []
    if tier in ("quick", "thorough"):       # the boundary counts of the quantifier, both directions, on EVERY run (content is random)
        for c in BOUNDARY_COUNTS:
            e = _export_case(rng, tier, n=c)
            if c >= 128:
                e.pop("second", None)
            fixed.append(e)
            fixed.append(_import_case(rng, tier, n=c, plain=True))
    fixed = fixed[:n]
    for f in fixed:
        yield f
    for _ in range(n - len(fixed)):
        yield _import_case(rng, tier) if rng.random() < 0.2 else _export_case(rng, tier)


def json_key(row):
    return tuple(row)


def _steps(case):
    return [case] + ([case["second"]] if case.get("second") else [])


def _sub_step(step, idx):
    c = dict(step, rows=[step["rows"][i] for i in idx])
    if "labels" in step:
        c["labels"] = [step["labels"][i] for i in idx]
    return c


def shrink(case):
    rows = case["rows"]
    n = len(rows)
    if case.get("text_cell") is not None:
        return
    if case["kind"] == "export" and case.get("second"):
        sec = case["second"]
        first = {k: v for k, v in case.items() if k != "second"}
        yield first                                               # the first step alone
        yield dict(kind="export", **{k: v for k, v in sec.items() if k != "mode"})   # the second step alone
        n2 = len(sec["rows"])
        if sec["mode"] == "new":
            if n2 > 1:
                yield dict(case, second=_sub_step(sec, range(n2 // 2)))
                yield dict(case, second=_sub_step(sec, range(n2 // 2, n2)))
            if n > 1:
                yield dict(_sub_step(case, range(n // 2)), second=sec)
                yield dict(_sub_step(case, range(n // 2, n)), second=sec)
            for key in ("update", "reset"):
                if sec[key]:
                    yield dict(case, second=dict(sec, **{key: False}))
                if case[key]:
                    yield dict(case, **{key: False})
        elif n > 1:
            for idx in (range(n // 2), range(n // 2, n)):
                yield dict(_sub_step(case, idx), second=_sub_step(sec, idx))
        return
    def sub(idx):
        return _sub_step(case, idx)
    if n > 2:            # a repeated particle: keep one repeated pair (whole row, else subtomogram number) and nothing else
        idc = 3 if case["kind"] == "export" else (case["cols"].index("subtomo_num") if "subtomo_num" in case["cols"] else None)
        seen_row, seen_id = {}, {}
        pair = None
        for i, r in enumerate(rows):
            k = json_key(r)
            if k in seen_row:
                pair = (seen_row[k], i); break
            seen_row[k] = i
        if pair is None and idc is not None:
            for i, r in enumerate(rows):
                if r[idc] in seen_id:
                    pair = (seen_id[r[idc]], i); break
                seen_id[r[idc]] = i
        if pair is not None:
            yield sub(list(pair))
            other = next((k for k in range(n) if k not in pair and rows[k] != rows[pair[0]]), None)
            if other is not None:
                yield sub(sorted([pair[0], other, pair[1]]))
    if n > 1:
        yield sub(range(n // 2))
        yield sub(range(n // 2, n))
        if n <= 8:
            for k in range(n):
                yield sub([i for i in range(n) if i != k])
    if case["kind"] == "export":
        if case.get("hist"):
            hs = case["hist"]
            if hs.get("edit") is not None and hs["update"]:
                yield dict(case, hist=dict(hs, edit=None))
            if hs["reset"]:
                yield dict(case, hist=dict(hs, reset=False))
        if case["update"]:
            yield dict(case, update=False)
        if case["reset"]:
            yield dict(case, reset=False)
        if case["cols"] != MOTL_COLS:
            yield dict(case, cols=list(MOTL_COLS))
        if case["int_ids"]:
            yield dict(case, int_ids=False)
        if case["index"] != "range":
            yield dict(case, index="range", labels=list(range(n)))
        if n <= 3:
            simple = [[f2b(float(100 * (i + 1) + j + 1)) for j in range(20)] for i in range(n)]
            for i in range(n):
                simple[i][3] = rows[i][3]
            if simple != rows:
                yield dict(case, rows=simple)
            ids = [[*r] for r in rows]
            for i in range(n):
                ids[i][3] = f2b(float(7 + 3 * i))
            if ids != rows:
                yield dict(case, rows=ids)
    else:
        if case.get("extra"):
            yield dict(case, extra=False)
        if case.get("index", "range") != "range":
            yield dict(case, index="range", labels=list(range(n)))
        if case["cols"] != DOC_COLUMNS and case.get("missing") is None:
            order = [case["cols"].index(c) for c in DOC_COLUMNS]
            yield dict(case, cols=list(DOC_COLUMNS), rows=[[r[k] for k in order] for r in rows])


# ------------------------------------------------------------------------------------------ implementation
def _guard(fn):
    """run one library call; an exception becomes an observation that says whether a frame of cryoCAT is on the traceback"""
    try:
        return fn(), None
    except Exception as e:
        where = ""
        for fr in reversed(traceback.extract_tb(e.__traceback__)):
            if "/cryocat/" in fr.filename.replace("\\", "/"):
                where = f"{os.path.basename(fr.filename)}:{fr.lineno}"
                break
        return None, {"error": f"{type(e).__name__}: {str(e)[:300]}", "where": where}


def _cell(v):
    """one DataFrame cell without coercion of its kind: a number -> IEEE bits of its float64 value, anything else -> text"""
    import numpy as np
    if isinstance(v, (bool, np.bool_)):
        return "bool:" + str(bool(v))
    if isinstance(v, (int, float, np.integer, np.floating)):
        return f2b(float(v))
    return v if isinstance(v, str) else "obj:" + repr(v)[:40]


def _frame(df, want_cols=None):
    """columns, cells and dtypes of a DataFrame exactly as returned (no float()/to_numeric coercion): the dtype of every column,
    for object columns the python types met, integers that a float64 cannot hold exactly"""
    cols = [str(c) for c in df.columns]
    order = list(range(len(cols)))
    if want_cols is not None and sorted(cols) == sorted(want_cols):
        order = [cols.index(c) for c in want_cols]
    arrays = [df.iloc[:, k].tolist() for k in order]
    rows = [[_cell(col[i]) for col in arrays] for i in range(len(df))]
    dtypes = {cols[k]: str(df.dtypes.iloc[k]) for k in order}
    kinds = {cols[k]: getattr(df.dtypes.iloc[k], "kind", "O") for k in order}
    inexact = [cols[k] for k, col in zip(order, arrays) if kinds[cols[k]] in "iu" and any(int(float(v)) != int(v) for v in col)]
    return dict(cols=[cols[k] for k in order], orig_cols=cols, rows=rows, dtypes=dtypes, kinds=kinds, inexact=inexact, index=[_lab(x) for x in df.index])


def _lab(x):
    try:
        return int(x)
    except Exception:
        return str(x)


def _snap(df):
    f = _frame(df)
    return (f["orig_cols"], f["rows"], f["dtypes"], f["index"])


def _col_is_int(step, c):
    """column c of the caller's frame is int64: it is one of the columns the case stores as integers (`int_cols`; the four id columns
    when only `int_ids` is given) and all its values are whole numbers an int64 holds"""
    j = MOTL_COLS.index(c)
    ic = step.get("int_cols")
    if ic is None:
        ic = ID_COLS if step["int_ids"] else []
    return c in ic and all(b2f(r[j]).is_integer() and abs(b2f(r[j])) < 2 ** 62 for r in step["rows"])


def _build_motl_df(step):
    import pandas as pd, numpy as np
    vals = [[b2f(b) for b in r] for r in step["rows"]]
    data = {}
    for c in step["cols"]:
        j = MOTL_COLS.index(c)
        col = [v[j] for v in vals]
        if _col_is_int(step, c):
            data[c] = np.array(col, dtype=np.float64).astype(np.int64)
        else:
            data[c] = np.array(col, dtype=np.float64)
    return pd.DataFrame(data, index=list(step["labels"]))


def _file_obs(path, cryomotl, loader=None):
    o = {}
    blocks, err = _guard(lambda: parse_star(path))
    if err:
        return dict(err, stage="harness-parse")
    o["blocks"] = [b["spec"] for b in blocks]
    txt = open(path).read()
    o["text"] = txt if len(txt) <= STAR_TEXT_LIMIT else None
    blk = next((b for b in blocks if b["spec"] == SPECIFIER), None)
    if blk is not None:
        o["cols"], o["tokens"], o["loop"] = blk["cols"], blk["rows"], blk["loop"]
    m2, err = _guard(lambda: (loader or cryomotl.StopgapMotl)(path))
    if err:
        o["load_error"] = err
    else:
        o["loaded"] = _frame(m2.df, MOTL_COLS)
        o["loaded_type"] = type(m2).__name__
    return o


def _kw(step, **names):
    """keyword arguments of one call: an option whose value is None in the case is OMITTED (library default)"""
    return {kw: step[key] for kw, key in names.items() if step[key] is not None}


HIST_EDIT_COLS = ["score", "phi", "psi", "theta", "class", "shift_x", "tomo_id"]


def _run_history(hist, p_in, p_out, cryomotl):
    """write -> LOAD from the file -> edit in place / update_coord -> write again.  The list the loaded object holds right before
    the second write_out (`before`, after the in-place edit) is the input the second file is judged against."""
    import random as _random

    def route():
        l = cryomotl.StopgapMotl(p_in)                     # created from a STOPGAP table: the object keeps that table in sg_df
        n = len(l.df)
        if hist.get("edit") is not None:                   # the user edits fields of the list in place; no particle added / removed / renumbered
            r = _random.Random(hist["edit"])
            for c in HIST_EDIT_COLS:
                if r.random() < 0.7:
                    if c in ("class", "tomo_id"):
                        l.df[c] = [float(r.randint(1, 40)) for _ in range(n)]
                    elif c == "shift_x":
                        l.df[c] = [r.choice([0.5, -0.5, 1.5, -2.5, round(r.uniform(-6, 6), 3)]) for _ in range(n)]
                    else:
                        l.df[c] = [round(r.uniform(-180, 180), 3) for _ in range(n)]
        before = _frame(l.df, MOTL_COLS)
        l.write_out(p_out, **_kw(hist, update_coord="update", reset_index="reset"))
        return l, before

    res, err = _guard(route)
    if err:
        return err
    l, before = res
    h = _file_obs(p_out, cryomotl)
    h["before"] = before
    h["after"] = _frame(l.df, MOTL_COLS)
    return h


def _run_export_step(step, df, td, cryomotl):
    o = {"mutated": []}
    snap = [_snap(df)]

    def unchanged(label):
        s2 = _snap(df)
        if s2 != snap[0]:
            o["mutated"].append(label)
            snap[0] = s2

    mem, err = _guard(lambda: cryomotl.StopgapMotl.convert_to_sg_motl(df, **_kw(step, reset_index="reset")))
    o["mem"] = err or _frame(mem)
    unchanged("StopgapMotl.convert_to_sg_motl")
    p = os.path.join(td, "a.star")

    def file_route():
        m = cryomotl.StopgapMotl(df)
        m.write_out(p, **_kw(step, update_coord="update", reset_index="reset"))
        return m

    m, err = _guard(file_route)
    unchanged("StopgapMotl(df).write_out")
    if err:
        o["file"] = err
    else:
        f = _file_obs(p, cryomotl)
        f["after"] = _frame(m.df, MOTL_COLS)
        o["file"] = f
        cp, err = _guard(lambda: cryomotl.StopgapMotl(m))          # the StopgapMotl(StopgapMotl) branch of the constructor: a copy
        f["ctor_copy"] = err or dict(same=_frame(cp.df, MOTL_COLS)["rows"] == f["after"]["rows"], type=type(cp).__name__)
        if step.get("hist") and "load_error" not in f:
            o["hist"] = _run_history(step["hist"], p, os.path.join(td, "d.star"), cryomotl)
    # the wrapper entry points sta.py / tmana.py use: Motl.write_out(path, "stopgap") and Motl.load(path, "stopgap") (no keywords to pass)
    p3 = os.path.join(td, "c.star")
    mt = step.get("wrap_kw", False)

    def wrap_route():
        w = cryomotl.Motl(df)
        if mt:
            w.write_out(p3, motl_type="stopgap")
        else:
            w.write_out(p3, "stopgap")
        return w

    w, err = _guard(wrap_route)
    unchanged("Motl(df).write_out(path, 'stopgap')")
    if err:
        o["wrap"] = err
    else:
        h = _file_obs(p3, cryomotl, loader=(lambda q: cryomotl.Motl.load(q, motl_type="stopgap")) if mt else (lambda q: cryomotl.Motl.load(q, "stopgap")))
        h["after"] = _frame(w.df, MOTL_COLS)
        o["wrap"] = h
    p2 = os.path.join(td, "b.star")
    sg, err = _guard(lambda: cryomotl.emmotl2stopgap(df, p2, **_kw(step, update_coordinates="update", reset_index="reset")))
    unchanged("emmotl2stopgap")
    if err:
        o["conv"] = err
    else:
        g = _file_obs(p2, cryomotl)
        g["after"] = _frame(sg.df, MOTL_COLS)
        g["type"] = type(sg).__name__
        o["conv"] = g
    return o


def run_impl(case):
    import pandas as pd, numpy as np
    from cryocat import cryomotl
    warnings.filterwarnings("ignore")
    if case["kind"] == "export":
        out = {"steps": []}
        with tempfile.TemporaryDirectory(prefix="c04_") as td:
            df = _build_motl_df(case)                      # caller-owned: the SAME object goes into every call of the step
            out["steps"].append(_run_export_step(case, df, td, cryomotl))
            sec = case.get("second")
            if sec:
                if sec["mode"] == "mutate":                 # the caller edits its frame in place, then converts / writes it again
                    new = _build_motl_df(sec)
                    for c in df.columns:
                        df[c] = new[c].to_numpy()
                    df2 = df
                else:
                    df2 = _build_motl_df(sec)
                out["steps"].append(_run_export_step(sec, df2, td, cryomotl))    # same directory: a.star / b.star are overwritten
        return out
    # import
    data = {}
    for j, c in enumerate(case["cols"]):
        col = [r[j] for r in case["rows"]]
        if c == "halfset":
            data[c] = col
        elif any(isinstance(b, str) for b in col):
            data[c] = np.array([b if isinstance(b, str) else b2f(b) for b in col], dtype=object)
        else:
            x = np.array([b2f(b) for b in col], dtype=np.float64)
            if ((case["int_ids"] and c in ("subtomo_num", "tomo_num", "object", "class", "motl_idx")) or case.get("int_all")) \
                    and all(float(v).is_integer() and abs(float(v)) < 2 ** 62 for v in x):
                x = x.astype(np.int64)
            data[c] = x
    sg_df = pd.DataFrame(data, index=list(case.get("labels") or range(len(case["rows"]))))
    if case.get("extra"):
        sg_df["extra_col"] = np.arange(len(sg_df), dtype=float)
    out = {"mutated": []}
    snap = _snap(sg_df)
    for name, fn in (("ctor", lambda d: cryomotl.StopgapMotl(d)), ("conv", lambda d: cryomotl.stopgap2emmotl(d))):
        m, err = _guard(lambda: fn(sg_df))                 # the same caller-owned frame for both calls
        if err:
            out[name] = {"reject": "keyerror", "detail": err["error"][:80]} if err["error"].startswith("KeyError") and err["where"] else err
        else:
            out[name] = dict(_frame(m.df, MOTL_COLS), type=type(m).__name__)
        if _snap(sg_df) != snap:
            out["mutated"].append(name)
            snap = _snap(sg_df)
    return out


def _star_text(f):
    """text of a written file handed to the proved reader (every file of the quantifier: up to 300 particles is ~70 000 characters)"""
    return f.get("text") or ""


def _import_routes(obs):
    return {k: v for k, v in obs.items() if k in ("ctor", "conv")}


ROUTES = ("file", "conv", "wrap")
PER_STEP = 1 + 2 * len(ROUTES)          # driver requests of one export step: mem + (model table, proved reader) per route


def requests(case, obs):
    if case["kind"] == "export":
        rq = []
        steps_obs = obs.get("steps") or []
        for k, step in enumerate(_steps(case)):
            so = steps_obs[k] if k < len(steps_obs) else {}
            base = dict(op="export", rows=step["rows"], reset=step["reset"], update=step["update"])
            mem = so.get("mem") or {}
            m0 = dict(base, route="mem")
            if "rows" in mem and all(isinstance(c, (int, str)) for r in mem["rows"] for c in r):
                m0["out"] = dict(cols=mem["cols"], rows=mem["rows"])
            rq += [m0] + [dict(base, route=key) for key in ROUTES]
            for key in ROUTES:                     # the written file read by the PROVED reader (C02 model, Lean starRead)
                rq.append(dict(op="star", text=_star_text(so.get(key) or {})))
        return rq
    rq = dict(op="import", table=dict(cols=case["cols"], rows=case["rows"]))
    good = [o for o in _import_routes(obs).values() if "rows" in o and o.get("cols") == MOTL_COLS
            and all(isinstance(b, int) for r in o["rows"] for b in r)]
    if good and case.get("text_cell") is None:
        rq["out"] = [[0 if math.isnan(b2f(b)) else b for b in r] for r in good[0]["rows"]]
    return [rq]


# ------------------------------------------------------------------------------------------ judge
def tol(v):
    """STAR precision: half a unit of the 6th decimal, plus 16 ulp for binary64 values too large to carry 6 decimals
    (DataFrame.round(6) computes v*1e6/1e6, and pandas' text->float parser is not correctly rounded: up to ~3 ulp observed)"""
    return 5e-7 + 16 * math.ulp(v)


def _is_even(x):
    return math.fmod(x, 2.0) == 0.0


def _num(c):
    return b2f(c) if isinstance(c, int) and not isinstance(c, bool) else None


def _show(c):
    return repr(b2f(c)) if isinstance(c, int) else repr(c)


def _err_finding(err, what):
    """G4: an exception with a cryoCAT frame on its traceback is the library failing on an input of the quantifier (spec);
    one raised by the harness or a third-party library alone is not evidence about the statement (corr)"""
    if err.get("where"):
        return ("spec", "raises", f"{what}: {err['error']} @{err['where']}")
    return ("corr", "harness-or-library-raised", f"{what}: {err['error']} (no cryoCAT frame on the traceback)")


def _direct_export_mem(step, table):
    """the export clauses evaluated directly on the in-memory table (independent of Lean and of the source tables)"""
    bad = []
    cols, rows = table["cols"], table["rows"]
    N = len(step["rows"])
    reset = bool(step["reset"])                       # an omitted reset_index is documented as False
    need = [s for _, s in DOC_PAIRS] + ["halfset", "motl_idx"]
    miss = [c for c in need if c not in cols]
    if miss:
        return [("columns", f"columns missing: {miss}")]
    if len(rows) != N:
        return [("particle-count", f"{len(rows)} rows for {N} particles")]
    textual = [s for s in need if s != "halfset" and table["kinds"].get(s, "O") not in "fiu"]
    if textual:
        return [("fields-copied", f"columns {textual} are not numeric: dtypes {[table['dtypes'].get(s) for s in textual]}")]
    if table["inexact"]:
        bad.append(("fields-copied", f"integer columns {table['inexact']} hold values no input float64 can hold"))
    ci = {c: cols.index(c) for c in need}
    for i, (src, row) in enumerate(zip(step["rows"], rows)):
        for e, s in DOC_PAIRS:
            a, b = src[MOTL_COLS.index(e)], row[ci[s]]
            same = _num(b) is not None and b2f(a) == _num(b)       # equal VALUE; the statement says nothing about the dtype of a column
            if not same:
                bad.append(("fields-copied", f"particle {i}: column {s} holds {_show(b)}, field {e} is {b2f(a)!r}")); break
        sid = b2f(src[3])
        if sid.is_integer():                          # a non-integral number is neither even nor odd: judged against the model only
            want = "A" if _is_even(sid) else "B"
            if row[ci["halfset"]] != want:
                bad.append(("halfset-parity", f"particle {i}: subtomo {sid!r} has halfset {row[ci['halfset']]!r}, expected {want}"))
        widx = float(i + 1) if reset else sid
        got = _num(row[ci["motl_idx"]])
        if got is None or got != widx:
            bad.append(("motl_idx", f"particle {i}: motl_idx {_show(row[ci['motl_idx']])}, expected {widx!r}"))
        if bad:
            break
    return bad


def _tok(t):
    try:
        return float(t)
    except ValueError:
        return None


def _direct_update(step, after, update, label):
    """the list the object holds after the call, judged against the INPUT list: without update_coord every field unchanged; with it
    (exact rational arithmetic on the float64 values) the complete position x+shift_x is preserved up to one rounding of the sum
    (tolerance: ONE ulp of the float64 sum x+shift -- the code computes fl(x+sh) and fl(fl(x+sh) - r) with r an integer within 1/2 of
    the sum, the subtraction is exact by Sterbenz / integer spacing, so the only rounding is that of the sum) and all other fields are
    unchanged: these are clauses of C04 (`spec`).  That the new coordinate is an integer, the new shift lies in [-1/2, 1/2] and an
    exact half goes away from zero is the ROUNDING RULE of update_coordinates, which the statement of C04 does not mention and C05
    owns: a deviation there is reported as a disagreement with the model (`corr:` prefix), never as a violated clause of C04."""
    from fractions import Fraction
    N = len(step["rows"])
    if after["cols"] != MOTL_COLS:
        return [("held-list", f"{label}: the object holds columns {after['cols'][:5]}... instead of the 20 motl columns")]
    if len(after["rows"]) != N:
        return [("particle-count", f"{label}: the object holds {len(after['rows'])} particles, {N} were passed")]
    textual = [c for c in MOTL_COLS if after["kinds"].get(c, "O") not in "fiu"]
    if textual:
        return [("held-list", f"{label}: fields {textual} of the held list are not numeric ({[after['dtypes'].get(c) for c in textual]})")]
    moved = {"x": "shift_x", "y": "shift_y", "z": "shift_z"} if update else {}
    fixed = [c for c in MOTL_COLS if c not in moved and c not in moved.values()]
    for i, (src, row) in enumerate(zip(step["rows"], after["rows"])):
        for c in fixed:
            k = MOTL_COLS.index(c)
            a, b = src[k], row[k]
            same = b2f(a) == b2f(b) or (math.isnan(b2f(a)) and math.isnan(b2f(b)))      # equal VALUE, any numeric dtype (NaN: the six fields a loaded STOPGAP list does not have)
            if not same:
                kind = "held-list" if c in [e for e, _ in DOC_PAIRS] else "held-list-other"
                return [(kind, f"{label}: particle {i}: field {c} of the held list is {b2f(b)!r}, was passed as {b2f(a)!r}")]
        for c, sc in moved.items():
            x, sh = b2f(src[MOTL_COLS.index(c)]), b2f(src[MOTL_COLS.index(sc)])
            x2, sh2 = b2f(row[MOTL_COLS.index(c)]), b2f(row[MOTL_COLS.index(sc)])
            if not (math.isfinite(x2) and math.isfinite(sh2)):
                return [("update-position", f"{label}: particle {i}: {c}={x2!r}, {sc}={sh2!r} after update_coord")]
            S = Fraction(x) + Fraction(sh)
            slack = Fraction(math.ulp(x + sh))
            if not x2.is_integer():
                return [("corr:update-integral", f"{label}: particle {i}: {c}={x2!r} after update_coord is no integer (was {x!r} + {sh!r})")]
            if abs(sh2) > 0.5:
                return [("corr:update-shift-range", f"{label}: particle {i}: {sc}={sh2!r} after update_coord exceeds 1/2 (was {x!r} + {sh!r})")]
            if abs(Fraction(x2) + Fraction(sh2) - S) > slack:
                return [("update-position", f"{label}: particle {i}: {c}+{sc} = {x2!r}+{sh2!r} after update_coord, was {x!r}+{sh!r}")]
            if S.denominator == 2 and Fraction(x2) != S + (Fraction(1, 2) if S > 0 else Fraction(-1, 2)):
                return [("corr:update-tie", f"{label}: particle {i}: {x!r}+{sh!r} is an exact half, rounded to {x2!r} (not away from zero)")]
    return []


def _direct_export_file(step, f, label, reset):
    """via-file clauses: written file and re-loaded list against the list the object holds after write_out"""
    bad = []
    after = f["after"]["rows"]
    N = len(step["rows"])
    if SPECIFIER not in f["blocks"] or "cols" not in f:
        return [("file-block", f"{label}: blocks {f['blocks']}")]
    cols, toks = f["cols"], f["tokens"]
    need = [s for _, s in DOC_PAIRS] + ["halfset", "motl_idx"]
    miss = [c for c in need if c not in cols]
    if miss:
        return [("columns", f"{label}: file columns missing: {miss}")]
    if len(toks) != N or len(after) != N or any(len(r) != len(cols) for r in toks):
        return [("particle-count", f"{label}: {len(toks)} file rows (widths {sorted(set(len(r) for r in toks))} for {len(cols)} columns), {len(after)} in memory, {N} particles")]
    ci = {c: cols.index(c) for c in need}
    for i in range(N):
        a = {c: b2f(after[i][k]) for k, c in enumerate(MOTL_COLS)}
        for e, s in DOC_PAIRS:
            v = _tok(toks[i][ci[s]])
            if v is None or not (abs(v - a[e]) <= tol(a[e])):
                bad.append(("file-fields", f"{label}: particle {i}: column {s} reads {toks[i][ci[s]]!r}, field {e} is {a[e]!r}")); break
        if a["subtomo_id"].is_integer():
            want = "A" if _is_even(a["subtomo_id"]) else "B"
            if toks[i][ci["halfset"]] != want:
                bad.append(("file-halfset", f"{label}: particle {i}: subtomo {a['subtomo_id']!r} written with halfset {toks[i][ci['halfset']]!r}"))
        widx = float(i + 1) if reset else a["subtomo_id"]
        v = _tok(toks[i][ci["motl_idx"]])
        if v is None or not (abs(v - widx) <= tol(widx)):
            bad.append(("file-motl_idx", f"{label}: particle {i}: motl_idx written {toks[i][ci['motl_idx']]!r}, expected {widx!r}"))
        if bad:
            return bad
    if "load_error" in f:
        k, cl, det = _err_finding(f["load_error"], f"{label}: StopgapMotl(path) on the file just written")
        return [(cl if k == "spec" else "corr:" + cl, det)]
    L = f["loaded"]
    textual = [e for e, _ in DOC_PAIRS if L["kinds"].get(e, "O") not in "fiu"]
    if textual:
        return [("reload-fields", f"{label}: fields {textual} come back from the file as text, not numbers (dtypes {[L['dtypes'].get(e) for e in textual]})")]
    if L["cols"] != MOTL_COLS or len(L["rows"]) != N:
        return [("reload-shape", f"{label}: reloaded {len(L['rows'])} particles for {N} written, columns {L['cols'][:4]}...")]
    for i in range(N):
        for e, _ in DOC_PAIRS:
            k = MOTL_COLS.index(e)
            a, l = b2f(after[i][k]), _num(L["rows"][i][k])
            if l is None or not (abs(l - a) <= tol(a)):
                return [("reload-fields", f"{label}: particle {i}: field {e} reloaded as {_show(L['rows'][i][k])}, was {a!r}")]
    return bad


def _max_dev(obs):
    """largest |reloaded - held| / tol over the 14 shared fields (<= 1 means within STAR precision)"""
    d = 0.0
    for so in obs.get("steps", []):
        for key in ROUTES:
            f = so.get(key) or {}
            if "loaded" in f and "after" in f and len(f["loaded"]["rows"]) == len(f["after"]["rows"]) and f["loaded"]["cols"] == MOTL_COLS == f["after"]["cols"]:
                for ra, rl in zip(f["after"]["rows"], f["loaded"]["rows"]):
                    for e, _ in DOC_PAIRS:
                        k = MOTL_COLS.index(e)
                        if isinstance(ra[k], int) and isinstance(rl[k], int):
                            a = b2f(ra[k])
                            x = abs(a - b2f(rl[k])) / tol(a)
                            if x == x:
                                d = max(d, x)
    return d


def _judge_export_step(step, so, resps, tag, F):
    m0, m1, m2, m3, s1, s2, s3 = resps
    nonint = any(not b2f(r[3]).is_integer() for r in step["rows"])
    for r in (m0, m1, m2, m3):
        if "error" in r:
            F("corr", "model-rejects", f"{tag}{r.get('error')}")
            return
    for label in so.get("mutated", []):
        # the statement does not mention the caller's object (item 7 of audit 2): a disagreement with the model, which never touches
        # its input, not a violated clause
        F("corr", "input-mutated", f"{tag}{label} changed the caller's DataFrame (values, dtypes, columns or index) in place")
    want = dict(reset=bool(step["reset"]), update=bool(step["update"]))
    wants = {"mem": dict(want, update=False), "file": want, "conv": want, "wrap": dict(reset=False, update=False)}   # the wrapper passes no keyword
    for r, route in ((m0, "mem"), (m1, "file"), (m2, "conv"), (m3, "wrap")):
        eff = dict(r["eff"], update=False if route == "mem" else r["eff"]["update"])
        if eff != wants[route]:
            F("corr", "defaults-vs-model", f"{tag}{route}: keywords {step['reset']!r}/{step['update']!r} mean {wants[route]} by the documented defaults, the model (source defaults) uses {r['eff']}")
        if not r.get("round_agrees", True):
            F("corr", "round-vs-exact-rule", f"{tag}{route}: the hardware rounding the driver executes disagrees with the proved exact rule ratRoundAway on a float sum x+shift of this list")
        if not r.get("decode_agrees", True):
            F("corr", "decode-vs-float", f"{tag}{route}: exact integer decoding of a subtomogram number disagrees with the hardware float (or float mod 2 with integer parity)")
    # ---- in memory: Lean verified checker + direct evaluation + model equality
    mem = so["mem"]
    if "error" in mem:
        F(*_err_finding(mem, f"{tag}convert_to_sg_motl"))
    else:
        direct = _direct_export_mem(step, mem)
        chk = m0.get("out")
        names = {"cols": "columns", "fields": "fields-copied", "halfset": "halfset-parity", "motl_idx": "motl_idx"}
        lean_bad = ["columns"] if chk is None else [names[k] for k in ("cols", "fields", "halfset", "motl_idx") if not chk[k]]
        for cl, det in direct:
            F("spec", cl, f"{tag}in memory: " + det)
        for cl in lean_bad:
            if not any(c == cl or c in ("columns", "particle-count") for c, _ in direct):
                # the proved checker rejects, the direct evaluation did not see it (e.g. only column order differs, or the number is no integer)
                soft = cl == "columns" or (cl == "halfset-parity" and nonint)
                F("corr" if soft else "spec", cl + "(lean-checker)", f"{tag}in memory: verified checker rejects clause {cl}; cols={mem['cols']}")
        if direct and not lean_bad:
            F("corr", "checker-vs-direct", f"{tag}direct evaluation fails {direct[0]} but the verified checker accepts")
        if not direct and not lean_bad:
            if mem["cols"] != m0["table"]["cols"] or mem["rows"] != m0["table"]["rows"]:
                F("corr", "mem-vs-model", f"{tag}convert_to_sg_motl output differs from the model table outside the property's clauses")
            # dtypes of the columns are recorded in stats (the statement says nothing about them; a numeric field returned as TEXT is
            # caught above by `fields-copied`)
    # ---- via file (three routes: StopgapMotl.write_out, emmotl2stopgap, and the wrappers Motl.write_out / Motl.load)
    for key, mr, sr in (("file", m1, s1), ("conv", m2, s2), ("wrap", m3, s3)):
        f = so[key]
        w = wants[key]
        if "error" in f:
            F(*_err_finding(f, f"{tag}{key}")); continue
        # the proved reader against the harness tokenizer and the column typing (both only read the file the library wrote)
        if _star_text(f) and "cols" in f:
            if "error" in sr:
                if all(c in DOC_COLUMNS for c in f["cols"]) and f["tokens"]:
                    F("corr", "lean-reader-rejects", f"{tag}{key}: the proved STAR reader rejects the written file: {sr['error']}")
            elif sr["cols"] != f["cols"] or [[c[1] for c in r] for r in sr["rows"]] != f["tokens"]:
                F("corr", "lean-reader-vs-tokenizer", f"{tag}{key}: the proved STAR reader and the harness tokenizer read different tables from the written file")
            else:
                texty = sorted({c for r in sr["rows"] for c, cell in zip(sr["cols"], r) if cell[0] == "s"})
                if texty != ["halfset"]:
                    F("corr", "lean-reader-column-typing", f"{tag}{key}: the proved STAR reader types columns {texty} as text (expected exactly halfset)")
        cc = f.get("ctor_copy")
        if cc is not None and not (cc.get("same") and cc.get("type") == "StopgapMotl"):
            F("corr", "ctor-copy", f"{tag}{key}: StopgapMotl(<StopgapMotl>) does not hold a copy of the same particle list: {str(cc)[:200]}")
        bad = _direct_update(step, f["after"], w["update"], f"{tag}{key}")
        if not bad:
            bad = _direct_export_file(step, f, f"{tag}{key}", w["reset"])
        for cl, det in bad:
            if cl.startswith("corr:"):
                F("corr", cl[5:], det)
            elif cl == "held-list-other":
                F("corr", cl, det)
            else:
                F("spec", cl, det)
        if bad:
            continue
        if key == "wrap" and f.get("loaded_type") != "StopgapMotl":
            F("corr", "wrapper-type", f"{tag}wrap: Motl.load(path, 'stopgap') returned a {f.get('loaded_type')}")
        if f["after"]["rows"] != mr["updated"]:
            i = next((i for i, (a, b) in enumerate(zip(f["after"]["rows"], mr["updated"])) if a != b), -1)
            F("corr", "list-after-write-vs-model", f"{tag}{key}: particle list held after the call (update_coord={w['update']}) differs from the model at particle {i}")
            continue
        mt = mr["table"]
        if f["cols"] != mt["cols"]:
            F("corr", "file-header-vs-model", f"{tag}{key}: header {f['cols']}")
            continue
        stop = False
        for i, (tr, mrow) in enumerate(zip(f["tokens"], mt["rows"])):
            for c, t, mc in zip(mt["cols"], tr, mrow):
                okc = (t == mc) if isinstance(mc, str) else (_tok(t) is not None and abs(_tok(t) - b2f(mc)) <= tol(b2f(mc)))
                if not okc:
                    F("corr", "file-vs-model", f"{tag}{key}: row {i} column {c}: token {t!r}, model {mc if isinstance(mc, str) else b2f(mc)!r}")
                    stop = True
                    break
            if stop:
                break
    # ---- history: the list LOADED from the file of this step, edited in place / re-centred, written again.  The second file is
    # judged by the same direct evaluations as a first export, against the list the loaded object held right before the call
    # (independent of the model: spec)
    h = so.get("hist")
    if h is not None:
        hs = step["hist"]
        label = f"{tag}history (write -> StopgapMotl(path) -> " + ("edit in place -> " if hs.get("edit") is not None else "") + f"write_out(update_coord={hs['update']}, reset_index={hs['reset']}))"
        if "error" in h:
            F(*_err_finding(h, label))
        elif h["before"]["cols"] != MOTL_COLS or any(not isinstance(b, int) for r in h["before"]["rows"] for b in r):
            F("corr", "history-list-not-numeric", f"{label}: the list loaded from the written file is not a numeric 20-column list")
        else:
            pseudo = dict(rows=h["before"]["rows"])
            bad = _direct_update(pseudo, h["after"], bool(hs["update"]), label)
            if not bad:
                bad = _direct_export_file(pseudo, h, label, bool(hs["reset"]))
            for cl, det in bad:
                if cl.startswith("corr:"):
                    F("corr", cl[5:], det)
                elif cl == "held-list-other":
                    F("corr", cl, det)
                else:
                    F("spec", cl, det)


def judge(case, obs, resps):
    out = []
    F = lambda kind, clause, detail: out.append(dict(kind=kind, clause=clause, detail=detail))
    if "error" in obs:      # raised outside the guarded calls (harness code) or reported by the framework
        F(*_err_finding(obs, "run_impl"))
        return out
    if case["kind"] == "export":
        steps = _steps(case)
        if len(obs["steps"]) != len(steps) or len(resps) != PER_STEP * len(steps):
            F("corr", "harness-or-library-raised", f"{len(obs['steps'])} observed steps, {len(resps)} model answers for {len(steps)} steps")
            return out
        for k, step in enumerate(steps):
            tag = "" if len(steps) == 1 else (f"step {k + 1} of 2 (same paths" + (", caller's frame edited in place" if step.get("mode") == "mutate" else "") + "): ")
            _judge_export_step(step, obs["steps"][k], resps[PER_STEP * k:PER_STEP * (k + 1)], tag, F)
        return out
    # ---- import
    model = resps[0]
    routes = _import_routes(obs)
    text_cell = case.get("text_cell")
    for name in obs.get("mutated", []):
        F("corr", "input-mutated", f"{name} changed the caller's STOPGAP DataFrame in place")
    if text_cell is not None:
        # outside the quantifier (a text cell in a numeric column): the model must reject it, nothing is demanded of the library
        if model.get("error") != "reject:text-in-numeric-column":
            F("corr", "model-accepts-text-cell", str(model)[:200])
        return out
    for name, o in routes.items():
        if case.get("missing") is not None:
            if "reject" not in o:
                F("corr", "import-accepts-missing-column", f"{name}: column {case['missing']} missing but accepted")
            continue
        if "reject" in o:
            F("spec", "import-raises", f"{name}: KeyError {o['detail']}"); continue
        if "error" in o:
            F(*_err_finding(o, name)); continue
        N = len(case["rows"])
        if o["cols"] != MOTL_COLS or len(o["rows"]) != N:
            F("spec", "particle-count", f"{name}: {len(o['rows'])} particles for {N} rows, columns {o['cols'][:4]}..."); continue
        textual = [e for e, _ in DOC_PAIRS if o["kinds"].get(e, "O") not in "fiu"]
        if textual:
            F("spec", "import-fields-copied", f"{name}: fields {textual} are not numeric after the import (dtypes {[o['dtypes'].get(e) for e in textual]})"); continue
        ci = {c: case["cols"].index(c) for _, c in DOC_PAIRS}
        done = False
        for i in range(N):
            for e, s in DOC_PAIRS:
                a, b = case["rows"][i][ci[s]], o["rows"][i][MOTL_COLS.index(e)]
                if _num(b) is None or b2f(a) != _num(b):          # equal VALUE; any numeric dtype is accepted
                    F("spec", "import-fields-copied", f"{name}: particle {i}: field {e} is {_show(b)}, column {s} holds {b2f(a)!r}"); done = True; break
            if done:
                break
    if case.get("missing") is not None:
        if model.get("error") != "reject:keyerror":
            F("corr", "model-accepts-missing-column", str(model)[:200])
        return out
    if "error" in model:
        F("corr", "model-rejects", str(model)); return out
    if "check" in model and model["check"] is not True and not any(f["kind"] == "spec" for f in out):
        F("spec", "import-fields-copied(lean-checker)", "verified checker rejects the imported list")
    if model.get("check") is True and any(f["clause"] == "import-fields-copied" for f in out) and len({str(o.get("rows")) for o in routes.values()}) == 1:
        F("corr", "checker-vs-direct", "direct evaluation fails but the verified checker accepts the imported list")
    for name, o in routes.items():
        if "rows" in o and not any(f["kind"] == "spec" for f in out):
            shared = {MOTL_COLS.index(e) for e, _ in DOC_PAIRS}
            # the six fields STOPGAP does not have: NaN after StopgapMotl(...), 0.0 after EmMotl(...) (fillna) -- not part of the property
            canon = lambda rows: [[(b if k in shared else ("fill" if (not isinstance(b, int) or math.isnan(b2f(b)) or b2f(b) == 0.0) else b)) for k, b in enumerate(r)] for r in rows]
            if canon(o["rows"]) != canon(model["motl"]):
                F("corr", "import-vs-model", f"{name}: imported list differs from the model")
    return out


def classify(case, obs, finding):
    return None


def nontrivial(case, obs):
    n = len(case["rows"])
    if n < 2 or "error" in obs:
        return False
    if case["kind"] == "import":
        return case["cols"] != DOC_COLUMNS and case.get("missing") is None and case.get("text_cell") is None
    ids = [b2f(r[3]) for r in case["rows"]]
    par = {_is_even(x) for x in ids}
    shared = [MOTL_COLS.index(e) for e, _ in DOC_PAIRS]
    rich = all(len({r[k] for k in shared}) >= 10 for r in case["rows"])
    return len(par) == 2 and ids != [float(i + 1) for i in range(n)] and rich


def _id_kind(ids):
    if any(not x.is_integer() for x in ids):
        return "non-integral"
    if any(abs(x) >= 2.0 ** 53 for x in ids):
        return "beyond-2^53"
    if any(x < 0 for x in ids):
        return "negative"
    return "non-negative-int"


def stats(case, obs, resps):
    n = len(case["rows"])
    s = {"kind": case["kind"], "N": "1" if n == 1 else ("2-10" if n <= 10 else ("11-40" if n <= 40 else ("41-255" if n <= 255 else "256-300"))),
         "N_boundary": str(n) if n in BOUNDARY_COUNTS else "other", "repeated_rows": case.get("repeated", "none")}
    opt = lambda v: "omitted" if v is None else str(bool(v))
    if case["kind"] == "export":
        ids = [b2f(r[3]) for r in case["rows"]]
        sec = case.get("second")
        s.update({"reset": opt(case["reset"]), "update": opt(case["update"]), "index": case["index"], "id_dtype": "int64" if case["int_ids"] else "float64",
                  "int64_columns": "all" if case.get("int_cols") == MOTL_COLS else ("ids+coords" if case.get("int_cols") else ("ids" if case["int_ids"] else "none")),
                  "wrapper_call": "keyword" if case.get("wrap_kw") else "positional",
                  "history": "none" if not case.get("hist") else ("+".join(k for k, on in (("edit", case["hist"].get("edit") is not None), ("update", bool(case["hist"]["update"])), ("reset", bool(case["hist"]["reset"]))) if on) or "plain"),
                  "col_order": "canonical" if case["cols"] == MOTL_COLS else "shuffled",
                  "parity": "both" if len({_is_even(x) for x in ids}) == 2 else ("all-even" if _is_even(ids[0]) else "all-odd"),
                  "ids": "sequential" if ids == [float(i + 1) for i in range(n)] else "non-sequential", "id_values": _id_kind(ids),
                  "second_step": "none" if not sec else (sec["mode"] + ("/same-count" if len(sec["rows"]) == n else "/other-count"))})
        if sec:
            s["second_reset"], s["second_update"] = opt(sec["reset"]), opt(sec["update"])
        if "error" not in obs:
            d = _max_dev(obs)
            s["max_reload_deviation_over_tol"] = "0" if d == 0 else ("<=0.01" if d <= 0.01 else ("<=0.5" if d <= 0.5 else ("<=1" if d <= 1 else ">1")))
            mem = obs["steps"][0].get("mem", {})
            s["motl_idx_dtype"] = mem.get("dtypes", {}).get("motl_idx", "?")
            s["halfset_dtype"] = mem.get("dtypes", {}).get("halfset", "?")
            # dtypes are observations, not clauses: recorded here, never judged (any numeric dtype with equal values is accepted)
            s["mem_dtypes_of_14"] = ",".join(sorted({str(mem.get("dtypes", {}).get(c, "?")) for _, c in DOC_PAIRS}))
            for key in ROUTES:
                f = obs["steps"][0].get(key) or {}
                if "loaded" in f:
                    s[f"reloaded_dtypes_{key}"] = ",".join(sorted({str(f["loaded"]["dtypes"].get(e, "?")) for e, _ in DOC_PAIRS}))
                s[f"route_{key}"] = "error" if "error" in f else ("load-error" if "load_error" in f else "ok")
            if case["update"]:                     # exact halves of x+shift by sign and axis (the tie rule is exercised on both signs, all axes)
                from fractions import Fraction
                ties = set()
                for r in case["rows"]:
                    for c in "xyz":
                        S = Fraction(b2f(r[MOTL_COLS.index(c)])) + Fraction(b2f(r[MOTL_COLS.index("shift_" + c)]))
                        if S.denominator == 2:
                            ties.add(("neg-" if S < 0 else "pos-") + c)
                s["update_exact_halves"] = sorted(ties) or ["none"]
            if resps and len(resps) >= 2 and "updated" in resps[1] and resps[1].get("eff", {}).get("update"):
                moved = sum(1 for a, b in zip(case["rows"], resps[1]["updated"]) if a != b)
                s["update_moved"] = "some" if moved else "none"
    else:
        routes = _import_routes(obs)
        s.update({"col_order": "documented" if case["cols"] == DOC_COLUMNS else "permuted", "extra_col": bool(case.get("extra")),
                  "missing_col": case.get("missing") or "none", "index": case.get("index", "range"), "text_cell": case.get("text_cell") is not None,
                  "int64_columns": "all" if case.get("int_all") else ("ids" if case["int_ids"] else "none"),
                  "field_dtypes": ",".join(sorted({str(o["dtypes"].get(e, "?")) for o in routes.values() if "dtypes" in o for e, _ in DOC_PAIRS})) or "-",
                  "outcome": ",".join(sorted({("reject" if "reject" in o else ("error" if "error" in o else "ok")) for o in routes.values()})) if "error" not in obs else "error"})
    return s


def sample_view(case):
    v = {k: case[k] for k in case if k not in ("rows", "labels", "second")}
    v["n_rows"] = len(case["rows"])
    v["first_row"] = [c if isinstance(c, str) else b2f(c) for c in case["rows"][0]]
    if "labels" in case:
        v["labels"] = case["labels"][:8]
    if case.get("second"):
        sec = case["second"]
        v["second"] = dict({k: sec[k] for k in sec if k not in ("rows", "labels", "cols")}, n_rows=len(sec["rows"]))
    return v


def probes(rng):
    """assumptions about pandas / decimal the model relies on"""
    import pandas as pd, numpy as np, decimal
    out = []
    xs = [rng.uniform(-1e6, 1e6) for _ in range(200)] + [0.5, 1.5, 2.5, -0.5, -1.5, -2.5, 0.49999999999999994, 4503599627370497.5, -0.0]
    py = [float(decimal.Decimal(x).to_integral_value(rounding=decimal.ROUND_HALF_UP)) for x in xs]
    c = [math.copysign(math.floor(abs(x)) + (1.0 if abs(x) - math.floor(abs(x)) >= 0.5 else 0.0), x) for x in xs]
    ok = all(a == b for a, b in zip(py, c))
    out.append(dict(name="Decimal ROUND_HALF_UP = half away from zero", ok=ok, detail="" if ok else str([(x, a, b) for x, a, b in zip(xs, py, c) if a != b][:3])))
    ids = [rng.randint(0, 2 ** 40) for _ in range(200)] + [0.0, 1e17, 2.0 ** 53 + 2]
    s = pd.Series(np.array(ids, dtype=float))
    got = s.mod(2).eq(0).tolist()
    want = [math.fmod(float(x), 2.0) == 0.0 for x in ids]
    out.append(dict(name="Series.mod(2).eq(0) = even integer", ok=got == want, detail=""))
    df = pd.DataFrame({"a": [1.0, 2.0, 3.0]}, index=[2, 0, 1])
    z = pd.DataFrame({"b": [0.0, 0.0, 0.0]})
    z["b"] = df["a"].to_numpy()
    out.append(dict(name="df[col] = ndarray assigns by position", ok=z["b"].tolist() == [1.0, 2.0, 3.0], detail=""))
    r = pd.DataFrame({"a": [0.1234565, 2.5e-6, 1234.00000049, -7.0]}).round(6)["a"].tolist()
    ok = all(abs(a - b) <= 5e-7 + 1e-12 for a, b in zip(r, [0.1234565, 2.5e-6, 1234.00000049, -7.0])) and all(float(str(x)) == x for x in r)
    out.append(dict(name="DataFrame.round(6) within 5e-7; float(str(x)) == x", ok=ok, detail=str(r)))
    return out


LEVEL_TEXT = ("Lean 4 theorems about an executable model of StopgapMotl.convert_to_sg_motl / sg_df_reset_index / convert_to_motl / write_out "
              "(+ Motl.update_coordinates), for every particle list of any length and arbitrary cell values: pairs_documented, pairs_bijective, "
              "export_rows (14 fields unchanged under the documented renaming, same order; halfset by parity; motl_idx = subtomogram number or 1..N), "
              "halfset_even_odd (over Int), halfset_even_odd_bits / check_parity_sound (on exactly decoded IEEE bit patterns, any sign and magnitude), "
              "motl_idx_spec, omitted_keywords + defaults_documented (an omitted reset_index / update_coord means False), model_spec, check_sound/check_complete "
              "(verified checker run on the real output), import_rows (any column order; a text cell or ragged table is rejected, never read as a fill value), "
              "checkImport_sound/checkImport_complete (the import checker accepts exactly the lists meeting SpecImport), motlWriteOut_spec / via_file_wrappers "
              "(the wrappers Motl.write_out / Motl.load with motl_type='stopgap'), updateCoord_recentred / updateCoord_rat / updateCoord_rat_ties (update_coord over "
              "exact arithmetic: integer coordinate, |shift| <= 1/2, position kept, halves away from zero on both signs), "
              "fromSg_toSg, toSg_fromSg, export_update_coord, via_file and via_file_c02 (the file round trip PROVED from C02's typed_roundtrip for the C02 model "
              "of Starfile.write/read: star_layer_roundtrip discharges the former abstract round-trip hypothesis. What is proved is WHERE every field goes -- same "
              "particles, same order, each of the 14 fields = print-then-parse of that one field; print-then-parse itself (value<->digits) is an ARBITRARY "
              "parameter, so 'to STAR precision' has no theorem: it is the harness tolerance. One hypothesis on the printer remains: the numbers of the table "
              "written are printed as number cells (via_file_c02_cells / via_file_wrappers; via_file_c02 asks it of every value, which no faithful float printer "
              "meets because of NaN); the fillna(0) of write_out is pinned and executed but not modelled). "
              "Tied to the source by regenerated tables (pairs, columns, the halfset expression literals, statement order, motl_idx source, reset range, block "
              "name, STAR precision, by-position assignment, eight signature defaults, the 'stopgap' branches of Motl.write_out / Motl.load, one digest theorem per "
              "entry point for the normalised bodies of the eight entry points -- annotations, message texts, local names and operator spellings neutralised) and by an "
              "exact differential run of the real code (in memory; via file to 5e-7) against the model, incl. two-step histories on the same paths / frame")
LEVEL_NOTE = ("via_file_c02(_cells) is proved relative to the C02 model of the STAR layer and under the hypothesis that the printer prints the numbers of the written "
              "table as number cells (tables without NaN; write_out's fillna(0) is not in the model); the clause 'reproduces all 14 fields to STAR precision' has NO "
              "theorem: the numeric conversion value -> digits -> value (round(6), repr, to_numeric) is an arbitrary parameter of the theorems and is "
              "validated, not proved (file comparisons at tolerance 5e-7+16ulp); the parity theorems (halfset_even_odd, _bits, halfset_parity_float_ids) are about the "
              "model at exact integer parity (intOps / intBitOps = what the verified checker runs on the real output), the executed float modulo of the driver is "
              "linked to them only by the run-time cross-check decode_agrees; trusted: Lean kernel, translator AST extraction, harness STAR tokenizer, exact "
              "bit decoding (cross-checked at run time), pandas positional/label assignment semantics, Decimal ROUND_HALF_UP = Float.round (probed)")
TECHNIQUE = "Lean 4 proof (fold invariants over an arbitrary injective renaming table, list induction, bridge to the C02 STAR model) + regenerated tables + verified checker + differential correspondence with cross-call histories"
DESIGN_REF = "DESIGN.md section 4, C04"
