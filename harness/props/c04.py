"""C04 — STOPGAP <-> cryoCAT conversion is a lossless renaming with parity half-sets (DESIGN.md section 4, C04)."""
import os, ast, math, tempfile, warnings
import core
from core import f2b, b2f

PROP = "C04"
COUNT = {"quick": 150, "thorough": 3000, "search": 600}
PARALLEL = True

MOTL_COLS = ["score", "geom1", "geom2", "subtomo_id", "tomo_id", "object_id", "subtomo_mean", "x", "y", "z",
             "shift_x", "shift_y", "shift_z", "geom3", "geom4", "geom5", "phi", "psi", "theta", "class"]
# the documented renaming (written by hand here, independently of the source and of the Lean side)
DOC_PAIRS = [("subtomo_id", "subtomo_num"), ("tomo_id", "tomo_num"), ("object_id", "object"), ("x", "orig_x"), ("y", "orig_y"),
             ("z", "orig_z"), ("score", "score"), ("shift_x", "x_shift"), ("shift_y", "y_shift"), ("shift_z", "z_shift"),
             ("phi", "phi"), ("psi", "psi"), ("theta", "the"), ("class", "class")]
DOC_COLUMNS = ["motl_idx", "tomo_num", "object", "subtomo_num", "halfset", "orig_x", "orig_y", "orig_z", "score",
               "x_shift", "y_shift", "z_shift", "phi", "psi", "the", "class"]
SPECIFIER = "data_stopgap_motivelist"
MAXABS = 1e15
ID_COLS = ["subtomo_id", "tomo_id", "object_id", "class"]

RULE = ("export cases: particle lists of N in 1..300 particles (quick: mostly <=40), the 20 fields drawn from realistic values (integer/fractional "
        "coordinates, shifts incl. exact .5 ties, angles, scores with many decimals) and arbitrary finite values |v|<1e15 (gauss*10^k, k in -8..14, +-0), "
        "non-sequential non-negative subtomogram numbers (random, repeated, large, 0), id columns as float64 or int64, DataFrame columns in canonical or "
        "shuffled order, row index default / filtered (gaps) / shuffled labels / offset, x reset_index x update_coord; each case is run in memory "
        "(StopgapMotl.convert_to_sg_motl), via file (StopgapMotl(df).write_out -> own STAR parser -> StopgapMotl(path)) and through emmotl2stopgap. "
        "import cases: STOPGAP tables with the 16 columns in any order (sometimes one extra column; rarely one of the 14 columns missing -> KeyError "
        "expected), through StopgapMotl(sg_df) and stopgap2emmotl(sg_df). non-trivial = N>=2 and (export: subtomogram numbers of both parities, not "
        "equal to 1..N, at least 10 distinct values among the 14 shared fields of a particle; import: column order != documented order); "
        "distinct = distinct case content")
ASSUMPTIONS = [
    "STAR layer (Starfile.write/read) round-trips a well-formed table, numbers to 6 decimals (property C02; parameter `StarRoundTrip` of theorem via_file); "
    "observed each run: every written file is parsed by the harness's own tokenizer and re-read by StopgapMotl(path)",
    "pandas: `df[col] = ndarray` assigns by position, `df[col] = Series` aligns on index labels; `Series.mod(2).eq(0)` is numpy floored modulo "
    "(driver: x - 2*floor(x/2) == 0, exact for finite float64)",
    "decimal.Decimal(x).to_integral_value(ROUND_HALF_UP) on a float64 = C round() (half away from zero) = Lean Float.round (compared bit-exactly each run)",
    "numpy float64 +,- = IEEE binary64 = Lean Float (compared bit-exactly in update_coordinates)",
    "pandas.to_numeric parses decimal text to within a few ulp (not correctly rounded; 3 ulp seen at |v|~2e12): the via-file tolerance is 5e-7 + 16 ulp",
    "field values are finite with |v| < 1e15 (DataFrame.round(6) overflows to inf above 1.8e302; not generated)",
]
TRUSTED = ["harness STAR tokenizer for the written file (props/c04.py parse_star)", "AST extraction in props/c04.py translate()"]


# ------------------------------------------------------------------------------------------ translator
def _is_sub(node, base, key=None):
    """node is `base[<key>]` (key: Name id or constant string; None = anything)"""
    if not (isinstance(node, ast.Subscript) and isinstance(node.value, (ast.Name, ast.Attribute)) and ast.unparse(node.value) == base):
        return False
    if key is None:
        return True
    sl = node.slice
    return (isinstance(sl, ast.Name) and sl.id == key) or (isinstance(sl, ast.Constant) and sl.value == key)


def _strip_positional(node):
    """`X.to_numpy()` / `X.values` / `X.array` -> (X, True); else (node, False)"""
    if isinstance(node, ast.Call) and isinstance(node.func, ast.Attribute) and node.func.attr in ("to_numpy", "to_list", "tolist") and not node.args:
        return node.func.value, True
    if isinstance(node, ast.Attribute) and node.attr in ("values", "array"):
        return node.value, True
    return node, False


def _pairs_loop(fn):
    """the `for a, b in StopgapMotl.pairs.items(): T[..] = S[..]` loop of fn -> (a, b, target, value)"""
    for n in ast.walk(fn):
        if isinstance(n, ast.For) and isinstance(n.target, ast.Tuple) and len(n.target.elts) == 2 \
                and ast.unparse(n.iter).endswith("pairs.items()") and len(n.body) == 1 and isinstance(n.body[0], ast.Assign) \
                and len(n.body[0].targets) == 1:
            a, b = (e.id for e in n.target.elts)
            return a, b, n.body[0].targets[0], n.body[0].value
    raise core.AnchorMissing("loop over StopgapMotl.pairs.items() with a single assignment")


def translate(src):
    rel = "cryocat/cryomotl.py"
    pairs = src.anchor("StopgapMotl.pairs", lambda: [[k, v] for k, v in src.literal(src.class_attr(rel, "StopgapMotl", "pairs")).items()])
    columns = src.anchor("StopgapMotl.columns", lambda: src.literal(src.class_attr(rel, "StopgapMotl", "columns")))

    def zeros_width():
        fn = src.find(rel, "StopgapMotl.convert_to_sg_motl")
        for n in ast.walk(fn):
            if isinstance(n, ast.Call) and ast.unparse(n.func) in ("np.zeros", "numpy.zeros") and n.args and isinstance(n.args[0], ast.Tuple) \
                    and len(n.args[0].elts) == 2 and isinstance(n.args[0].elts[1], ast.Constant) and "shape[0]" in ast.unparse(n.args[0].elts[0]):
                return int(n.args[0].elts[1].value)
        raise core.AnchorMissing("convert_to_sg_motl: np.zeros((motl_df.shape[0], <const>))")

    width = src.anchor("convert_to_sg_motl:zeros-width", zeros_width)

    def export_loop():
        a, b, tgt, val = _pairs_loop(src.find(rel, "StopgapMotl.convert_to_sg_motl"))
        inner, positional = _strip_positional(val)
        if not (_is_sub(tgt, "stopgap_df", b) and _is_sub(inner, "motl_df", a)):
            raise core.AnchorMissing(f"convert_to_sg_motl loop is not `stopgap_df[{b}] = motl_df[{a}]`: {ast.unparse(tgt)} = {ast.unparse(val)}")
        return [True, positional]

    exp = src.anchor("convert_to_sg_motl:loop stopgap_df[star_key]=motl_df[em_key] (by position)", export_loop)

    def import_loop():
        a, b, tgt, val = _pairs_loop(src.find(rel, "StopgapMotl.convert_to_motl"))
        if not (_is_sub(tgt, "self.df", a) and _is_sub(val, "stopgap_df", b)):
            raise core.AnchorMissing(f"convert_to_motl loop is not `self.df[{a}] = stopgap_df[{b}]`: {ast.unparse(tgt)} = {ast.unparse(val)}")
        return True

    imp = src.anchor("convert_to_motl:loop self.df[em_key]=stopgap_df[star_key]", import_loop)

    def halfset():
        fn = src.find(rel, "StopgapMotl.convert_to_sg_motl")
        for n in ast.walk(fn):
            if isinstance(n, ast.Assign) and len(n.targets) == 1 and _is_sub(n.targets[0], "stopgap_df", "halfset"):
                v = n.value
                if not (isinstance(v, ast.Call) and ast.unparse(v.func) in ("np.where", "numpy.where") and len(v.args) == 3):
                    break
                cond, _ = _strip_positional(v.args[0])
                # motl_df[SRC].mod(M).eq(K)
                if not (isinstance(cond, ast.Call) and isinstance(cond.func, ast.Attribute) and cond.func.attr == "eq" and len(cond.args) == 1):
                    break
                m = cond.func.value
                if not (isinstance(m, ast.Call) and isinstance(m.func, ast.Attribute) and m.func.attr == "mod" and len(m.args) == 1):
                    break
                s = m.func.value
                if not (_is_sub(s, "motl_df") and isinstance(s.slice, ast.Constant)):
                    break
                vals = [src.literal(x) for x in (m.args[0], cond.args[0], v.args[1], v.args[2])]
                if not (isinstance(vals[0], int) and isinstance(vals[1], int) and vals[0] >= 0 and vals[1] >= 0 and isinstance(vals[2], str) and isinstance(vals[3], str)):
                    break
                return [s.slice.value] + vals
        raise core.AnchorMissing('convert_to_sg_motl: stopgap_df["halfset"] = np.where(motl_df[<col>].mod(<m>).eq(<k>)[.to_numpy()], <a>, <b>)')

    half = src.anchor("convert_to_sg_motl:halfset = np.where(subtomo_id.mod(2).eq(0), A, B)", halfset)

    def motl_idx():
        fn = src.find(rel, "StopgapMotl.convert_to_sg_motl")
        for n in ast.walk(fn):
            if isinstance(n, ast.Assign) and len(n.targets) == 1 and _is_sub(n.targets[0], "stopgap_df", "motl_idx"):
                if _is_sub(n.value, "stopgap_df") and isinstance(n.value.slice, ast.Constant):
                    return n.value.slice.value
        raise core.AnchorMissing('convert_to_sg_motl: stopgap_df["motl_idx"] = stopgap_df[<col>]')

    idx_src = src.anchor("convert_to_sg_motl:motl_idx source column", motl_idx)

    def reset_range():
        fn = src.find(rel, "StopgapMotl.sg_df_reset_index")
        for n in ast.walk(fn):
            if isinstance(n, ast.If) and ast.unparse(n.test) == "reset_index":
                for st in n.body:
                    if isinstance(st, ast.Assign) and _is_sub(st.targets[0], "stopgap_df", "motl_idx") and isinstance(st.value, ast.Call) \
                            and ast.unparse(st.value.func) == "range" and len(st.value.args) == 2 and isinstance(st.value.args[0], ast.Constant):
                        start, stop = st.value.args
                        if ast.unparse(stop) == "stopgap_df.shape[0]":
                            return [int(start.value), 0]
                        if isinstance(stop, ast.BinOp) and isinstance(stop.op, ast.Add) and ast.unparse(stop.left) == "stopgap_df.shape[0]" \
                                and isinstance(stop.right, ast.Constant):
                            return [int(start.value), int(stop.right.value)]
        raise core.AnchorMissing('sg_df_reset_index: if reset_index: stopgap_df["motl_idx"] = range(<start>, stopgap_df.shape[0] + <k>)')

    rr = src.anchor("sg_df_reset_index:range(1, N+1)", reset_range)

    def write_spec():
        fn = src.find(rel, "StopgapMotl.write_out")
        txt = ast.unparse(fn)
        if "convert_to_sg_motl(self.df, reset_index)" not in txt.replace("reset_index=reset_index", "reset_index"):
            raise core.AnchorMissing("write_out: convert_to_sg_motl(self.df, reset_index)")
        for n in ast.walk(fn):
            if isinstance(n, ast.Call) and ast.unparse(n.func).endswith("Starfile.write"):
                for kw in n.keywords:
                    if kw.arg == "specifiers":
                        v = src.literal(kw.value)
                        if isinstance(v, list) and len(v) == 1:
                            return v[0]
        raise core.AnchorMissing("write_out: Starfile.write(..., specifiers=[<const>])")

    wspec = src.anchor("write_out:specifier", write_spec)

    def write_order():
        """`if update_coord: self.update_coordinates()` comes before the conversion in write_out"""
        fn = src.find(rel, "StopgapMotl.write_out")
        upd = conv = None
        for n in ast.walk(fn):
            if isinstance(n, ast.If) and ast.unparse(n.test) == "update_coord" and "self.update_coordinates()" in ast.unparse(n):
                upd = n.lineno
            if isinstance(n, ast.Call) and ast.unparse(n.func).endswith("convert_to_sg_motl"):
                conv = n.lineno
        if upd is None or conv is None or not upd < conv:
            raise core.AnchorMissing("write_out: `if update_coord: self.update_coordinates()` before convert_to_sg_motl")
        return True

    src.anchor("write_out:update_coordinates before conversion", write_order)

    def converter():
        fn = src.find(rel, "emmotl2stopgap")
        txt = ast.unparse(fn)
        need = ["sg_motl = StopgapMotl(motl.df)", "if update_coordinates:\n        sg_motl.update_coordinates()",
                "sg_motl.write_out(output_motl_path, update_coord=False, reset_index=reset_index)"]
        miss = [x for x in need if x not in txt]
        if miss:
            raise core.AnchorMissing(f"emmotl2stopgap: {miss}")
        fn2 = src.find(rel, "stopgap2emmotl")
        txt2 = ast.unparse(fn2)
        need2 = ["sg_motl = StopgapMotl(input_motl)", "em_motl = EmMotl(sg_motl.df)"]
        miss = [x for x in need2 if x not in txt2]
        if miss:
            raise core.AnchorMissing(f"stopgap2emmotl: {miss}")
        return True

    src.anchor("emmotl2stopgap/stopgap2emmotl: go through StopgapMotl, pass reset_index", converter)

    def read_spec():
        fn = src.find(rel, "StopgapMotl.read_in")
        for n in ast.walk(fn):
            if isinstance(n, ast.Compare) and isinstance(n.left, ast.Constant) and isinstance(n.ops[0], (ast.NotIn, ast.In)) and ast.unparse(n.comparators[0]) == "specifiers":
                return n.left.value
        raise core.AnchorMissing('read_in: "<specifier>" not in specifiers')

    rspec = src.anchor("read_in:specifier", read_spec)

    def precision():
        fn = src.find("cryocat/starfileio.py", "Starfile.write")
        names = [a.arg for a in fn.args.args]
        defaults = dict(zip(names[len(names) - len(fn.args.defaults):], fn.args.defaults))
        if "float_precision" not in defaults:
            raise core.AnchorMissing("Starfile.write(float_precision=<const>)")
        return int(src.literal(defaults["float_precision"]))

    prec = src.anchor("Starfile.write:float_precision", precision)

    ok_pairs = isinstance(pairs, list) and all(isinstance(k, str) and isinstance(v, str) for k, v in pairs)
    pairs = pairs if ok_pairs else [list(p) for p in DOC_PAIRS]
    columns = columns if isinstance(columns, list) and all(isinstance(c, str) for c in columns) else DOC_COLUMNS
    half = half or ["subtomo_id", 2, 0, "A", "B"]
    rr = rr or [1, 1]
    exp = exp or [False, False]
    b = lambda x: "true" if x else "false"
    pair_txt = "[" + ", ".join(f"({core.lean_str(k)}, {core.lean_str(v)})" for k, v in pairs) + "]"
    return f"""-- GENERATED by harness/props/c04.py from cryocat/cryomotl.py, cryocat/starfileio.py; do not edit
namespace CryoCat.Gen.C04
def anchorsOk : Bool := {b(src.ok)}
def sgPairNames : List (String × String) := {pair_txt}
def sgColumnNames : List String := {core.lean_str_list(columns)}
def zerosWidth : Nat := {width if width is not None else 0}
def exportLoopCopiesMotlToSg : Bool := {b(exp[0])}
def exportLoopPositional : Bool := {b(exp[1])}
def importLoopCopiesSgToMotl : Bool := {b(imp)}
def halfsetSourceName : String := {core.lean_str(half[0])}
def halfsetMod : Nat := {half[1]}
def halfsetEq : Nat := {half[2]}
def halfsetThen : String := {core.lean_str(half[3])}
def halfsetElse : String := {core.lean_str(half[4])}
def motlIdxSourceName : String := {core.lean_str(idx_src or "")}
def resetStart : Nat := {rr[0]}
def resetStopOffset : Nat := {rr[1]}
def writeSpecifier : String := {core.lean_str(wspec or "")}
def readSpecifier : String := {core.lean_str(rspec or "")}
def starFloatPrecision : Nat := {prec if prec is not None else 0}
end CryoCat.Gen.C04
"""


# ------------------------------------------------------------------------------------------ independent STAR parser
def parse_star(path):
    """minimal reader of the file StopgapMotl.write_out produces: block name, loop_ header, whitespace-separated rows"""
    blocks = []
    cur = None
    for line in open(path).read().split("\n"):
        s = line.split("#")[0].strip()
        if not s:
            continue
        if s.startswith("data_"):
            cur = dict(spec=s, cols=[], rows=[], loop=False)
            blocks.append(cur)
        elif cur is None:
            raise ValueError(f"text before a data block: {s[:40]}")
        elif s == "loop_":
            cur["loop"] = True
        elif s.startswith("_") and not cur["rows"]:
            cur["cols"].append(s.split()[0][1:])
        else:
            cur["rows"].append(s.split())
    return blocks


# ------------------------------------------------------------------------------------------ generators
def _arb(rng):
    k = rng.random()
    if k < 0.15:
        return float(rng.randint(-500, 5000))
    if k < 0.25:
        return rng.choice([0.0, -0.0])
    v = rng.gauss(0, 1) * 10.0 ** rng.randint(-8, 14)
    return max(-MAXABS, min(MAXABS, v))


def _tie(rng):
    return rng.choice([0.5, -0.5, 1.5, -1.5, 2.5, -2.5, 0.25, -0.75, 0.49999999999999994, -0.49999999999999994])


def _particle(rng, style):
    if style == "arbitrary":
        p = {c: _arb(rng) for c in MOTL_COLS}
    else:
        frac = rng.random() < 0.4
        p = {c: 0.0 for c in MOTL_COLS}
        p["score"] = rng.random() if rng.random() < 0.8 else rng.uniform(-1, 1) * 1e-5
        p["geom1"], p["geom2"], p["geom3"] = float(rng.randint(0, 9)), float(rng.randint(0, 3)), rng.random()
        p["tomo_id"], p["object_id"] = float(rng.randint(1, 300)), float(rng.randint(1, 2000))
        p["subtomo_mean"] = rng.gauss(0, 1)
        for c in "xyz":
            p[c] = float(rng.randint(1, 4096)) + (rng.choice([0.0, 0.5, rng.random()]) if frac else 0.0)
            p["shift_" + c] = _tie(rng) if rng.random() < 0.25 else (rng.uniform(-6, 6) if rng.random() < 0.8 else 0.0)
        p["phi"], p["psi"], p["theta"] = rng.uniform(-360, 360), rng.uniform(-180, 180), rng.uniform(0, 180)
        p["class"] = float(rng.randint(0, 12))
    return p


def _ids(rng, n):
    k = rng.random()
    if k < 0.08:
        return list(range(1, n + 1))                       # already sequential (trivial for reset)
    if k < 0.16:
        return [rng.choice([2, 4, 6, 1000])] * n if rng.random() < 0.5 else [2 * rng.randint(1, 10 ** 5) + rng.randint(0, 1) * 0 for _ in range(n)]
    if k < 0.22:
        return [2 * rng.randint(0, 10 ** 5) + 1 for _ in range(n)]   # all odd
    hi = rng.choice([3 * n + 5, 10 ** 4, 10 ** 6, 2 ** 31 - 1, 10 ** 9])
    ids = [rng.randint(0 if rng.random() < 0.02 else 1, hi) for _ in range(n)]
    if rng.random() < 0.5:
        ids.sort(reverse=rng.random() < 0.3)
    return ids


def _export_case(rng, tier):
    big = {"quick": 0.08, "thorough": 0.15, "search": 0.0}[tier]
    n = rng.randint(41, 300) if rng.random() < big else (1 if rng.random() < 0.06 else rng.randint(2, 12 if tier == "search" else 40))
    style = "arbitrary" if rng.random() < 0.35 else "realistic"
    rows = []
    ids = _ids(rng, n)
    int_ids = rng.random() < 0.3
    for i in range(n):
        p = _particle(rng, style)
        p["subtomo_id"] = float(ids[i])
        if int_ids:                                   # an int64 column cannot hold -0.0
            for c in ID_COLS:
                p[c] = p[c] + 0.0
        rows.append([f2b(p[c]) for c in MOTL_COLS])
    index = rng.choices(["range", "filtered", "shuffled", "offset"], [0.4, 0.25, 0.25, 0.1])[0]
    if index == "filtered":
        labels = sorted(rng.sample(range(0, 2 * n + 3), n))
    elif index == "shuffled":
        labels = list(range(n)); rng.shuffle(labels)
    elif index == "offset":
        off = rng.randint(1, 50); labels = list(range(off, off + n))
    else:
        labels = list(range(n))
    cols = list(MOTL_COLS)
    if rng.random() < 0.3:
        rng.shuffle(cols)
    return dict(kind="export", rows=rows, reset=rng.random() < 0.5, update=rng.random() < 0.5, index=index, labels=labels,
                int_ids=int_ids, cols=cols)


def _import_case(rng, tier):
    n = 1 if rng.random() < 0.06 else rng.randint(2, 12 if tier == "search" else 40)
    cols = list(DOC_COLUMNS)
    k = rng.random()
    if k < 0.6:
        rng.shuffle(cols)
    elif k < 0.8:
        i, j = rng.sample(range(16), 2); cols[i], cols[j] = cols[j], cols[i]
    extra = rng.random() < 0.15
    missing = None
    if rng.random() < 0.10:
        missing = rng.choice([s for _, s in DOC_PAIRS])
        cols.remove(missing)
    style = "arbitrary" if rng.random() < 0.5 else "realistic"
    rows = []
    int_ids = rng.random() < 0.3
    for i in range(n):
        p = _particle(rng, style)
        p["subtomo_id"] = float(rng.randint(1, 10 ** 6))
        if int_ids:
            for c in ID_COLS:
                p[c] = p[c] + 0.0
        sg = {s: p[e] for e, s in DOC_PAIRS}
        sg["motl_idx"] = float(i + 1) if rng.random() < 0.5 else sg["subtomo_num"]
        row = []
        for c in cols:
            row.append(rng.choice(["A", "B"]) if c == "halfset" else f2b(sg[c]))
        rows.append(row)
    return dict(kind="import", cols=cols, rows=rows, extra=extra, missing=missing, int_ids=int_ids)


def generate(rng, tier, n):
    for _ in range(n):
        yield _import_case(rng, tier) if rng.random() < 0.2 else _export_case(rng, tier)


def shrink(case):
    rows = case["rows"]
    n = len(rows)
    def sub(idx):
        c = dict(case, rows=[rows[i] for i in idx])
        if case["kind"] == "export":
            lab = [case["labels"][i] for i in idx]
            c["labels"] = lab
        return c
    if n > 1:
        yield sub(range(n // 2))
        yield sub(range(n // 2, n))
        if n <= 8:
            for k in range(n):
                yield sub([i for i in range(n) if i != k])
    if case["kind"] == "export":
        if case["update"]:
            yield dict(case, update=False)
        if case["reset"]:
            yield dict(case, reset=False)
        if case["cols"] != MOTL_COLS:
            yield dict(case, cols=list(MOTL_COLS))
        if case["int_ids"]:
            yield dict(case, int_ids=False)
        if case["index"] != "range":
            yield dict(case, index="range", labels=list(range(n)))
        if n <= 3:
            simple = [[f2b(float(100 * (i + 1) + j + 1)) for j in range(20)] for i in range(n)]
            for i in range(n):
                simple[i][3] = rows[i][3]
            if simple != rows:
                yield dict(case, rows=simple)
            ids = [[*r] for r in rows]
            for i in range(n):
                ids[i][3] = f2b(float(7 + 3 * i))
            if ids != rows:
                yield dict(case, rows=ids)
    else:
        if case.get("extra"):
            yield dict(case, extra=False)
        if case["cols"] != DOC_COLUMNS and case.get("missing") is None:
            order = [case["cols"].index(c) for c in DOC_COLUMNS]
            yield dict(case, cols=list(DOC_COLUMNS), rows=[[r[k] for k in order] for r in rows])


# ------------------------------------------------------------------------------------------ implementation

def _cellbits(v):
    if isinstance(v, str):
        return v
    return f2b(float(v))


def _table(df):
    return dict(cols=[str(c) for c in df.columns], rows=[[_cellbits(v) for v in row] for row in df.itertuples(index=False, name=None)],
                dtypes={str(c): str(t) for c, t in df.dtypes.items() if str(c) in ("halfset", "motl_idx", "subtomo_num")})


def _motl_rows(df):
    return [[f2b(float(v)) for v in row] for row in df[MOTL_COLS].itertuples(index=False, name=None)]


def _build_motl_df(case):
    import pandas as pd, numpy as np
    vals = [[b2f(b) for b in r] for r in case["rows"]]
    data = {}
    for c in case["cols"]:
        j = MOTL_COLS.index(c)
        col = [v[j] for v in vals]
        if case["int_ids"] and c in ID_COLS and all(float(x).is_integer() and abs(x) < 2 ** 62 for x in col):
            data[c] = np.array(col, dtype=np.float64).astype(np.int64)
        else:
            data[c] = np.array(col, dtype=np.float64)
    return pd.DataFrame(data, index=list(case["labels"]))


def _file_obs(path, cryomotl):
    o = {}
    blocks = parse_star(path)
    o["blocks"] = [b["spec"] for b in blocks]
    blk = next((b for b in blocks if b["spec"] == SPECIFIER), None)
    if blk is not None:
        o["cols"], o["tokens"], o["loop"] = blk["cols"], blk["rows"], blk["loop"]
    m2 = cryomotl.StopgapMotl(path)
    o["loaded_cols"] = [str(c) for c in m2.df.columns]
    # a field that comes back as text (object dtype) is not "reproduced": record it instead of coercing silently
    o["loaded_text_cols"] = [str(c) for c, t in m2.df.dtypes.items() if t.kind not in "fiub"]
    o["loaded"] = _motl_rows(m2.df)
    return o


def run_impl(case):
    import pandas as pd, numpy as np
    from cryocat import cryomotl
    warnings.filterwarnings("ignore")
    if case["kind"] == "export":
        df = _build_motl_df(case)
        out = {}
        mem = cryomotl.StopgapMotl.convert_to_sg_motl(df.copy(), reset_index=case["reset"])
        out["mem"] = _table(mem)
        with tempfile.TemporaryDirectory(prefix="c04_") as td:
            m = cryomotl.StopgapMotl(df.copy())
            p = os.path.join(td, "a.star")
            m.write_out(p, update_coord=case["update"], reset_index=case["reset"])
            f = _file_obs(p, cryomotl)
            f["after"] = _motl_rows(m.df)
            out["file"] = f
            p2 = os.path.join(td, "b.star")
            sg = cryomotl.emmotl2stopgap(df.copy(), p2, update_coordinates=case["update"], reset_index=case["reset"])
            g = _file_obs(p2, cryomotl)
            g["after"] = _motl_rows(sg.df)
            g["type"] = type(sg).__name__
            out["conv"] = g
        return out
    # import
    data = {}
    for j, c in enumerate(case["cols"]):
        col = [r[j] for r in case["rows"]]
        if c == "halfset":
            data[c] = col
        else:
            x = np.array([b2f(b) for b in col], dtype=np.float64)
            if case["int_ids"] and c in ("subtomo_num", "tomo_num", "object", "class", "motl_idx") and all(float(v).is_integer() for v in x):
                x = x.astype(np.int64)
            data[c] = x
    sg_df = pd.DataFrame(data)
    if case.get("extra"):
        sg_df["extra_col"] = np.arange(len(sg_df), dtype=float)
    out = {}
    for name, fn in (("ctor", lambda d: cryomotl.StopgapMotl(d)), ("conv", lambda d: cryomotl.stopgap2emmotl(d))):
        try:
            m = fn(sg_df.copy())
            out[name] = dict(cols=[str(c) for c in m.df.columns], rows=_motl_rows(m.df), type=type(m).__name__)
        except KeyError as e:
            out[name] = {"reject": "keyerror", "detail": str(e)[:80]}
    return out


def requests(case, obs):
    if "error" in obs:
        return [dict(op="export", rows=case["rows"], reset=case["reset"], update=case["update"])] if case["kind"] == "export" else \
               [dict(op="import", table=dict(cols=case["cols"], rows=case["rows"]))]
    if case["kind"] == "export":
        mem = dict(cols=obs["mem"]["cols"], rows=obs["mem"]["rows"])
        return [dict(op="export", rows=case["rows"], reset=case["reset"], update=False, out=mem),
                dict(op="export", rows=case["rows"], reset=case["reset"], update=case["update"])]
    rq = dict(op="import", table=dict(cols=case["cols"], rows=case["rows"]))
    good = [o for o in obs.values() if "rows" in o]
    if good:
        rq["out"] = [[0 if math.isnan(b2f(b)) else b for b in r] for r in good[0]["rows"]]
    return [rq]


# ------------------------------------------------------------------------------------------ judge
def tol(v):
    """STAR precision: half a unit of the 6th decimal, plus 16 ulp for binary64 values too large to carry 6 decimals
    (DataFrame.round(6) computes v*1e6/1e6, and pandas' text->float parser is not correctly rounded: up to ~3 ulp observed)"""
    return 5e-7 + 16 * math.ulp(v)


def _is_even(x):
    return math.fmod(x, 2.0) == 0.0


def _direct_export_mem(case, table):
    """the export clauses evaluated directly on the in-memory table (independent of Lean and of the source tables)"""
    bad = []
    cols, rows = table["cols"], table["rows"]
    N = len(case["rows"])
    need = [s for _, s in DOC_PAIRS] + ["halfset", "motl_idx"]
    miss = [c for c in need if c not in cols]
    if miss:
        return [("columns", f"columns missing: {miss}")]
    if len(rows) != N:
        return [("particle-count", f"{len(rows)} rows for {N} particles")]
    ci = {c: cols.index(c) for c in need}
    for i, (src, row) in enumerate(zip(case["rows"], rows)):
        for e, s in DOC_PAIRS:
            a, b = src[MOTL_COLS.index(e)], row[ci[s]]
            if a != b and not (isinstance(b, int) and b2f(a) == b2f(b)):
                bad.append(("fields-copied", f"particle {i}: column {s} holds {b2f(b) if isinstance(b, int) else b!r}, field {e} is {b2f(a)!r}")); break
        sid = b2f(src[3])
        want = "A" if _is_even(sid) else "B"
        if row[ci["halfset"]] != want:
            bad.append(("halfset-parity", f"particle {i}: subtomo {sid!r} has halfset {row[ci['halfset']]!r}, expected {want}"))
        widx = float(i + 1) if case["reset"] else sid
        got = row[ci["motl_idx"]]
        if not (isinstance(got, int) and b2f(got) == widx):
            bad.append(("motl_idx", f"particle {i}: motl_idx {b2f(got) if isinstance(got, int) else got!r}, expected {widx!r}"))
        if bad:
            break
    return bad


def _tok(t):
    try:
        return float(t)
    except ValueError:
        return None


def _direct_export_file(case, f, label):
    """via-file clauses: written file and re-loaded list against the list the object holds after write_out"""
    bad = []
    after = f["after"]
    N = len(case["rows"])
    if SPECIFIER not in f["blocks"] or "cols" not in f:
        return [("file-block", f"{label}: blocks {f['blocks']}")]
    cols, toks = f["cols"], f["tokens"]
    need = [s for _, s in DOC_PAIRS] + ["halfset", "motl_idx"]
    miss = [c for c in need if c not in cols]
    if miss:
        return [("columns", f"{label}: file columns missing: {miss}")]
    if len(toks) != N or len(after) != N or any(len(r) != len(cols) for r in toks):
        return [("particle-count", f"{label}: {len(toks)} file rows (widths {sorted(set(len(r) for r in toks))} for {len(cols)} columns), {len(after)} in memory, {N} particles")]
    ci = {c: cols.index(c) for c in need}
    for i in range(N):
        a = {c: b2f(after[i][k]) for k, c in enumerate(MOTL_COLS)}
        for e, s in DOC_PAIRS:
            v = _tok(toks[i][ci[s]])
            if v is None or not (abs(v - a[e]) <= tol(a[e])):
                bad.append(("file-fields", f"{label}: particle {i}: column {s} reads {toks[i][ci[s]]!r}, field {e} is {a[e]!r}")); break
        want = "A" if _is_even(a["subtomo_id"]) else "B"
        if toks[i][ci["halfset"]] != want:
            bad.append(("file-halfset", f"{label}: particle {i}: subtomo {a['subtomo_id']!r} written with halfset {toks[i][ci['halfset']]!r}"))
        widx = float(i + 1) if case["reset"] else a["subtomo_id"]
        v = _tok(toks[i][ci["motl_idx"]])
        if v is None or not (abs(v - widx) <= tol(widx)):
            bad.append(("file-motl_idx", f"{label}: particle {i}: motl_idx written {toks[i][ci['motl_idx']]!r}, expected {widx!r}"))
        if bad:
            return bad
    textual = [e for e, _ in DOC_PAIRS if e in f.get("loaded_text_cols", [])]
    if textual:
        return [("reload-fields", f"{label}: fields {textual} come back from the file as text, not numbers")]
    if f["loaded_cols"] != MOTL_COLS or len(f["loaded"]) != N:
        return [("reload-shape", f"{label}: reloaded {len(f['loaded'])} particles, columns {f['loaded_cols'][:4]}...")]
    for i in range(N):
        for e, _ in DOC_PAIRS:
            k = MOTL_COLS.index(e)
            a, l = b2f(after[i][k]), b2f(f["loaded"][i][k])
            if not (abs(l - a) <= tol(a)):
                return [("reload-fields", f"{label}: particle {i}: field {e} reloaded as {l!r}, was {a!r}")]
    return bad


def _max_dev(case, obs):
    """largest |reloaded - held| / tol over the 14 shared fields (<= 1 means within STAR precision)"""
    d = 0.0
    for key in ("file", "conv"):
        f = obs.get(key) or {}
        if "loaded" in f and "after" in f and len(f["loaded"]) == len(f["after"]):
            for ra, rl in zip(f["after"], f["loaded"]):
                for e, _ in DOC_PAIRS:
                    k = MOTL_COLS.index(e)
                    a = b2f(ra[k])
                    x = abs(a - b2f(rl[k])) / tol(a)
                    if x == x:
                        d = max(d, x)
    return d


def judge(case, obs, resps):
    out = []
    F = lambda kind, clause, detail: out.append(dict(kind=kind, clause=clause, detail=detail))
    if "error" in obs:
        F("spec", "raises", obs["error"] + " @" + obs.get("where", ""))
        return out
    if case["kind"] == "export":
        m0, m1 = resps
        if "error" in m0 or "error" in m1:
            F("corr", "model-rejects", f"{m0.get('error')} {m1.get('error')}")
            return out
        # ---- in memory: Lean verified checker + direct evaluation + model equality
        direct = _direct_export_mem(case, obs["mem"])
        chk = m0.get("out")
        names = {"cols": "columns", "fields": "fields-copied", "halfset": "halfset-parity", "motl_idx": "motl_idx"}
        if chk is None:
            lean_bad = ["columns"]
        else:
            lean_bad = [names[k] for k in ("cols", "fields", "halfset", "motl_idx") if not chk[k]]
        for cl, det in direct:
            F("spec", cl, "in memory: " + det)
        for cl in lean_bad:
            if not any(c == cl or c in ("columns", "particle-count") for c, _ in direct):
                # the proved checker rejects, the direct evaluation did not see it (e.g. only column order differs)
                F("spec" if cl != "columns" else "corr", cl + "(lean-checker)", f"in memory: verified checker rejects clause {cl}; cols={obs['mem']['cols']}")
        if direct and not lean_bad:
            F("corr", "checker-vs-direct", f"direct evaluation fails {direct[0]} but the verified checker accepts")
        if not direct and not lean_bad and (obs["mem"]["cols"] != m0["table"]["cols"] or obs["mem"]["rows"] != m0["table"]["rows"]):
            F("corr", "mem-vs-model", "convert_to_sg_motl output differs from the model table outside the property's clauses")
        # ---- via file (twice: StopgapMotl.write_out and emmotl2stopgap)
        for key in ("file", "conv"):
            f = obs[key]
            bad = _direct_export_file(case, f, key)
            for cl, det in bad:
                F("spec", cl, det)
            if f["after"] != m1["updated"]:
                i = next((i for i, (a, b) in enumerate(zip(f["after"], m1["updated"])) if a != b), -1)
                F("corr", "list-after-write-vs-model", f"{key}: particle list held after write_out(update_coord={case['update']}) differs from the model at particle {i}")
            elif not bad:
                mt = m1["table"]
                if f["cols"] != mt["cols"]:
                    F("corr", "file-header-vs-model", f"{key}: header {f['cols']}")
                else:
                    for i, (tr, mr) in enumerate(zip(f["tokens"], mt["rows"])):
                        for c, t, mc in zip(mt["cols"], tr, mr):
                            okc = (t == mc) if isinstance(mc, str) else (_tok(t) is not None and abs(_tok(t) - b2f(mc)) <= tol(b2f(mc)))
                            if not okc:
                                F("corr", "file-vs-model", f"{key}: row {i} column {c}: token {t!r}, model {mc if isinstance(mc, str) else b2f(mc)!r}")
                                break
                        if out and out[-1]["clause"] == "file-vs-model":
                            break
        return out
    # ---- import
    model = resps[0]
    for name, o in obs.items():
        if case.get("missing") is not None:
            if "reject" not in o:
                F("corr", "import-accepts-missing-column", f"{name}: column {case['missing']} missing but accepted")
            continue
        if "reject" in o:
            F("spec", "import-raises", f"{name}: KeyError {o['detail']}"); continue
        N = len(case["rows"])
        if o["cols"] != MOTL_COLS or len(o["rows"]) != N:
            F("spec", "particle-count", f"{name}: {len(o['rows'])} particles for {N} rows, columns {o['cols'][:4]}..."); continue
        ci = {c: case["cols"].index(c) for _, c in DOC_PAIRS}
        done = False
        for i in range(N):
            for e, s in DOC_PAIRS:
                a, b = case["rows"][i][ci[s]], o["rows"][i][MOTL_COLS.index(e)]
                if a != b:
                    F("spec", "import-fields-copied", f"{name}: particle {i}: field {e} is {b2f(b)!r}, column {s} holds {b2f(a)!r}"); done = True; break
            if done:
                break
    if case.get("missing") is not None:
        if model.get("error") != "reject:keyerror":
            F("corr", "model-accepts-missing-column", str(model)[:200])
        return out
    if "error" in model:
        F("corr", "model-rejects", str(model)); return out
    if "check" in model and model["check"] is not True and not any(f["kind"] == "spec" for f in out):
        F("spec", "import-fields-copied(lean-checker)", "verified checker rejects the imported list")
    if model.get("check") is True and any(f["clause"] == "import-fields-copied" for f in out) and len({str(o.get("rows")) for o in obs.values()}) == 1:
        F("corr", "checker-vs-direct", "direct evaluation fails but the verified checker accepts the imported list")
    for name, o in obs.items():
        if "rows" in o and not any(f["kind"] == "spec" for f in out):
            shared = {MOTL_COLS.index(e) for e, _ in DOC_PAIRS}
            # the six fields STOPGAP does not have: NaN after StopgapMotl(...), 0.0 after EmMotl(...) (fillna) -- not part of the property
            canon = lambda rows: [[(b if k in shared else ("fill" if (math.isnan(b2f(b)) or b2f(b) == 0.0) else b)) for k, b in enumerate(r)] for r in rows]
            if canon(o["rows"]) != canon(model["motl"]):
                F("corr", "import-vs-model", f"{name}: imported list differs from the model")
    return out



def nontrivial(case, obs):
    n = len(case["rows"])
    if n < 2 or "error" in obs:
        return False
    if case["kind"] == "import":
        return case["cols"] != DOC_COLUMNS and case.get("missing") is None
    ids = [b2f(r[3]) for r in case["rows"]]
    par = {_is_even(x) for x in ids}
    shared = [MOTL_COLS.index(e) for e, _ in DOC_PAIRS]
    rich = all(len({r[k] for k in shared}) >= 10 for r in case["rows"])
    return len(par) == 2 and ids != [float(i + 1) for i in range(n)] and rich


def stats(case, obs, resps):
    n = len(case["rows"])
    s = {"kind": case["kind"], "N": "1" if n == 1 else ("2-10" if n <= 10 else ("11-40" if n <= 40 else "41-300"))}
    if case["kind"] == "export":
        ids = [b2f(r[3]) for r in case["rows"]]
        s.update({"reset": case["reset"], "update": case["update"], "index": case["index"], "id_dtype": "int64" if case["int_ids"] else "float64",
                  "col_order": "canonical" if case["cols"] == MOTL_COLS else "shuffled",
                  "parity": "both" if len({_is_even(x) for x in ids}) == 2 else ("all-even" if _is_even(ids[0]) else "all-odd"),
                  "ids": "sequential" if ids == [float(i + 1) for i in range(n)] else "non-sequential"})
        if "error" not in obs:
            d = _max_dev(case, obs)
            s["max_reload_deviation_over_tol"] = "0" if d == 0 else ("<=0.01" if d <= 0.01 else ("<=0.5" if d <= 0.5 else ("<=1" if d <= 1 else ">1")))
            s["motl_idx_dtype"] = obs["mem"]["dtypes"].get("motl_idx", "?")
            if case["update"] and resps and "updated" in resps[-1]:
                moved = sum(1 for a, b in zip(case["rows"], resps[-1]["updated"]) if a != b)
                s["update_moved"] = "some" if moved else "none"
    else:
        s.update({"col_order": "documented" if case["cols"] == DOC_COLUMNS else "permuted", "extra_col": bool(case.get("extra")),
                  "missing_col": case.get("missing") or "none",
                  "outcome": ",".join(sorted({("reject" if "reject" in o else "ok") for o in obs.values()})) if "error" not in obs else "error"})
    return s


def sample_view(case):
    v = {k: case[k] for k in case if k not in ("rows", "labels")}
    v["n_rows"] = len(case["rows"])
    v["first_row"] = [c if isinstance(c, str) else b2f(c) for c in case["rows"][0]]
    if "labels" in case:
        v["labels"] = case["labels"][:8]
    return v


def probes(rng):
    """assumptions about pandas / decimal the model relies on"""
    import pandas as pd, numpy as np, decimal
    out = []
    xs = [rng.uniform(-1e6, 1e6) for _ in range(200)] + [0.5, 1.5, 2.5, -0.5, -1.5, -2.5, 0.49999999999999994, 4503599627370497.5, -0.0]
    py = [float(decimal.Decimal(x).to_integral_value(rounding=decimal.ROUND_HALF_UP)) for x in xs]
    c = [math.copysign(math.floor(abs(x)) + (1.0 if abs(x) - math.floor(abs(x)) >= 0.5 else 0.0), x) for x in xs]
    ok = all(a == b for a, b in zip(py, c))
    out.append(dict(name="Decimal ROUND_HALF_UP = half away from zero", ok=ok, detail="" if ok else str([(x, a, b) for x, a, b in zip(xs, py, c) if a != b][:3])))
    ids = [rng.randint(0, 2 ** 40) for _ in range(200)] + [0.0, 1e17, 2.0 ** 53 + 2]
    s = pd.Series(np.array(ids, dtype=float))
    got = s.mod(2).eq(0).tolist()
    want = [math.fmod(float(x), 2.0) == 0.0 for x in ids]
    out.append(dict(name="Series.mod(2).eq(0) = even integer", ok=got == want, detail=""))
    df = pd.DataFrame({"a": [1.0, 2.0, 3.0]}, index=[2, 0, 1])
    z = pd.DataFrame({"b": [0.0, 0.0, 0.0]})
    z["b"] = df["a"].to_numpy()
    out.append(dict(name="df[col] = ndarray assigns by position", ok=z["b"].tolist() == [1.0, 2.0, 3.0], detail=""))
    r = pd.DataFrame({"a": [0.1234565, 2.5e-6, 1234.00000049, -7.0]}).round(6)["a"].tolist()
    ok = all(abs(a - b) <= 5e-7 + 1e-12 for a, b in zip(r, [0.1234565, 2.5e-6, 1234.00000049, -7.0])) and all(float(str(x)) == x for x in r)
    out.append(dict(name="DataFrame.round(6) within 5e-7; float(str(x)) == x", ok=ok, detail=str(r)))
    return out


LEVEL_TEXT = ("Lean 4 theorems about an executable model of StopgapMotl.convert_to_sg_motl / sg_df_reset_index / convert_to_motl / write_out "
              "(+ Motl.update_coordinates), for every particle list of any length and arbitrary cell values: pairs_documented, pairs_bijective, "
              "export_rows (14 fields unchanged under the documented renaming, same order; halfset by parity; motl_idx = subtomogram number or 1..N), "
              "halfset_even_odd (over Int), motl_idx_spec, model_spec, check_sound/check_complete (verified checker run on the real output), import_rows "
              "(any column order), fromSg_toSg, toSg_fromSg, export_update_coord, via_file (corollary of an abstract STAR round-trip hypothesis). "
              "Tied to the source by regenerated tables (pairs, columns, the halfset expression literals, motl_idx source, reset range, block name, "
              "STAR precision, by-position assignment) and by an exact differential run of the real code (in memory; via file to 5e-7) against the model")
LEVEL_NOTE = ("via_file assumes the STAR layer round trip (C02) as a hypothesis; file comparisons use tolerance 5e-7+16ulp; trusted: Lean kernel, "
              "translator AST extraction, harness STAR tokenizer, pandas positional/label assignment semantics, Decimal ROUND_HALF_UP = Float.round (probed)")
TECHNIQUE = "Lean 4 proof (fold invariants over an arbitrary injective renaming table, list induction) + regenerated tables + verified checker + differential correspondence"
DESIGN_REF = "DESIGN.md section 4, C04"
