"""C03 — RELION <-> cryoCAT conversion preserves each particle's pose and identity (DESIGN.md section 4, C03).

First part: translator (pure `ast`; re-extracts the tables / call arguments / signs / operators the theorems are about).
Second part: generators, adapters to the real code, independent STAR reader/writer, judge."""
import ast, re, copy, hashlib
import core
from core import AnchorMissing

REL = "cryocat/cryomotl.py"
OPS = {ast.LtE: "<=", ast.GtE: ">=", ast.Eq: "==", ast.Lt: "<", ast.Gt: ">"}

DOC = dict(
    columnsV30=["rlnMicrographName", "rlnCoordinateX", "rlnCoordinateY", "rlnCoordinateZ", "rlnAngleRot", "rlnAngleTilt", "rlnAnglePsi",
                "rlnImageName", "rlnPixelSize", "rlnRandomSubset", "rlnOriginX", "rlnOriginY", "rlnOriginZ", "rlnClassNumber"],
    columnsV31=["rlnMicrographName", "rlnCoordinateX", "rlnCoordinateY", "rlnCoordinateZ", "rlnAngleRot", "rlnAngleTilt", "rlnAnglePsi",
                "rlnImageName", "rlnPixelSize", "rlnOpticsGroup", "rlnGroupNumber", "rlnOriginXAngst", "rlnOriginYAngst", "rlnOriginZAngst",
                "rlnClassNumber", "rlnRandomSubset"],
    columnsV4=["rlnCoordinateX", "rlnCoordinateY", "rlnCoordinateZ", "rlnAngleRot", "rlnAngleTilt", "rlnAnglePsi", "rlnTomoName",
               "rlnTomoParticleName", "rlnRandomSubset", "rlnOpticsGroup", "rlnOriginXAngst", "rlnOriginYAngst", "rlnOriginZAngst",
               "rlnGroupNumber", "rlnClassNumber"],
)


def _tenths(x):
    """a version constant of the source in tenths; a constant that is not a whole number of tenths (3.14) is NOT rounded:
    it would change which versions pass the test, so the anchor is reported missing"""
    t = float(x) * 10
    if abs(t - round(t)) > 1e-9:
        raise AnchorMissing(f"version constant {x!r} is not a whole number of tenths")
    return int(round(t))


# ---------------------------------------------------------------------------------------------------
# canonical view of a function (H1, H2). `_strip` drops what a harmless edit may change: docstrings, type annotations
# (`x: T = v` becomes `x = v`, a bare `x: T` disappears), the TEXT of messages (arguments of `raise X(...)` - the exception
# TYPE stays -, the message of `warnings.warn`, everything handed to `print` / `logging.*`). `_alpha` renames locals scope by
# scope (function, lambda, comprehension) in the order of their BINDING occurrences; a name that is bound but never read
# (every `_` discard, whatever it is called) becomes `_` and takes no slot, so renaming a local or one of several discards
# changes nothing. Parameters of the function itself keep their (API) names. With `names` (DOC_LOCALS) the slots get the
# names the documented source uses, so the matchers below read literally the documented statements; `body_lines` is the same
# view with slot names v0, v1, ..., one normalised line per statement, used for the per-statement and whole-body digests.
# ---------------------------------------------------------------------------------------------------
DOC_LOCALS = {   # documented name of slot 0, 1, ... (binding order; one slot per scope and name, discards take none)
    "RelionMotl.convert_angles_from_relion": ["relion_angles", "columns_exist", "item", "angles", "rot_ZYZ", "rot_zxz"],
    "RelionMotl.convert_angles_to_relion": ["rotations", "angles"],
    "RelionMotl.convert_shifts": ["motl_column", "rln_column"],
    "RelionMotl.parse_tomo_id": ["micrograph_names", "i", "tomo_idx", "tomo_names", "i", "j", "tomo_position", "i", "i"],
    "RelionMotl.parse_subtomo_id": ["image_names", "i", "subtomo_idx", "subtomo_names", "i", "j", "halfset_num", "c", "subtomo_id_num", "i"],
    "RelionMotl.convert_to_motl": ["coord", "relion_column"],
    "RelionMotl.create_relion_df": ["relion_df", "coord"],
    "RelionMotl.prepare_particles_data": ["find_longest_sequence", "test_string", "test_letter", "raise_error", "pattern", "findings", "longest_sequence", "tomo_name",
                                          "subtomo_name", "shifts_name", "relion_df", "tomo_sequence", "tomo_digits", "row", "subtomo_sequence", "subtomo_digits",
                                          "subtomo_t_sequence", "subtomo_t_digits", "row", "row"],
    "RelionMotl.get_version_specific_names": ["tomo_id_name", "subtomo_id_name", "shifts_id_names", "data_spec"],
    "RelionMotl.get_version_from_file": ["version", "s", "frame_index"],
    "RelionMotl.set_version": [],
    "RelionMotl.set_pixel_size": ["pixel_size_optics", "optic_groups", "ps", "og"],
    "RelionMotl.adapt_original_entries": ["original_data"],
    "Motl.get_coordinates": ["coord"],
    "Motl.get_angles": ["angles"],
    "RelionMotl.write_out": ["relion_df", "optics_df", "frames", "specifiers"],
    "RelionMotl.create_final_output": ["data_spec", "frames", "specifiers"],
}
_SCOPES = (ast.FunctionDef, ast.AsyncFunctionDef, ast.Lambda, ast.ListComp, ast.SetComp, ast.DictComp, ast.GeneratorExp)


def _is_doc(st):
    return isinstance(st, ast.Expr) and isinstance(st.value, ast.Constant) and isinstance(st.value.value, str)


class _Strip(ast.NodeTransformer):
    def _fn(self, n):
        self.generic_visit(n)
        n.returns = None
        a = n.args
        for x in a.posonlyargs + a.args + a.kwonlyargs + [y for y in (a.vararg, a.kwarg) if y is not None]:
            x.annotation = None
        if n.body and _is_doc(n.body[0]):
            n.body = n.body[1:]
        n.body = n.body or [ast.Pass()]
        return n
    visit_FunctionDef = visit_AsyncFunctionDef = _fn

    def visit_AnnAssign(self, n):
        self.generic_visit(n)
        if n.value is None:
            return ast.copy_location(ast.Pass(), n)
        return ast.copy_location(ast.Assign(targets=[n.target], value=n.value), n)

    def visit_Raise(self, n):
        self.generic_visit(n)
        if isinstance(n.exc, ast.Call):     # the exception TYPE is kept, the message is not
            n.exc = ast.copy_location(ast.Call(func=n.exc.func, args=[], keywords=[]), n.exc)
        return n

    def visit_Call(self, n):
        self.generic_visit(n)
        f = ast.unparse(n.func)
        if f in ("warnings.warn", "warn"):
            n.args = n.args[1:]             # a category argument stays
            n.keywords = [k for k in n.keywords if k.arg != "message"]
        elif f == "print" or f.split(".")[0] in ("logging", "logger", "log"):
            n.args, n.keywords = [], []
        return n


def _strip(fn):
    return ast.fix_missing_locations(_Strip().visit(copy.deepcopy(fn)))


def _alpha(fn, names=None):
    """`fn` (already a private copy) with its locals renamed; returns (fn, [original name of slot 0, 1, ...])"""
    recs = []          # dict(name, pos, read, keep, occ=[(node, attr)])

    def bindings(scope, top):
        out = {}

        def add(name, node, keep=False):
            if name not in out:
                out[name] = dict(name=name, pos=(getattr(node, "lineno", 0), getattr(node, "col_offset", 0)), read=False, keep=keep, occ=[])
        if isinstance(scope, (ast.FunctionDef, ast.AsyncFunctionDef, ast.Lambda)):
            a = scope.args
            for x in a.posonlyargs + a.args + a.kwonlyargs + [y for y in (a.vararg, a.kwarg) if y is not None]:
                add(x.arg, x, keep=top)
        skip = set()
        todo = list(ast.iter_child_nodes(scope))
        found = []
        while todo:
            n = todo.pop()
            if isinstance(n, (ast.Global, ast.Nonlocal)):
                skip.update(n.names)
            if isinstance(n, (ast.FunctionDef, ast.AsyncFunctionDef, ast.ClassDef)):
                found.append((n.name, n))
            elif isinstance(n, ast.Name) and isinstance(n.ctx, (ast.Store, ast.Del)):
                found.append((n.id, n))
            elif isinstance(n, ast.ExceptHandler) and n.name:
                found.append((n.name, n))
            elif isinstance(n, ast.alias):
                found.append(((n.asname or n.name).split(".")[0], n))
            if not isinstance(n, _SCOPES + (ast.ClassDef,)):
                todo.extend(ast.iter_child_nodes(n))
        for name, node in sorted(found, key=lambda t: (getattr(t[1], "lineno", 0), getattr(t[1], "col_offset", 0))):
            if name not in skip:
                add(name, node)
        return out

    def resolve(chain, name):
        for env in reversed(chain):
            if name in env:
                return env[name]
        return None

    def walk(scope, chain, top=False):
        env = bindings(scope, top)
        recs.extend(env.values())
        chain = chain + [env]
        if isinstance(scope, (ast.FunctionDef, ast.AsyncFunctionDef, ast.Lambda)):
            a = scope.args
            for x in a.posonlyargs + a.args + a.kwonlyargs + [y for y in (a.vararg, a.kwarg) if y is not None]:
                env[x.arg]["occ"].append((x, "arg"))
        todo = list(ast.iter_child_nodes(scope))
        while todo:
            n = todo.pop()
            if isinstance(n, ast.Name):
                r = resolve(chain, n.id)
                if r is not None:
                    r["occ"].append((n, "id"))
                    if isinstance(n.ctx, ast.Load):
                        r["read"] = True
            elif isinstance(n, ast.AugAssign) and isinstance(n.target, ast.Name):
                r = resolve(chain, n.target.id)
                if r is not None:
                    r["read"] = True
            elif isinstance(n, ast.ExceptHandler) and n.name:
                r = resolve(chain, n.name)
                if r is not None:
                    r["occ"].append((n, "name"))
            if isinstance(n, (ast.FunctionDef, ast.AsyncFunctionDef, ast.ClassDef)):
                r = resolve(chain, n.name)
                if r is not None:
                    r["occ"].append((n, "name"))
            if isinstance(n, _SCOPES):
                walk(n, chain)
            else:
                todo.extend(ast.iter_child_nodes(n))

    walk(fn, [], top=True)
    names = list(names or [])
    order = []
    for r in sorted((r for r in recs if not r["keep"]), key=lambda r: r["pos"]):
        if not r["read"]:
            new = "_"
        else:
            k = len(order)
            order.append(r["name"])
            new = names[k] if k < len(names) else f"v{k}"
        for node, attr in r["occ"]:
            setattr(node, attr, new)
    return fn, order


def _canon(fn, names=None):
    return _alpha(_strip(fn), names)[0]


def _fn(src, qual):
    """the function `qual` of cryomotl.py in canonical form, locals carrying the documented names (see DOC_LOCALS)"""
    return _canon(src.find(REL, qual), DOC_LOCALS.get(qual))


def _u(n):
    return ast.unparse(n).replace("\n", ";")


def _flat(stmts, depth, out):
    """one normalised line per statement: `<depth>|<text>`; compound statements give a header line and their bodies one level deeper"""
    def put(text, st):
        out.append((f"{depth}|{text}", getattr(st, "lineno", 0)))
    for st in stmts:
        if isinstance(st, ast.If):
            put(f"if {_u(st.test)}:", st); _flat(st.body, depth + 1, out)
            if st.orelse:
                put("else:", st.orelse[0]); _flat(st.orelse, depth + 1, out)
        elif isinstance(st, (ast.For, ast.AsyncFor)):
            put(f"for {_u(st.target)} in {_u(st.iter)}:", st); _flat(st.body, depth + 1, out)
            if st.orelse:
                put("else:", st.orelse[0]); _flat(st.orelse, depth + 1, out)
        elif isinstance(st, ast.While):
            put(f"while {_u(st.test)}:", st); _flat(st.body, depth + 1, out)
            if st.orelse:
                put("else:", st.orelse[0]); _flat(st.orelse, depth + 1, out)
        elif isinstance(st, (ast.With, ast.AsyncWith)):
            put("with " + ",".join(_u(i) for i in st.items) + ":", st); _flat(st.body, depth + 1, out)
        elif isinstance(st, ast.Try):
            put("try:", st); _flat(st.body, depth + 1, out)
            for h in st.handlers:
                put(f"except {_u(h.type) if h.type else ''} as {h.name}:", h); _flat(h.body, depth + 1, out)
            if st.orelse:
                put("else:", st.orelse[0]); _flat(st.orelse, depth + 1, out)
            if st.finalbody:
                put("finally:", st.finalbody[0]); _flat(st.finalbody, depth + 1, out)
        elif isinstance(st, (ast.FunctionDef, ast.AsyncFunctionDef)):
            put(f"def {st.name}({_u(st.args)}):", st); _flat(st.body, depth + 1, out)
        else:
            put(_u(st), st)
    return out


def body_lines(src, qual):
    """[(normalised line, source line number)] of the canonical body of `qual`"""
    return _flat(_canon(src.find(REL, qual), None).body, 0, [])


def body_dump(src, qual):
    return [t for t, _ in body_lines(src, qual)]


def _h(text, k):
    return hashlib.sha256(text.encode()).hexdigest()[:k]


def body_digest(src, qual):
    return _h("\n".join(body_dump(src, qual)), 20)


def body_checked(src, qual):
    """the normalised body (it goes into the evidence); when it is not the reviewed one the anchor fails and SAYS WHICH STATEMENT
    moved, quoting the source line (item 5/6 of the round-5 work list: the whole-body digest alone cannot)"""
    lines = body_lines(src, qual)
    doc = DOC_STMTS.get(qual)
    if doc is not None:
        got = [_h(t, 6) for t, _ in lines]
        if got != doc:
            text = src.text(REL).split("\n")
            k = next((i for i in range(min(len(got), len(doc))) if got[i] != doc[i]), min(len(got), len(doc)))
            if k < len(lines):
                ln = lines[k][1]
                raise AnchorMissing(f"{qual}: statement {k + 1} is not statement {k + 1} of the {len(doc)} reviewed ones: {REL}:{ln}: `{text[ln - 1].strip()[:160]}` "
                                    f"(normalised `{lines[k][0][:160]}`; the body has {len(got)} statements now)")
            ln = lines[-1][1] if lines else 0
            raise AnchorMissing(f"{qual}: the body ends after {len(got)} of the {len(doc)} reviewed statements (last one: {REL}:{ln}: `{text[ln - 1].strip()[:120] if ln else ''}`)")
    return [t for t, _ in lines]


def signature_defaults(src, qual):
    """[(param, default source text)] of the keyword parameters of a function"""
    fn = src.find(REL, qual)
    a = fn.args
    pos = a.posonlyargs + a.args
    out = []
    for arg, d in zip(pos[len(pos) - len(a.defaults):], a.defaults):
        out.append((arg.arg, ast.unparse(d)))
    for arg, d in zip(a.kwonlyargs, a.kw_defaults):
        if d is not None:
            out.append((arg.arg, ast.unparse(d)))
    return out


def _ver_compare(test):
    """`version <op> <const>` or `self.version <op> <const>` -> (op, tenths)"""
    if isinstance(test, ast.Compare) and len(test.ops) == 1 and type(test.ops[0]) in OPS and isinstance(test.comparators[0], ast.Constant) \
            and ast.unparse(test.left) in ("version", "self.version"):
        return OPS[type(test.ops[0])], _tenths(test.comparators[0].value)
    return None


def _strs(node, n=None):
    try:
        v = ast.literal_eval(node)
    except Exception:
        return None
    if isinstance(v, (list, tuple)) and all(isinstance(s, str) for s in v) and (n is None or len(v) == n):
        return list(v)
    return None


def name_branches(src):
    fn = _fn(src, "RelionMotl.get_version_specific_names")
    top = next((s for s in fn.body if isinstance(s, ast.If) and _ver_compare(s.test)), None)
    if top is None:
        raise AnchorMissing("get_version_specific_names: no `if version <op> <const>` chain")
    out = []

    def assigns(body):
        d = {}
        for s in body:
            if isinstance(s, ast.Assign) and len(s.targets) == 1 and isinstance(s.targets[0], ast.Name):
                d[s.targets[0].id] = ast.literal_eval(s.value)
        try:
            return d["tomo_id_name"], d["subtomo_id_name"], list(d["shifts_id_names"]), d["data_spec"]
        except KeyError as e:
            raise AnchorMissing(f"get_version_specific_names: branch lacks {e}")

    node = top
    while True:
        op, thr = _ver_compare(node.test)
        out.append((op, thr) + assigns(node.body))
        if len(node.orelse) == 1 and isinstance(node.orelse[0], ast.If) and _ver_compare(node.orelse[0].test):
            node = node.orelse[0]
            continue
        if node.orelse:
            out.append(("else", 0) + assigns(node.orelse))
        break
    return out


def _euler_calls(fn, what):
    """(from_seq, from_arg_text, to_seq, result_var) of the from_euler(...).as_euler(...) chain"""
    fe = te = None
    for n in ast.walk(fn):
        if isinstance(n, ast.Call) and isinstance(n.func, ast.Attribute):
            if n.func.attr == "from_euler":
                fe = n
            elif n.func.attr == "as_euler":
                te = n
    if fe is None or te is None:
        raise AnchorMissing(f"{what}: from_euler/as_euler call not found")
    for c in (fe, te):
        if not (c.args and isinstance(c.args[0], ast.Constant) and isinstance(c.args[0].value, str) and len(c.args[0].value) == 3):
            raise AnchorMissing(f"{what}: sequence is not a 3-letter literal")
        if not any(k.arg == "degrees" and isinstance(k.value, ast.Constant) and k.value.value is True for k in c.keywords):
            raise AnchorMissing(f"{what}: degrees=True missing")
    res = None
    for s in ast.walk(fn):
        if isinstance(s, ast.Assign) and s.value is te and isinstance(s.targets[0], ast.Name):
            res = s.targets[0].id
    if res is None:
        raise AnchorMissing(f"{what}: as_euler result not assigned to a name")
    # the as_euler receiver must be the from_euler result
    recv = te.func.value
    ok = recv is fe
    if isinstance(recv, ast.Name):
        for s in ast.walk(fn):
            if isinstance(s, ast.Assign) and s.value is fe and isinstance(s.targets[0], ast.Name) and s.targets[0].id == recv.id:
                ok = True
    if not ok:
        raise AnchorMissing(f"{what}: as_euler is not applied to the from_euler result")
    return fe.args[0].value, fe.args[1], te.args[0].value, res


def _slot_assignments(fn, frame, res, names, what):
    """`frame["name"] = [-]res[:, k]` for each name, in the order of `names` -> [(name, negated, k)]"""
    found = {}
    for s in ast.walk(fn):
        if isinstance(s, ast.Assign) and len(s.targets) == 1 and isinstance(s.targets[0], ast.Subscript) \
                and ast.unparse(s.targets[0].value) == frame and isinstance(s.targets[0].slice, ast.Constant):
            key = s.targets[0].slice.value
            v = s.value
            neg = False
            if isinstance(v, ast.UnaryOp) and isinstance(v.op, ast.USub):
                neg, v = True, v.operand
            if isinstance(v, ast.Subscript) and isinstance(v.value, ast.Name) and v.value.id == res and isinstance(v.slice, ast.Tuple) \
                    and len(v.slice.elts) == 2 and isinstance(v.slice.elts[0], ast.Slice) and isinstance(v.slice.elts[1], ast.Constant):
                if key in found:
                    raise AnchorMissing(f"{what}: {key} assigned twice")
                found[key] = (neg, int(v.slice.elts[1].value))
    out = []
    for n in names:
        if n not in found:
            raise AnchorMissing(f"{what}: no `{frame}[{n!r}] = [-]{res}[:, k]`")
        out.append((n,) + found[n])
    return out


def export_call(src):
    fn = _fn(src, "RelionMotl.convert_angles_to_relion")
    fs, arg, ts, res = _euler_calls(fn, "convert_angles_to_relion")
    if ast.unparse(arg) != "self.get_angles()":
        raise AnchorMissing("convert_angles_to_relion: from_euler is not fed self.get_angles()")
    slots = _slot_assignments(fn, "relion_df", res, ["rlnAngleRot", "rlnAngleTilt", "rlnAnglePsi"], "convert_angles_to_relion")
    ga = _fn(src, "Motl.get_angles")
    lists = [l for l in (_strs(n, 3) for n in ast.walk(ga) if isinstance(n, ast.List)) if l]
    if not lists or any(l != lists[0] for l in lists):
        raise AnchorMissing("Motl.get_angles: column list not found / inconsistent")
    return fs, ts, lists[0], slots


def import_call(src):
    fn = _fn(src, "RelionMotl.convert_angles_from_relion")
    fs, arg, ts, res = _euler_calls(fn, "convert_angles_from_relion")
    names = None
    for s in fn.body:
        if isinstance(s, ast.Assign) and isinstance(s.targets[0], ast.Name) and s.targets[0].id == "relion_angles":
            names = _strs(s.value, 3)
    if names is None:
        raise AnchorMissing("convert_angles_from_relion: relion_angles list")
    if not isinstance(arg, ast.Name):
        raise AnchorMissing("convert_angles_from_relion: from_euler argument is not a name")
    ok = any(isinstance(s, ast.Assign) and isinstance(s.targets[0], ast.Name) and s.targets[0].id == arg.id
             and ast.unparse(s.value) == "relion_df.loc[:, relion_angles].to_numpy()" for s in fn.body)
    if not ok:
        raise AnchorMissing("convert_angles_from_relion: angles are not relion_df.loc[:, relion_angles].to_numpy()")
    slots = _slot_assignments(fn, "self.df", res, ["phi", "theta", "psi"], "convert_angles_from_relion")
    return fs, ts, names, slots


def shifts(src):
    fn = _fn(src, "RelionMotl.convert_shifts")
    loop = next((s for s in fn.body if isinstance(s, ast.For)), None)
    if loop is None or not (isinstance(loop.iter, ast.Call) and ast.unparse(loop.iter.func) == "zip" and ast.unparse(loop.iter.args[1]) == "self.shifts_id_names"):
        raise AnchorMissing("convert_shifts: for ... in zip((...), self.shifts_id_names)")
    fields = _strs(loop.iter.args[0], 3)
    if fields is None or ast.unparse(loop.target) != "(motl_column, rln_column)":
        raise AnchorMissing("convert_shifts: zip of the three shift fields")
    if not any(ast.unparse(s) == "self.assign_column(relion_df, {motl_column: rln_column})" for s in loop.body):
        raise AnchorMissing("convert_shifts: assign_column(relion_df, {motl_column: rln_column})")
    negated = None
    scale = None
    for s in loop.body:
        if isinstance(s, ast.Assign) and ast.unparse(s.targets[0]) == "self.df[motl_column]":
            v = ast.unparse(s.value)
            if v == "-self.df[motl_column].values":
                negated = True if negated is None else negated
            else:
                raise AnchorMissing(f"convert_shifts: unexpected top-level assignment {v}")
        if isinstance(s, ast.If):
            cv = _ver_compare(s.test)
            if cv is None:
                raise AnchorMissing(f"convert_shifts: `if {ast.unparse(s.test)}:` is not a test `self.version <op> <constant>`")
            if len(s.body) != 1 or not isinstance(s.body[0], ast.Assign) or ast.unparse(s.body[0].targets[0]) != "self.df[motl_column]":
                raise AnchorMissing("convert_shifts: body of the version test")
            v = s.body[0].value
            if not (isinstance(v, ast.BinOp) and ast.unparse(v.left) == "self.df[motl_column].values" and ast.unparse(v.right) == "self.pixel_size"):
                raise AnchorMissing("convert_shifts: scaling expression")
            opn = {ast.Div: "/", ast.Mult: "*"}.get(type(v.op))
            if opn is None:
                raise AnchorMissing("convert_shifts: pixel-size scaling is neither a division nor a multiplication")
            scale = cv + (opn,)
    if scale is None:
        raise AnchorMissing("convert_shifts: no version-dependent scaling")
    return fields, bool(negated), scale


def coords(src):
    fn = _fn(src, "RelionMotl.create_relion_df")
    cols = None
    for s in ast.walk(fn):
        if isinstance(s, ast.Assign) and ast.unparse(s.value) == "self.get_coordinates()" and isinstance(s.targets[0], ast.Subscript):
            # only the whole-column replacement `relion_df[[...]] = ...` (fix 9b145a8 / D30): `.loc[:, [...]] = floats` raises on int64 columns under pandas 3
            if ast.unparse(s.targets[0].value) == "relion_df":
                cols = _strs(s.targets[0].slice, 3)
            else:
                raise AnchorMissing(f"create_relion_df: the coordinates are not written by whole-column replacement: `{ast.unparse(s)[:120]}` "
                                    "(expected `relion_df[[<3 columns>]] = self.get_coordinates()`)")
    if cols is None:
        raise AnchorMissing("create_relion_df: no `relion_df[[<3 columns>]] = self.get_coordinates()`")
    gc = _fn(src, "Motl.get_coordinates")
    first = next((s for s in gc.body if isinstance(s, ast.If)), None)
    if first is None or ast.unparse(first.test) != "tomo_number is None":
        raise AnchorMissing("get_coordinates: `if tomo_number is None`")
    a = first.body[0]
    if not (isinstance(a, ast.Assign) and isinstance(a.value, ast.BinOp)):
        raise AnchorMissing("get_coordinates: coord = A <op> B")
    terms = []
    for side in (a.value.left, a.value.right):
        ls = [l for l in (_strs(n, 3) for n in ast.walk(side) if isinstance(n, ast.List)) if l]
        if len(ls) != 1 or not ast.unparse(side).startswith("self.df.loc[:, [") or not ast.unparse(side).endswith("].values"):
            raise AnchorMissing("get_coordinates: operand is not self.df.loc[:, [...]].values")
        terms.append(ls[0])
    ret = gc.body[-1]
    if not (isinstance(ret, ast.Return) and ast.unparse(ret.value) == ast.unparse(a.targets[0])):
        raise AnchorMissing("get_coordinates: does not return the sum")
    opn = {ast.Add: "+", ast.Sub: "-"}.get(type(a.value.op))
    if opn is None:
        raise AnchorMissing("get_coordinates: position and shift are combined by neither + nor -")
    return cols, terms, opn


def origin_zero(src):
    fn = _fn(src, "RelionMotl.prepare_particles_data")
    for s in fn.body:
        if isinstance(s, ast.Assign) and ast.unparse(s.targets[0]) == "relion_df.loc[:, shifts_name]":
            return ast.unparse(s.value).replace(" ", "") == "np.zeros((relion_df.shape[0],3))"
    raise AnchorMissing("prepare_particles_data: relion_df.loc[:, shifts_name] = ...")


def halfset_table(src):
    fn = _fn(src, "RelionMotl.create_relion_df")
    out = []
    for s in ast.walk(fn):
        if isinstance(s, ast.Assign) and isinstance(s.targets[0], ast.Subscript) and ast.unparse(s.targets[0].value) == "relion_df.loc":
            sl = s.targets[0].slice
            if isinstance(sl, ast.Tuple) and isinstance(sl.elts[1], ast.Constant) and sl.elts[1].value == "rlnRandomSubset":
                m = re.fullmatch(r"self\.df\['subtomo_id'\]\.mod\((\d+)\)\.eq\((\d+)\)\.to_numpy\(\)", ast.unparse(sl.elts[0]))
                if not m or m.group(1) != "2" or not isinstance(s.value, ast.Constant):
                    raise AnchorMissing("create_relion_df: rlnRandomSubset mask is not subtomo_id.mod(2).eq(r)")
                out.append((int(m.group(2)), int(s.value.value)))
    if not out:
        raise AnchorMissing("create_relion_df: rlnRandomSubset assignment")
    return sorted(out)


def import_pairs(src):
    fn = _fn(src, "RelionMotl.convert_to_motl")
    loop = next((s for s in fn.body if isinstance(s, ast.For)), None)
    if loop is None or ast.unparse(loop.target) != "coord":
        raise AnchorMissing("convert_to_motl: for coord in (...)")
    cs = _strs(loop.iter, 3)
    body = [ast.unparse(s) for s in loop.body]
    if cs is None or body != ["relion_column = 'rlnCoordinate' + coord.upper()", "self.assign_column(relion_df, {coord: relion_column})"]:
        raise AnchorMissing("convert_to_motl: coordinate loop body")
    pairs = [(c, "rlnCoordinate" + c.upper()) for c in cs]
    cls = None
    for s in fn.body:
        m = re.fullmatch(r"self\.assign_column\(relion_df, \{'class': '(\w+)'\}\)", ast.unparse(s))
        if m:
            cls = m.group(1)
    ex = _fn(src, "RelionMotl.create_relion_df")
    ecls = None
    for s in ast.walk(ex):
        if isinstance(s, ast.Assign):
            m = re.fullmatch(r"relion_df\['(\w+)'\] = self\.df\['class'\]\.to_numpy\(\)", ast.unparse(s))
            if m:
                ecls = m.group(1)
    if cls is None or ecls != cls:
        raise AnchorMissing("class column pairing (convert_to_motl / create_relion_df)")
    # call order: shifts and angles are converted, ids parsed
    calls = [ast.unparse(s) for s in fn.body]
    for need in ("self.convert_shifts(relion_df)", "self.convert_angles_from_relion(relion_df)", "self.parse_tomo_id(relion_df)", "self.parse_subtomo_id(relion_df)"):
        if need not in calls:
            raise AnchorMissing(f"convert_to_motl: {need}")
    return pairs, ("class", cls)


def parse_numbers(src):
    pt = ast.unparse(_fn(src, "RelionMotl.parse_tomo_id"))
    ps_fn = _fn(src, "RelionMotl.parse_subtomo_id")
    ps = ast.unparse(ps_fn)
    if "tomo_idx.append(float(re.search('\\\\d+', j).group()))" not in pt or "[i.rsplit('/', 1)[-1] for i in micrograph_names]" not in pt:
        raise AnchorMissing("parse_tomo_id: first number of the last path component")
    m = re.search(r"subtomo_idx\.append\(float\(re\.findall\('\\\\d\+', j\)\[(\d+)\]\)\)", ps)
    if not m or "[i.rsplit('/', 1)[-1] for i in image_names]" not in ps:
        raise AnchorMissing("parse_subtomo_id: k-th number of the last path component")
    whole = None
    for n in ast.walk(ps_fn):
        if isinstance(n, ast.If) and _ver_compare(n.test) and ast.unparse(n.body[0]) == "subtomo_idx.append(float(j))":
            whole = _ver_compare(n.test)
    if whole is None:
        raise AnchorMissing("parse_subtomo_id: `if self.version >= 4.0: float(j)`")
    return 0, int(m.group(1)), whole


def renumber_skeleton(src):
    fn = _fn(src, "RelionMotl.parse_subtomo_id")
    top = None
    for s in fn.body:
        if isinstance(s, ast.If) and "rlnRandomSubset" in ast.unparse(s.test):
            top = s
    if top is None:
        raise AnchorMissing("parse_subtomo_id: half-set block")
    return [core.norm_expr(top.test)] + [core.norm_expr(s).replace("\n", ";") for s in top.body]


def geom3_and_unique(src):
    fn = _fn(src, "RelionMotl.parse_subtomo_id")
    txt = [core.norm_expr(s) for s in fn.body]
    need = ["self.df['geom3']=subtomo_idx", "self.df['subtomo_id']=subtomo_idx",
            "iflen(np.unique(subtomo_idx))!=len(subtomo_idx):\nself.df['subtomo_id']=np.arange(1,relion_df.shape[0]+1,1)"]
    got = [t.replace("    ", "") for t in txt]
    for n in need:
        if n not in got:
            raise AnchorMissing(f"parse_subtomo_id: {n}")
    return True


def file_versions(src):
    fn = _fn(src, "RelionMotl.get_version_from_file")
    out = []
    for n in ast.walk(fn):
        if isinstance(n, ast.If) and isinstance(n.test, ast.Compare) and isinstance(n.test.left, ast.Constant) and isinstance(n.test.ops[0], ast.Eq):
            spec = n.test.left.value
            for s in n.body:
                if isinstance(s, ast.Assign) and ast.unparse(s.targets[0]) == "version":
                    out.append((spec, _tenths(s.value.value)))
                if isinstance(s, ast.If) and "rlnTomoName" in ast.unparse(s.test):
                    out.append((spec + "+tomo", _tenths(s.body[0].value.value)))
                    out.append((spec, _tenths(s.orelse[0].value.value)))
    if not out:
        raise AnchorMissing("get_version_from_file")
    return out


def tomo_fallback(src):
    """`parse_tomo_id`, elif branch: (cmp, thr), (position if true, position else), index of the number"""
    fn = _fn(src, "RelionMotl.parse_tomo_id")
    top = next((st for st in fn.body if isinstance(st, ast.If)), None)
    if top is None or core.norm_expr(top.test) != "self.tomo_id_nameinrelion_df.columns" or len(top.orelse) != 1 or not isinstance(top.orelse[0], ast.If) \
            or core.norm_expr(top.orelse[0].test) != "self.subtomo_id_nameinrelion_df.columns":
        raise AnchorMissing("parse_tomo_id: if tomo column / elif subtomo column")
    br = top.orelse[0]
    sel = next((st for st in br.body if isinstance(st, ast.If) and _ver_compare(st.test)), None)
    if sel is None or len(sel.body) != 1 or len(sel.orelse) != 1:
        raise AnchorMissing("parse_tomo_id: fallback `if self.version <op> <const>: tomo_position = ...`")
    pos = []
    for st in (sel.body[0], sel.orelse[0]):
        if not (isinstance(st, ast.Assign) and isinstance(st.targets[0], ast.Name)):
            raise AnchorMissing("parse_tomo_id: fallback position assignment")
        try:
            pos.append((st.targets[0].id, int(ast.literal_eval(st.value))))
        except Exception:
            raise AnchorMissing("parse_tomo_id: fallback position is not an integer literal")
    if pos[0][0] != pos[1][0]:
        raise AnchorMissing("parse_tomo_id: fallback branches assign different names")
    txt = ast.unparse(br)
    if f"[i.rsplit('/', 1)[{pos[0][0]}] for i in micrograph_names]" not in txt:
        raise AnchorMissing("parse_tomo_id: fallback does not split the subtomogram name at its last slash")
    m = re.search(r"tomo_idx\.append\(float\(re\.findall\('\\\\d\+', j\)\[(\d+)\]\)\)", txt)
    if not m:
        raise AnchorMissing("parse_tomo_id: fallback k-th number")
    if "micrograph_names = relion_df[self.subtomo_id_name].tolist()" not in txt or "self.df['tomo_id'] = tomo_idx" not in txt:
        raise AnchorMissing("parse_tomo_id: fallback source column / target column")
    return list(_ver_compare(sel.test)), [pos[0][1], pos[1][1]], int(m.group(1))


def version_sniff(src):
    """`set_version`: [(clauses, tenths)] + default; a clause is an any-of list of column names, a rule needs all its clauses"""
    fn = _fn(src, "RelionMotl.set_version")
    chain = next((st for st in fn.body if isinstance(st, ast.If) and core.norm_expr(st.test) == "versionisnotNone"), None)
    if chain is None or core.norm_expr(chain.body[0]) != "self.version=version":
        raise AnchorMissing("set_version: `if version is not None: self.version = version`")

    def atom(t):
        if isinstance(t, ast.Compare) and len(t.ops) == 1 and isinstance(t.ops[0], ast.In) and isinstance(t.left, ast.Constant) \
                and core.norm_expr(t.comparators[0]) == "input_df.columns":
            return t.left.value
        raise AnchorMissing(f"set_version: test {ast.unparse(t)[:60]}")

    def clauses(t):
        if isinstance(t, ast.BoolOp) and isinstance(t.op, ast.Or):
            return [[atom(v) for v in t.values]]
        if isinstance(t, ast.BoolOp) and isinstance(t.op, ast.And):
            return [[atom(v)] for v in t.values]
        return [[atom(t)]]

    def ver_of(body):
        st = body[0]
        if isinstance(st, ast.Assign) and core.norm_expr(st.targets[0]) == "self.version":
            return _tenths(ast.literal_eval(st.value))
        raise AnchorMissing("set_version: branch does not assign self.version")
    rules, node = [], chain
    while len(node.orelse) == 1 and isinstance(node.orelse[0], ast.If):
        node = node.orelse[0]
        rules.append([clauses(node.test), ver_of(node.body)])
    if not node.orelse:
        raise AnchorMissing("set_version: no default branch")
    return rules, ver_of(node.orelse)


def pixel_source(src):
    """`set_pixel_size`: the rlnPixelSize column is taken per row"""
    fn = _fn(src, "RelionMotl.set_pixel_size")
    for st in fn.body:
        if isinstance(st, ast.If) and core.norm_expr(st.test) == "'rlnPixelSize'inself.relion_df.columns":
            if len(st.body) == 1 and isinstance(st.body[0], ast.Assign) and core.norm_expr(st.body[0].targets[0]) == "self.pixel_size":
                return core.norm_expr(st.body[0].value)
    raise AnchorMissing("set_pixel_size: `if 'rlnPixelSize' in self.relion_df.columns: self.pixel_size = ...`")


def version_fallback(src):
    """`create_relion_df`: `if self.version is None: self.version = <const>`"""
    fn = _fn(src, "RelionMotl.create_relion_df")
    for n in ast.walk(fn):
        if isinstance(n, ast.If) and core.norm_expr(n.test) == "self.versionisNone" and isinstance(n.body[0], ast.Assign):
            return _tenths(ast.literal_eval(n.body[0].value))
    raise AnchorMissing("create_relion_df: `if self.version is None: self.version = ...`")


def by_position(src):
    """every value copied from the particle table `self.df` into a RELION frame (`relion_df[...] = ...`, `self.relion_df[...] = ...`) in
    prepare_particles_data / create_relion_df / convert_to_motl, with HOW it is copied: by position (an array: `.values`, `.to_numpy()`) or
    as a Series (pandas then aligns it on the row labels - wrong as soon as the labels are not 0..n-1; fixes C03-fix-1/2 of round 5)"""
    out = []
    for q in ("RelionMotl.prepare_particles_data", "RelionMotl.create_relion_df", "RelionMotl.convert_to_motl"):
        fn = _fn(src, q)
        for st in ast.walk(fn):
            if not (isinstance(st, ast.Assign) and len(st.targets) == 1 and isinstance(st.targets[0], ast.Subscript)):
                continue
            tgt = st.targets[0]
            if ast.unparse(tgt.value) not in ("relion_df", "self.relion_df"):
                continue
            if "self.df[" not in ast.unparse(st.value):
                continue
            arrays = any((isinstance(n, ast.Attribute) and n.attr == "values") or
                         (isinstance(n, ast.Call) and isinstance(n.func, ast.Attribute) and n.func.attr == "to_numpy") for n in ast.walk(st.value))
            out.append((q.split(".")[-1] + ":" + _u(tgt.slice).strip("'\""), arrays))
    if not out:
        raise AnchorMissing("no `relion_df[...] = <something of self.df>` assignment found in prepare_particles_data / create_relion_df / convert_to_motl")
    return out


def version_forwarded(src):
    """which expression each stage of the export receives as its version: write_out -> create_relion_df / prepare_optics_data /
    create_final_output, create_relion_df -> prepare_particles_data (the keyword decides the whole layout; C03-fix-3 of round 5)"""
    out = []

    def arg(call, kw, pos):
        for k in call.keywords:
            if k.arg == kw:
                return _u(k.value)
        if pos is not None and len(call.args) > pos:
            return _u(call.args[pos])
        return "<not passed>"
    for q, callees in (("RelionMotl.write_out", (("create_relion_df", None), ("prepare_optics_data", 2), ("create_final_output", 2))),
                       ("RelionMotl.create_relion_df", (("prepare_particles_data", 2),))):
        fn = _fn(src, q)
        for name, pos in callees:
            calls = [n for n in ast.walk(fn) if isinstance(n, ast.Call) and _u(n.func) == "self." + name]
            if len(calls) != 1:
                raise AnchorMissing(f"{q}: {len(calls)} calls of self.{name} (expected one)")
            out.append((q.split(".")[-1] + "->" + name, arg(calls[0], "version", pos)))
    return out


DEFAULT_SIGS = ["RelionMotl.__init__", "RelionMotl.create_relion_df", "RelionMotl.write_out", "emmotl2relion", "relion2emmotl", "stopgap2relion", "relion2stopgap",
                "RelionMotl.prepare_particles_data", "RelionMotl.prepare_optics_data", "RelionMotl.create_final_output"]
DOC_DEFAULTS = [
    "RelionMotl.default_version=3.1",
    "RelionMotl.__init__(input_motl=None,version=None,pixel_size=None,binning=None,optics_data=None)",
    "RelionMotl.create_relion_df(tomo_format='',subtomo_format='',use_original_entries=False,keep_all_entries=False,version=None,add_object_id=False,"
    "add_subunit_id=False,binning=None,pixel_size=None,adapt_object_attr=False)",
    "RelionMotl.write_out(write_optics=True,tomo_format='',subtomo_format='',use_original_entries=False,keep_all_entries=False,version=None,add_object_id=False,"
    "add_subunit_id=False,binning=None,pixel_size=None,optics_data=None)",
    "emmotl2relion(output_motl_path=None,tomo_format='',subtomo_format='',relion_version=3.1,pixel_size=1.0,binning=1.0,flip_handedness=False,tomo_dim=None,"
    "write_optics=False,optics_data=None,add_object_id=False,add_subunit_id=False)",
    "relion2emmotl(output_motl_path=None,relion_version=None,pixel_size=None,binning=None,update_coordinates=False,flip_handedness=False,tomo_dim=None)",
    "stopgap2relion(output_motl_path=None,tomo_format='',subtomo_format='',relion_version=3.1,pixel_size=1.0,binning=1.0,flip_handedness=False,tomo_dim=None,"
    "write_optics=False,optics_data=None,add_object_id=False,add_subunit_id=False)",
    "relion2stopgap(output_motl_path=None,update_coordinates=False,reset_index=False)",
    "RelionMotl.prepare_particles_data(tomo_format='',subtomo_format='',version=None,pixel_size=None)",
    "RelionMotl.prepare_optics_data(use_original_entries=True,optics_data=None,version=None)",
    "RelionMotl.create_final_output(optics_df=None,version=None)",
]


def defaults(src):
    out = ["RelionMotl.default_version=" + ast.unparse(src.class_attr(REL, "RelionMotl", "default_version"))]
    for q in DEFAULT_SIGS:
        out.append(q + "(" + ",".join(f"{a}={d}" for a, d in signature_defaults(src, q)) + ")")
    return out


DIGEST_FNS = ["RelionMotl.set_pixel_size", "RelionMotl.set_version", "RelionMotl.get_version_from_file", "RelionMotl.convert_angles_from_relion",
              "RelionMotl.convert_angles_to_relion", "RelionMotl.convert_shifts", "RelionMotl.parse_tomo_id", "RelionMotl.parse_subtomo_id",
              "RelionMotl.convert_to_motl", "RelionMotl.adapt_original_entries", "Motl.get_coordinates", "Motl.get_angles",
              "emmotl2relion", "relion2emmotl", "stopgap2relion", "relion2stopgap",
              # round 5: the export chain itself and what the constructor / the file reader go through
              "RelionMotl.__init__", "RelionMotl.read_in", "RelionMotl.set_version_specific_names", "RelionMotl.get_version_specific_names",
              "RelionMotl.create_particles_data", "RelionMotl.prepare_optics_data", "RelionMotl.prepare_particles_data", "RelionMotl.create_final_output",
              "RelionMotl.create_relion_df", "RelionMotl.write_out", "Motl.assign_column",
              # round 7: the factory `Motl.load(path, "relion")` (a keyword slipped into its RelionMotl(...) call changes every import made through it)
              "Motl.load"]
# reviewed bodies: 20-hex digest of the whole normalised body (the Lean obligation `bodies_documented`) and a 6-hex digest per statement (only used to say WHICH
# statement changed; regenerate both with `PYTHONPATH=harness python harness/props/c03.py --doc-bodies` after reviewing a change of cryomotl.py)
DOC_DIGESTS = {
    'RelionMotl.set_pixel_size': 'cd53bdb29134c160a510',
    'RelionMotl.set_version': '35d3dc0cf51e83c4ca7e',
    'RelionMotl.get_version_from_file': 'f32c676e1d521b4f3601',
    'RelionMotl.convert_angles_from_relion': '51d6b0352c0f1037b8a6',
    'RelionMotl.convert_angles_to_relion': 'c180a7a0cfb16f91e1a1',
    'RelionMotl.convert_shifts': '4fda4c3f584c6a1c9544',
    'RelionMotl.parse_tomo_id': '9509a7885857b17f53dd',
    'RelionMotl.parse_subtomo_id': '46907eb095160cf307f7',
    'RelionMotl.convert_to_motl': '640bcfd8a6893abe3549',
    'RelionMotl.adapt_original_entries': '0ca7eb237685fa5b3211',
    'Motl.get_coordinates': 'e3cb48df81065e87cb32',
    'Motl.get_angles': 'f4be21b1166c0c9e5f82',
    'emmotl2relion': '1c34729ae8e6fe45e675',
    'relion2emmotl': '3a72b6332ec5e518e532',
    'stopgap2relion': '1756133e4ec8e86ade22',
    'relion2stopgap': '0950b80545c99734e1a9',
    'RelionMotl.__init__': '864eeb9d483c83a319f3',
    'RelionMotl.read_in': '2fc8cefe336ae15a138c',
    'RelionMotl.set_version_specific_names': '5b8f37e5f907f7c4c889',
    'RelionMotl.get_version_specific_names': '4db2210005d40ecac885',
    'RelionMotl.create_particles_data': '956514c4140fe33faeee',
    'RelionMotl.prepare_optics_data': '45829e896a26adb534b6',
    'RelionMotl.prepare_particles_data': 'd9ce4e58767c007dd61c',
    'RelionMotl.create_final_output': '0dff659bac8eece3fdc6',
    'RelionMotl.create_relion_df': '66126693ca6c8b3baa27',
    'RelionMotl.write_out': 'bbdd6b2a8ddc0e93ce9b',
    'Motl.assign_column': '869bcbd14a2ecc04d20d',
    'Motl.load': '0da0dd47b8eb310b03c0',
}
DOC_STMTS = {
    'RelionMotl.set_pixel_size': '0bd25b f1a38f 9e33a8 f14db6 e829d2 820d7c c31a2a a015c7 cdd80e 1cfacc d4e2ba 12d1fb ccdb70 eb0994 5a85ce adb1d7 4304eb f3aba6 9db7f3 7ba5a0'.split(),
    'RelionMotl.set_version': '39f008 f1a38f e01674 7ddfa6 e829d2 b406f8 03bdbf f3aba6 b3e510 065d8a eb0994 94367a 1653be 1920d4 595a43 213111'.split(),
    'RelionMotl.get_version_from_file': '3c6adc 345d19 af02a3 e29398 f3aba6 495ebe cb6904 65f172 7865e0 1920d4 22206c b41618'.split(),
    'RelionMotl.convert_angles_from_relion': 'be2f9c 1aeee8 696b8b e49877 e829d2 6ebffb 7ba5a0 f3aba6 8d972d 451c5d 95a71e f0984f 2482eb b520b5 418003'.split(),
    'RelionMotl.convert_angles_to_relion': '87676d e70d42 c3f83e bb0970 ddfc1a 6f82e8'.split(),
    'RelionMotl.convert_shifts': 'db60e2 c5dfaa e2cfce d403f8 a20f6e 112aad'.split(),
    'RelionMotl.parse_tomo_id': '6d5749 09a149 068739 8a4b61 f3aba6 da703d 6a777f 606940 91181f d95d50 e829d2 796195 f9a672 1abd8a eb0994 609830 651f35 2aa25a 172f3c eb0994 a1189e b779b9 7c05ac f577bb 221e81'.split(),
    'RelionMotl.parse_subtomo_id': 'abcfa6 9cfc71 068739 8a4b61 f3aba6 da703d 6a777f 606940 7f61e6 98e38c 1920d4 5572ba e05971 941320 4f804f 83bf54 160727 934676 e18e3e 6baaff 932443 acba8f 752d44 eb0994 527306 5a55e2 8f6a32'.split(),
    'RelionMotl.convert_to_motl': '3c138a af0c13 2b706f cf3e7f 1a3627 1ea175 2f4076 2e70cc fdc82a c5dfaa da17c5 a5f5f1 d6526a 42db7a ec67aa ddea6d 4a453f'.split(),
    'RelionMotl.adapt_original_entries': '06ee0d 4fd591 0e08a9 216792 7ed7aa 1b39fc 8acf75 9cdec7 c15e6f e829d2 3d3d6f b41618'.split(),
    'Motl.get_coordinates': 'e69a68 438adb e829d2 9fa134 b41618'.split(),
    'Motl.get_angles': 'e69a68 af3587 e829d2 305d92 48051a'.split(),
    'emmotl2relion': '2a9edb 0e9939 d5ae2f 52930a 9db2ad 681a5f 57a61e 2b84bc'.split(),
    'relion2emmotl': 'c7fdc7 d5ae2f 52930a 0fcfbe 635195 818740 681a5f edb48f 2b84bc'.split(),
    'stopgap2relion': 'ade866 0e9939 d5ae2f 52930a 9db2ad 681a5f 57a61e 2b84bc'.split(),
    'relion2stopgap': '5ab83e 4c33d5 635195 818740 681a5f d2018a 2b84bc'.split(),
    'RelionMotl.__init__': 'f467dd 8d76d1 c4aeca 85c6b5 d4c98c c6c649 974a08 8f73f6 8cf7e2 eaf248 a71b28 402bc6 bed2bf 4df6a4 f8e4e9 96223a a564ea db0fda f94c7b e3045c 171087 171e1a f3aba6 caeb3b 5e8c13 eb0994 efb1b8 8a483e 3277f7 1920d4 47008b e829d2 3df5b1 704f51 2f4076'.split(),
    'RelionMotl.read_in': '5a03de a0cec1 ee1369 8b5e55 3bf980 d6beec 270410 578dbc'.split(),
    'RelionMotl.set_version_specific_names': '5b8f37'.split(),
    'RelionMotl.get_version_specific_names': '983433 5d5990 2480a2 819110 c5e8cb e69a23 c6f154 e829d2 796f34 9c2e26 56ad2b 2c8d68 14c03f f3aba6 40e4e1 f95e77 2c8d68 14c03f 89a6c5'.split(),
    'RelionMotl.create_particles_data': '044ded 4ba37a e829d2 796f34 7e87dc f3aba6 30dbd0 b41618'.split(),
    'RelionMotl.prepare_optics_data': '2f8d4b 6b563f 09bc0b 820d7c e54433 f3aba6 0bae7d e829d2 242517 8cb888 d1bf2c bcd380 1920d4 249cd4 eb0994 aefb09 4c2af6 1920d4 47008b f3aba6 44a903 dd2a54 eb0994 991ed3 d8167d 1920d4 993a28 b41618'.split(),
    'RelionMotl.prepare_particles_data': '48760b 2c77ed 822f62 783696 333bba 395449 eb0994 994028 f3aba6 bb6fa1 d1de9f 983433 6b563f 3fa4e0 0d3cd3 179ba2 8125a1 574b6e f3385d e829d2 baa779 e8ce7f 972add b93440 f31027 b4d391 955414 e829d2 aa3f54 a00e9a e8ce7f 46afb6 f9c0d9 ca6144 14c1ed c14938 e97f27 bf11ce 376085 c33d03 215562'.split(),
    'RelionMotl.create_final_output': '983433 f85a08 e829d2 4b9531 0ba38e 3d9c5d 16007d e829d2 50950f a9d75c 754cd3 f3aba6 fd0089 32b4e6 cda23c'.split(),
    'RelionMotl.create_relion_df': '983433 d67600 810c81 6b563f 29027a d61c69 3fa4e0 0d3cd3 09bc0b aa5edd b13baf b900d0 163f6c 799264 22fcb0 e829d2 d6c6af 70aacc a32529 8e083b 8970bd 972042 500c8b bc39f3 ec3a04 8553a7 9843de 632978 072804 f9b8d0 72a241 1becc2 96e118 b72f64 b41618'.split(),
    'RelionMotl.write_out': '1774a8 e1e497 9981db e829d2 e145a5 8c6d6e fd982f'.split(),
    'Motl.assign_column': '86f5e1 1b8a76 dca186'.split(),
    'Motl.load': 'ae6159 e0e4e5 c8d54c b5519e e829d2 371e00 5c3ebd f3aba6 14db4c 0b0164 eb0994 cec7a6 1b0948 1920d4 47008b'.split(),
}


def _slots(xs):
    return "[" + ", ".join(f"({core.lean_str(n)}, {'true' if neg else 'false'}, {k})" for n, neg, k in xs) + "]"


def _chars(s):
    return "[" + ", ".join("'" + c + "'" for c in s) + "]"


def _b(x):
    return "true" if x else "false"


DOC_BRANCHES = [["<=", 30, "rlnMicrographName", "rlnImageName", ["rlnOriginX", "rlnOriginY", "rlnOriginZ"], "data_"],
                ["==", 31, "rlnMicrographName", "rlnImageName", ["rlnOriginXAngst", "rlnOriginYAngst", "rlnOriginZAngst"], "data_particles"],
                ["else", 0, "rlnTomoName", "rlnTomoParticleName", ["rlnOriginXAngst", "rlnOriginYAngst", "rlnOriginZAngst"], "data_particles"]]
DOC_RENUMBER = ["'rlnRandomSubset'inrelion_df.columnsandrelion_df['rlnRandomSubset'].isin([1,2]).all()", "halfset_num=relion_df['rlnRandomSubset'].values%2",
                "c=1ifhalfset_num[0]==1else2", "subtomo_id_num=[c]",
                "foriinrange(1,self.df.shape[0]):;ifc%2==1andhalfset_num[i]==1or(c%2==0andhalfset_num[i]==0):;c+=2;else:;c+=1;subtomo_id_num.append(c)",
                "self.df['subtomo_id']=subtomo_id_num"]
DOC_SNIFF = [[[["rlnTomoName", "rlnTomoParticleName"]], 40], [[["rlnMicrographName"], ["rlnOriginXAngst"]], 31], [[["rlnMicrographName"], ["rlnOriginX"]], 30]]
DOC_BY_POSITION = [["prepare_particles_data:tomo_name", True], ["prepare_particles_data:tomo_id", True], ["prepare_particles_data:subtomo_name", True],
                   ["prepare_particles_data:tomo_id", True], ["prepare_particles_data:subtomo_id", True], ["create_relion_df:rlnClassNumber", True],
                   ["create_relion_df:ccObjectName", True], ["create_relion_df:ccSubunitName", True], ["convert_to_motl:ccSubtomoID", True]]
DOC_FORWARDED = [["write_out->create_relion_df", "version"], ["write_out->prepare_optics_data", "version"], ["write_out->create_final_output", "version"],
                 ["create_relion_df->prepare_particles_data", "version"]]


def translate(src):
    """every anchor falls back to the DOCUMENTED value when it is missing (the failed anchor is recorded and `anchorsOk` is false, which
    breaks `anchors_ok`): the model then keeps the documented behaviour and the correspondence run can still look for a failing input"""
    A = src.anchor
    c30 = A("RelionMotl.columns_v3_0", lambda: src.literal(src.class_attr(REL, "RelionMotl", "columns_v3_0")))
    c31 = A("RelionMotl.columns_v3_1", lambda: src.literal(src.class_attr(REL, "RelionMotl", "columns_v3_1")))
    c4 = A("RelionMotl.columns_v4", lambda: src.literal(src.class_attr(REL, "RelionMotl", "columns_v4")))
    nb = A("get_version_specific_names:branches", lambda: [list(b) for b in name_branches(src)])
    ex = A("convert_angles_to_relion:from_euler/as_euler/slots", lambda: list(export_call(src)))
    im = A("convert_angles_from_relion:from_euler/as_euler/slots", lambda: list(import_call(src)))
    sh = A("convert_shifts:negate/scale", lambda: list(shifts(src)))
    co = A("create_relion_df+get_coordinates:complete-position", lambda: list(coords(src)))
    oz = A("prepare_particles_data:origin=zeros", lambda: origin_zero(src))
    hs = A("create_relion_df:halfset-by-parity", lambda: [list(p) for p in halfset_table(src)])
    ip = A("convert_to_motl:coordinate/class pairs", lambda: list(import_pairs(src)))
    pn = A("parse_tomo_id/parse_subtomo_id:number positions", lambda: list(parse_numbers(src)))
    rs = A("parse_subtomo_id:halfset-renumber-loop", lambda: renumber_skeleton(src))
    A("parse_subtomo_id:geom3+uniqueness", lambda: geom3_and_unique(src))
    fv = A("get_version_from_file:table", lambda: [list(p) for p in file_versions(src)])
    tf = A("parse_tomo_id:fallback-from-subtomogram-name", lambda: list(tomo_fallback(src)))
    vs = A("set_version:column-sniffing", lambda: list(version_sniff(src)))
    pxs = A("set_pixel_size:rlnPixelSize-per-row", lambda: pixel_source(src))
    vf = A("create_relion_df:version-fallback", lambda: version_fallback(src))
    df = A("signature-defaults", lambda: defaults(src))
    bp = A("frames-filled-by-position", lambda: [list(t) for t in by_position(src)])
    vw = A("export-version-forwarded", lambda: [list(t) for t in version_forwarded(src)])
    dg = A("whole-body-digests", lambda: [[q, body_digest(src, q)] for q in DIGEST_FNS])
    for q in DIGEST_FNS:   # the normalised bodies go into the evidence; a changed body fails HERE with the statement that moved
        A("body:" + q, lambda q=q: body_checked(src, q))
    # (`is None`, never `or`: a value that was FOUND but is falsy - an emptied column list, a 0 - must reach the Lean obligations as it is)
    c30 = DOC["columnsV30"] if c30 is None else c30; c31 = DOC["columnsV31"] if c31 is None else c31; c4 = DOC["columnsV4"] if c4 is None else c4
    nb = DOC_BRANCHES if nb is None else nb
    ex = ["ZXZ", "ZYZ", ["phi", "theta", "psi"], [("rlnAngleRot", True, 0), ("rlnAngleTilt", False, 1), ("rlnAnglePsi", True, 2)]] if ex is None else ex
    im = ["ZYZ", "zxz", ["rlnAngleRot", "rlnAngleTilt", "rlnAnglePsi"], [("phi", True, 2), ("theta", True, 1), ("psi", True, 0)]] if im is None else im
    sh = [["shift_x", "shift_y", "shift_z"], True, (">=", 31, "/")] if sh is None else sh
    co = [["rlnCoordinateX", "rlnCoordinateY", "rlnCoordinateZ"], [["x", "y", "z"], ["shift_x", "shift_y", "shift_z"]], "+"] if co is None else co
    oz = True if oz is None else oz
    hs = [[0, 2], [1, 1]] if hs is None else hs
    ip = [[("x", "rlnCoordinateX"), ("y", "rlnCoordinateY"), ("z", "rlnCoordinateZ")], ("class", "rlnClassNumber")] if ip is None else ip
    pn = [0, 1, (">=", 40)] if pn is None else pn
    rs = DOC_RENUMBER if rs is None else rs
    fv = [["data_", 30], ["data_particles+tomo", 40], ["data_particles", 31]] if fv is None else fv
    tf = [["<=", 31], [-1, 0], 0] if tf is None else tf
    vs = [DOC_SNIFF, 31] if vs is None else vs
    pxs = "self.relion_df['rlnPixelSize'].values" if pxs is None else pxs
    vf = 31 if vf is None else vf
    df = DOC_DEFAULTS if df is None else df
    dg = [[q, DOC_DIGESTS.get(q, "")] for q in DIGEST_FNS] if dg is None else dg
    bp = DOC_BY_POSITION if bp is None else bp
    vw = DOC_FORWARDED if vw is None else vw
    branches = "[" + ", ".join(f"({core.lean_str(b[0])}, {b[1]}, {core.lean_str(b[2])}, {core.lean_str(b[3])}, {core.lean_str_list(b[4])}, {core.lean_str(b[5])})" for b in nb) + "]"
    sniff = "[" + ", ".join("([" + ", ".join(core.lean_str_list(cl) for cl in r[0]) + f"], {r[1]})" for r in vs[0]) + "]"
    return f"""-- GENERATED by harness/props/c03.py from {REL}; do not edit
namespace CryoCat.Gen.C03
def anchorsOk : Bool := {_b(src.ok)}
def columnsV30 : List String := {core.lean_str_list(c30)}
def columnsV31 : List String := {core.lean_str_list(c31)}
def columnsV4 : List String := {core.lean_str_list(c4)}
def nameBranches : List (String × Nat × String × String × List String × String) := {branches}
def exportFromSeq : List Char := {_chars(ex[0])}
def exportToSeq : List Char := {_chars(ex[1])}
def exportAngleSource : List String := {core.lean_str_list(ex[2])}
def exportSlots : List (String × Bool × Nat) := {_slots(ex[3])}
def importAngleSource : List String := {core.lean_str_list(im[2])}
def importFromSeq : List Char := {_chars(im[0])}
def importToSeq : List Char := {_chars(im[1])}
def importSlots : List (String × Bool × Nat) := {_slots(im[3])}
def shiftFields : List String := {core.lean_str_list(sh[0])}
def shiftNegated : Bool := {_b(sh[1])}
def shiftScaleCmp : String := {core.lean_str(sh[2][0])}
def shiftScaleThr : Nat := {sh[2][1]}
def shiftScaleOp : String := {core.lean_str(sh[2][2])}
def coordColumns : List String := {core.lean_str_list(co[0])}
def coordTerms : List (List String) := [{", ".join(core.lean_str_list(t) for t in co[1])}]
def coordOp : String := {core.lean_str(co[2])}
def exportOriginZero : Bool := {_b(oz)}
def halfsetByParity : List (Nat × Nat) := [{", ".join(f"({a}, {b})" for a, b in hs)}]
def importCoordPairs : List (String × String) := [{", ".join(f"({core.lean_str(a)}, {core.lean_str(b)})" for a, b in ip[0])}]
def classPair : String × String := ({core.lean_str(ip[1][0])}, {core.lean_str(ip[1][1])})
def tomoNumberIndex : Nat := {pn[0]}
def subtomoNumberIndex : Nat := {pn[1]}
def subtomoWholeCmp : String := {core.lean_str(pn[2][0])}
def subtomoWholeThr : Nat := {pn[2][1]}
def renumberSkeleton : List String := {core.lean_str_list(rs)}
def fileVersions : List (String × Nat) := [{", ".join(f"({core.lean_str(a)}, {b})" for a, b in fv)}]
def tomoFallbackCmp : String := {core.lean_str(tf[0][0])}
def tomoFallbackThr : Nat := {tf[0][1]}
def tomoFallbackPositions : Int × Int := ({tf[1][0]}, {tf[1][1]})
def tomoFallbackIndex : Nat := {tf[2]}
def versionSniff : List (List (List String) × Nat) := {sniff}
def versionSniffDefault : Nat := {vs[1]}
def pixelSizeFromColumn : String := {core.lean_str(pxs)}
def exportVersionFallback : Nat := {vf}
def defaults : List String := {core.lean_str_list(df)}
def bodyDigests : List (String × String) := [{", ".join(f"({core.lean_str(a)}, {core.lean_str(b)})" for a, b in dg)}]
def filledByPosition : List (String × Bool) := [{", ".join(f"({core.lean_str(a)}, {_b(b)})" for a, b in bp)}]
def versionForwarded : List (String × String) := [{", ".join(f"({core.lean_str(a)}, {core.lean_str(b)})" for a, b in vw)}]
end CryoCat.Gen.C03
"""


# =====================================================================================================
# harness part: generators, adapters to the real code, independent STAR reader/writer, judge
# =====================================================================================================
import os, math, json, tempfile
import numpy as np
from core import f2b, b2f

PROP = "C03"
COUNT = {"quick": 90, "thorough": 2000, "search": 500}
PARALLEL = True
RULE = ("two case kinds from one PRNG. 'cc': a cryoCAT particle list (N in 1..300, mostly 1..25) x version in {3.0,3.1,4.0} x pixel size x name formats "
        "('' / documented $xxx,$yyy paddings incl. too-narrow paddings and leftover shorter sequences) x optics block on/off (>=3.1), exported by "
        "create_relion_df (A), by write_out (B, file re-read by the harness's own STAR reader), re-imported from the DataFrame (C; version and pixel size sniffed from the "
        "frame in a share) and from the file (D), through emmotl2relion/relion2emmotl (E) and stopgap2relion (G, share). 20 % of the lists hold x,y,z as int64 columns "
        "with fractional shifts. ~30 % of the calls OMIT a keyword whose documented default equals the wanted value (version 3.1, binning for < 4.0 / the converters, "
        "empty formats, write_optics, pixel_size 1.0) so the defaults are exercised. 35 % pass the SAME caller-owned DataFrame object to every call; it is compared with "
        "a pristine copy after each call. 'rln': RELION rows written by the harness's own writer (origins in px for 3.0, Angstrom for >=3.1; pixel size from a PER-ROW "
        "rlnPixelSize column (per tomogram / per row / uniform), a single-group optics block, the pixel_size argument, or the documented default 1.0; half-set column "
        "both values / single / absent; tomogram-name column present or ABSENT (fallback: number read from the subtomogram name); columns in canonical or SHUFFLED "
        "order; version passed or SNIFFED from the columns; coordinates float or whole numbers held as int64 / written without decimal point) imported from a "
        "DataFrame (M) and from the file (F); in a share the same DataFrame object is imported twice (M2, frame compared with a pristine copy) and the same file path is "
        "rewritten with the rows reversed and imported again (F2); import -> drop/reorder rows -> create_relion_df(use_original_entries=True[, keep_all_entries=True]) "
        "(U; the user's row selection with or without reset_index); relion2stopgap from the file (H). In 40 % of the files with an optics block the data_optics block is written AFTER data_particles (legal STAR). Half of the imports that need no keyword (D, F, F2, M) go through the "
        "factory `Motl.load(x, 'relion')` / `Motl.load(x, motl_type='relion')` instead of the constructor. An angle class sits on both sides of the threshold (1e-7 rad) at "
        "which scipy's as_euler declares gimbal lock; inside it rotations are judged with the conditioned allowance 3 sin(theta) per as_euler call. ROW LABELS (round 5): cc lists get non-default labels the way users get "
        "them - cryoCAT's own remove_feature (scalar / list / array argument), a slice, a re-ordering, pd.concat (duplicated labels) - before create_relion_df / write_out, and the "
        "converter functions get frames carrying such labels; rln DataFrames carry filtered / offset / permuted / duplicated labels. EXPORT VERSION (round 5): given to the "
        "constructor, or only by the `version` keyword of create_relion_df / write_out, or by the keyword AGAINST another constructor version; version 3.0 also with write_optics "
        "left at its default True (B0: the documented refusal `Warning`, anything else is judged). PIXEL SIZE: in a share of the >= 3.1 imports the explicit argument is given "
        "NEXT TO a column / optics block (the argument wins, as documented). DTYPES: 8 % of the cc lists and 6 % of the rln tables have EVERY numeric column int64 (an "
        "all-integer STAR table); a share of the positions / shifts are decimals with 2-3 places. Orientation classes: uniform, gimbal lock (theta in {0,180,-180,360}), angles outside the canonical ranges, 45-degree "
        "lattice, near-gimbal. Positions/shifts of either sign, on a 1/64 grid (exact through 6-decimal files) or arbitrary doubles. BINNING IS OUTSIDE THE QUANTIFIER: "
        "only binning=1 (or the keyword omitted where the default is 1 / unused) is generated. non-trivial = N>=2, some non-zero shift/origin, some theta outside "
        "{0,180} and a format or name with padding; distinct = distinct case content. Half-set columns with a single value (always so for N=1), parities disagreeing "
        "with the parsed numbers, and repeated subtomogram numbers are generated. Not generated: multi-group optics blocks, numeric name cells without a tomogram "
        "column (their code is frozen by `bodies_documented`); under keep_all_entries=True the position is judged only for rows whose loaded origin is zero (the "
        "documented mode keeps coordinates as loaded)")
ASSUMPTIONS = ["scipy Rotation.from_euler/as_euler: as_euler(seq) returns a triple whose from_euler(seq) matrix is the matrix given (post-condition of the theorems; "
               "checked on every generated particle through the driver's `post` vs `fed` matrices, and by probes incl. gimbal lock); the model itself runs with the "
               "driver's own extractor, whose post-condition is checked the same way",
               "numpy float64 +, unary -, / are IEEE-754 and equal Lean Float (coordinates and shifts compared bit for bit in memory)",
               "Lean Float.cos/sin and numpy cos/sin agree to 1e-12 on the generated angles (matrices compared with that tolerance)",
               "Python str(int(x)).zfill(k), str.replace, re.findall(r'\\d+') behave as modelled (generated names compared string for string)",
               "pandas to_numeric parses the decimal text of a STAR cell to the nearest double up to 1e-9 relative (file paths use tolerances)"]
TRUSTED = ["harness STAR reader/writer in props/c03.py (read_star, write_relion_star)", "harness rotation matrices Rz/Ry/Rx (numpy cos/sin) in props/c03.py",
           "driver's own Euler extractors (Drv/C03 extractZYZ/extractzxz): their post-condition is checked per particle (`own_post` vs `fed`)"]
# Tolerances (H4), each against its worst legitimate input. What is compared is always a 3x3 rotation MATRIX rebuilt from angles (or a position), never the angles:
# the map angles -> matrix is 1-Lipschitz per angle (entries are products of cos/sin), so it is well conditioned everywhere, gimbal lock included - the
# ill-conditioning of as_euler next to theta = 0/180 (angles off by ~ulp/sin(theta)) moves rot and psi in opposite directions and cancels in the product.
#  TOL_MEM 1e-9  in memory: three angles up to 720 deg, each carrying <= ~8 ulp(720) = 9e-13 deg = 1.6e-14 rad from scipy's quaternion round trip and the harness's own
#                radians(), plus ~1e-15 per matrix product: worst observed 4e-13; 1e-9 leaves three orders of magnitude and is far below any sign/slot error (>= 1e-5 for
#                the generated angles, which are never within 1e-5 deg of a symmetric configuration except the exact gimbal classes).
#  TOL_FILE 1e-6 through a STAR file: cryoCAT's writer prints repr(float) (exact), the harness's writer prints 6 decimals, i.e. <= 5e-7 deg = 8.7e-9 rad per angle,
#                three angles -> <= 2.7e-8 on any matrix entry (first order); 1e-6 is 40x that.
#  POS_TOL_FILE 1.5e-6 positions through cryoCAT's writer are exact (repr); through the harness's 6-decimal writer the generated values sit on the 1/64 grid or are
#                whole numbers (exact in 6 decimals), so the only error is pandas' decimal parser (<= 1 ulp(4000) = 4.5e-13); 1.5e-6 covers a 6-decimal re-rounding of
#                x + shift (<= 2 * 5e-7 + ulp) should a writer ever round. In memory positions and shifts are compared bit for bit (same IEEE operation on both sides;
#                int64 x + float shift is exact for |x| < 2^53).
#  TOL_MODEL 1e-11 Lean Float.cos/sin vs numpy on the same double: both within 1 ulp of the true value for |angle| <= 720 deg -> products differ by <= ~1e-15; 1e-11.
#  TOL_POST 1e-8 post-condition of an Euler extractor (scipy's or the driver's own): matrix rebuilt from its answer vs the matrix fed: same estimate as TOL_MEM, kept one
#                order looser because the driver's extractor normalises with a square root next to gimbal lock (error ~ sqrt(eps) * |sin theta| <= 1.5e-8 * 1e-2 there).
#  GIMBAL ZONE (round 7, audit 3): the cancellation argument above holds for as_euler's regular branch only. scipy DECLARES gimbal lock when theta is within 1e-7 rad
#                (5.7296e-6 deg) of 0 or pi: it then puts the whole azimuth into one angle, sets the third to 0 and KEEPS theta, so the returned triple is
#                Rz(0)Rx(theta)Rz(phi+psi) instead of Rz(psi)Rx(theta)Rz(phi); the two differ by at most 2 sin(theta) per matrix entry (measured exactly 2.00 sin(theta) at
#                worst by C05 / C10 on > 10^4 triples, and 1e-15 just outside the zone). This is the representation limit of scipy's Euler triples next to the pole
#                (<= 2e-7, below the 6-decimal STAR precision of an angle: 5e-7 deg = 8.7e-9 rad ... per angle, but three orders above TOL_MEM), not a statement about
#                cryoCAT. `_gimbal_allow(M)` = 3 sin(theta) + 1e-12 while sin(theta) <= 1.5e-7 (margin for the zone test itself), 0 outside; sin(theta) = |(M13, M23)| of the
#                matrix handed to as_euler. One allowance per as_euler call on the way: export and import 1x, round trips C/D/E and original entries U 2x (the exported
#                tilt is again inside the zone). The same allowance is added to the post-condition / model-vs-implementation comparisons (corr).
TOL_MEM, TOL_FILE, TOL_MODEL, TOL_POST = 1e-9, 1e-6, 1e-11, 1e-8
POS_TOL_FILE = 1.5e-6
GIMBAL_ZONE = 1.5e-7
# spec tolerance of the clauses that involve no trigonometry (round 7, item 3): the statement says "within STAR precision"; a few ulp (relative 1e-12, absolute 1e-12
# next to 0) separate `-o / px` from `-o * (1 / px)`; bit-for-bit equality is still compared against the Lean model, as `corr`
PREC = 1e-12


def _gimbal_allow(M, calls=1):
    st = math.hypot(float(M[0][2]), float(M[1][2]))
    return calls * (3.0 * st + 1e-12) if 1e-14 < st <= GIMBAL_ZONE else 0.0     # (exactly at the pole nothing is dropped: no allowance)


def _near(a, want, tol):
    """|a - want| within `tol`, and never tighter than a few ulp (PREC relative / absolute)"""
    return abs(a - want) <= max(tol, PREC * max(1.0, abs(want)))

VERS = {30: 3.0, 31: 3.1, 40: 4.0}
DOC_NAMES = {30: ("rlnMicrographName", "rlnImageName", ["rlnOriginX", "rlnOriginY", "rlnOriginZ"], "data_"),
             31: ("rlnMicrographName", "rlnImageName", ["rlnOriginXAngst", "rlnOriginYAngst", "rlnOriginZAngst"], "data_particles"),
             40: ("rlnTomoName", "rlnTomoParticleName", ["rlnOriginXAngst", "rlnOriginYAngst", "rlnOriginZAngst"], "data_particles")}
MOTL_COLS = ["score", "geom1", "geom2", "subtomo_id", "tomo_id", "object_id", "subtomo_mean", "x", "y", "z", "shift_x", "shift_y", "shift_z",
             "geom3", "geom4", "geom5", "phi", "psi", "theta", "class"]


# ------------------------------------------------------------------ independent rotation matrices
def _cs(d):
    r = math.radians(d)
    return math.cos(r), math.sin(r)


def Rz(d):
    c, s = _cs(d); return np.array([[c, -s, 0.0], [s, c, 0.0], [0.0, 0.0, 1.0]])


def Rx(d):
    c, s = _cs(d); return np.array([[1.0, 0.0, 0.0], [0.0, c, -s], [0.0, s, c]])


def Ry(d):
    c, s = _cs(d); return np.array([[c, 0.0, s], [0.0, 1.0, 0.0], [-s, 0.0, c]])


def mat_particle(phi, theta, psi):
    """cryoCAT particle rotation: extrinsic zxz = Rz(psi) Rx(theta) Rz(phi)"""
    return Rz(psi) @ Rx(theta) @ Rz(phi)


def mat_relion(rot, tilt, psi):
    """RELION: intrinsic ZYZ = Rz(rot) Ry(tilt) Rz(psi)"""
    return Rz(rot) @ Ry(tilt) @ Rz(psi)


def _dev(a, b):
    return float(np.max(np.abs(np.asarray(a, dtype=float) - np.asarray(b, dtype=float))))


def _m(bits9):
    return np.array([b2f(b) for b in bits9]).reshape(3, 3)


# ------------------------------------------------------------------ independent STAR reader / writer
def read_star(path):
    """[(specifier, [columns], [[cell strings]])] - a line tokenizer written for this check only"""
    blocks, cur, state = [], None, 0
    for raw in open(path).read().split("\n"):
        line = raw.strip()
        if line.startswith("#") or line == "":
            if state == 3:
                state = 0
            continue
        if line.startswith("data_"):
            cur = [line, [], []]; blocks.append(cur); state = 1; continue
        if cur is None:
            continue
        if line == "loop_":
            state = 2; continue
        if state in (1, 2) and line.startswith("_"):
            cur[1].append(line.split()[0][1:]); state = 2; continue
        state = 3
        cur[2].append(line.split())
    return [tuple(b) for b in blocks]


def _fmt(v):
    return v if isinstance(v, str) else (str(v) if isinstance(v, int) else "%.6f" % v)


def write_relion_star(path, ver, cols, rows, optics_px=None, style=0, optics_last=False):
    """RELION-like layout (as relion itself writes it: `# version`, aligned cells), not cryoCAT's writer. `optics_last`: the data_optics block is placed AFTER the
    particle block - legal STAR (blocks are named, their order is free) and what an independent writer may emit (round 8)"""
    sep = ["  ", "\t", " "][style % 3]

    def optics(f):
        f.write("\ndata_optics\n\nloop_ \n")
        oc = ["rlnOpticsGroupName", "rlnOpticsGroup", "rlnSphericalAberration", "rlnVoltage", "rlnImagePixelSize", "rlnImageSize", "rlnImageDimensionality"]
        for i, c in enumerate(oc, 1):
            f.write(f"_{c} #{i} \n")
        f.write(sep.join(["opticsGroup1", "1", "2.700000", "300.000000", "%.6f" % optics_px, "64", "3"]) + "\n \n")

    def particles(f):
        f.write("\n" + ("data_" if ver == 30 else "data_particles") + "\n\nloop_ \n")
        for i, c in enumerate(cols, 1):
            f.write(f"_{c} #{i} \n")
        for r in rows:
            f.write(sep.join(_fmt(v).rjust(12) if style % 2 == 0 else _fmt(v) for v in r) + "\n")
        f.write(" \n")
    with open(path, "w") as f:
        if ver >= 31:
            f.write("\n# version 30001\n")
        if optics_px is not None and not optics_last:
            optics(f)
            if ver >= 31:
                f.write("\n# version 30001\n")
        particles(f)
        if optics_px is not None and optics_last:
            if ver >= 31:
                f.write("\n# version 30001\n")
            optics(f)


# ------------------------------------------------------------------ generators
def _grid(rng, lo, hi):
    return rng.randint(int(lo * 64), int(hi * 64)) / 64.0


def _angles(rng, cls):
    if cls == "uniform":
        return [rng.uniform(-180, 180), rng.uniform(0, 180), rng.uniform(-180, 180)]
    if cls == "gimbal":
        return [rng.uniform(-360, 360), rng.choice([0.0, 180.0, -180.0, 360.0, -0.0]), rng.uniform(-360, 360)]
    if cls == "noncanon":
        return [rng.uniform(-720, 720), rng.uniform(-360, 360), rng.uniform(-720, 720)]
    if cls == "lattice":
        return [45.0 * rng.randint(-8, 8), 45.0 * rng.randint(-4, 8), 45.0 * rng.randint(-8, 8)]
    if cls == "neargimbal":
        return [rng.uniform(-180, 180), rng.choice([0.0, 180.0]) + rng.choice([-1, 1]) * 10 ** rng.uniform(-5, -2), rng.uniform(-180, 180)]
    if cls == "gimbalzone":   # both sides of the threshold at which scipy's as_euler declares gimbal lock: 1e-7 rad = 5.7296e-6 degrees from 0 or 180
        d = rng.choice(NEAR_POLE) if rng.random() < 0.7 else 10.0 ** rng.uniform(-10, -4)
        return [rng.uniform(-180, 180), rng.choice([0.0, 180.0, -180.0]) + rng.choice([-1, 1]) * d, rng.uniform(-180, 180)]
    return [round(rng.uniform(-180, 180), 3), round(rng.uniform(-10, 190), 3), round(rng.uniform(-180, 180), 3)]


NEAR_POLE = [1e-9, 1e-7, 1e-6, 3e-6, 4e-6, 5e-6, 5.7e-6, 5.72957e-6, 5.73e-6, 5.8e-6, 6e-6, 1e-5, 1e-4]   # degrees
ANGLE_CLASSES = ["uniform", "gimbal", "noncanon", "lattice", "neargimbal", "decimal", "gimbalzone"]


# how an import that needs no keyword is made: the constructor, or the factory Motl.load with the type given positionally / by keyword (round 7, item 1)
LOADERS = ["ctor", "ctor", "load_pos", "load_kw"]


def _load(cryomotl, case, src, kw):
    """RelionMotl(src, **kw); through the factory when the case says so and no keyword is needed (Motl.load has none to pass on)"""
    how = case.get("loader", "ctor")
    if kw or how == "ctor":
        return cryomotl.RelionMotl(src, **kw)
    return cryomotl.Motl.load(src, "relion") if how == "load_pos" else cryomotl.Motl.load(src, motl_type="relion")


def _px(rng):
    return rng.choice([1.0, 1.0, 1.35, 2.5, 0.8275, 4.0, 10.71, 13.48, round(rng.uniform(0.5, 15), 4)])


def _n(rng, tier):
    k = rng.random()
    if k < 0.08:
        return 1
    if k < 0.75:
        return rng.randint(2, 25)
    if k < 0.95 or tier == "search":
        return rng.randint(26, 80)
    return rng.randint(81, 300)


def _formats(rng, ver, px):
    """documented formats only: <=3.1 tomoID_subtomoID_pixelSize in the last path component; 4.0 TS_tomoID / TS_tomoID/subtomoID"""
    kx, ky = rng.choice([1, 2, 3, 4, 6]), rng.choice([1, 2, 3, 5, 7])
    X, Y = "$" + "x" * kx, "$" + "y" * ky
    d = rng.choice(["", "/data/run2/", "sub/", "/p/$x/" if kx > 1 else "/p/", "/a1/b22/"])
    pre = rng.choice(["", "TS_", "tomo", "t-"])
    sep = rng.choice(["_", "-", "_s", "_p"])
    if ver < 40:
        suf = rng.choice(["_%gA.mrc" % px, ".mrc", "_bin4.rec", ""])
        tf = "" if rng.random() < 0.2 else d + pre + X + rng.choice(["_%g.mrc" % px, ".rec", ""])
        sf = "" if rng.random() < 0.15 else d + pre + X + sep + Y + suf
    else:
        tf = "" if rng.random() < 0.2 else pre + X
        sf = "" if rng.random() < 0.15 else rng.choice([d + pre + X + "/" + Y, "parts/" + Y, d + "TS_" + X + "/" + Y])
    return tf, sf


def _sub_ids(rng, n):
    k = rng.random()
    if k < 0.35:
        start = rng.randint(1, 50)
        ids = list(range(start, start + n))
    elif k < 0.8:
        ids = rng.sample(range(1, 6000), n)
        if rng.random() < 0.5:
            ids.sort()
    elif k < 0.9:  # one parity only, unique (half-set column single-valued)
        ids = [2 * i + (1 if k < 0.85 else 2) for i in rng.sample(range(0, 3000), n)]
    else:  # repeated numbers (per-tomogram numbering) with both parities present
        ids = [rng.randint(1, max(2, n // 2)) for _ in range(n)]
        if n >= 2:
            ids[0], ids[1] = 1, 2
    return ids


def gen_cc(rng, tier, force=None):
    force = {} if force is None else force
    ver = force.get("ver", rng.choice([30, 31, 40]))
    px = _px(rng)
    n = force.get("n") or _n(rng, tier)
    tf, sf = _formats(rng, ver, px)
    cls_mix = rng.random() < 0.5
    acls = rng.choice(ANGLE_CLASSES)
    exact = rng.random() < 0.7
    xyz_int = force.get("xyz_int", rng.random() < 0.2)
    # H3: a STAR / EM table whose cells are all whole numbers is read with EVERY column int64; positions / shifts with 2-3 decimals (off the dyadic grid)
    all_int = force.get("all_int", (not xyz_int) and rng.random() < 0.08)
    decimal = (not exact) and rng.random() < 0.5
    parts, ids = [], []
    tomos = sorted(rng.sample(range(0, 400), rng.randint(1, min(4, n))))
    subs = _sub_ids(rng, n)
    for i in range(n):
        a = _angles(rng, rng.choice(ANGLE_CLASSES) if cls_mix else acls)
        if all_int:
            a = _angles(rng, "lattice")
            pos = [float(rng.randint(-500, 4000)) for _ in range(3)]
            sh = [float(rng.randint(-8, 8)) for _ in range(3)]
        elif xyz_int:
            pos = [float(rng.randint(-500, 4000)) for _ in range(3)]
            sh = [_grid(rng, -8, 8) for _ in range(3)] if exact else [rng.uniform(-8, 8) for _ in range(3)]
        elif exact:
            pos = [_grid(rng, -500, 4000) for _ in range(3)]
            sh = [0.0 if rng.random() < 0.2 else _grid(rng, -8, 8) for _ in range(3)]
        elif decimal:
            pos = [round(rng.uniform(-500, 4000), rng.choice([2, 3])) for _ in range(3)]
            sh = [round(rng.uniform(-8, 8), rng.choice([2, 3])) for _ in range(3)]
        else:
            pos = [rng.uniform(-500, 4000) for _ in range(3)]
            sh = [rng.uniform(-8, 8) for _ in range(3)]
        parts.append([f2b(v) for v in pos + sh + a])
        ids.append([rng.choice(tomos), subs[i], rng.randint(0, 9)])
    if rng.random() < 0.5:   # half of the lists keep their tomograms interleaved / unsorted
        ids.sort(key=lambda t: t[0])
    for i in range(n):
        ids[i][1] = subs[i]
    optics = (ver >= 31 and rng.random() < 0.5)
    # G1: keywords omitted where the documented default is the wanted value
    omit = []
    P = lambda p: rng.random() < p
    if ver == 31 and P(0.4):
        omit.append("version")          # RelionMotl(..) / create_relion_df: default_version / `self.version = 3.1`
    if ver == 31 and P(0.4):
        omit.append("relion_version")   # emmotl2relion / stopgap2relion: relion_version=3.1
    if ver < 40 and P(0.35):
        omit.append("binning")          # RelionMotl(.., binning=None): unused below 4.0
    if P(0.35):
        omit.append("conv_binning")     # converters: binning=1.0
    if tf == "" and sf == "" and P(0.6):
        omit.append("formats")          # tomo_format="" / subtomo_format=""
    if optics and P(0.35):
        omit.append("write_optics")     # write_out: write_optics=True
    if not optics and P(0.35):
        omit.append("conv_write_optics")  # converters: write_optics=False
    if px == 1.0 and P(0.6):
        omit.append("conv_pixel_size")  # converters: pixel_size=1.0
    if P(0.4):
        omit.append("c_version")        # re-import of the exported frame: version sniffed from its columns
    if ver < 40 and P(0.4):
        omit.append("c_pixel_size")     # re-import of the exported frame: pixel size from its rlnPixelSize column
    # round 5, item 1: row labels. A particle list that was filtered (cryoCAT's own remove_feature), sliced out of a larger one, sorted, or concatenated has
    # row labels other than 0..n-1; nothing in the statement depends on them
    idx = force.get("idx", rng.choice(["default", "default", "filter", "slice", "perm", "concat"]))
    if idx == "concat" and n < 2:
        idx = "filter"
    if idx == "filter":      # positions (in the enlarged table) of particles of class 99 that remove_feature("class", 99) takes out again
        k = rng.randint(1, 3)
        idx_arg = sorted(rng.sample(range(n + k), k))
        if idx_arg == list(range(n, n + k)):   # only trailing victims would leave the labels 0..n-1
            idx_arg[0] = 0
    elif idx == "slice":
        idx_arg = rng.randint(1, 5)
    elif idx == "perm":
        idx_arg = list(range(n)); rng.shuffle(idx_arg)
        if n >= 2 and idx_arg == list(range(n)):
            idx_arg[0], idx_arg[1] = idx_arg[1], idx_arg[0]
    elif idx == "concat":
        idx_arg = rng.randint(1, n - 1)
    else:
        idx_arg = None
    # round 5, item 2: the export version given by the `version` keyword of create_relion_df / write_out instead of (or against) the constructor's
    ver_by = force.get("ver_by", "ctor" if "version" in omit else rng.choice(["ctor", "ctor", "kw", "kw-other"]))
    ctor_ver = rng.choice([v for v in (30, 31, 40) if v != ver]) if ver_by == "kw-other" else None
    return dict(kind="cc", ver=ver, px=f2b(px), tomo_fmt=tf, sub_fmt=sf, optics=optics, parts=parts, ids=ids,
                angles=("mixed" if cls_mix else acls), grid=exact, xyz_int=xyz_int, all_int=all_int, omit=omit, share_df=force.get("share_df", P(0.35)), sg=P(0.3),
                idx=idx, idx_arg=idx_arg, ver_by=ver_by, ctor_ver=ctor_ver, wo30=(ver == 30 and P(0.5)), loader=rng.choice(LOADERS))


def rln_columns(case):
    """column names of the RELION table of an 'rln' case, in the order of the case"""
    ver = case["ver"]
    tname, sname, onames, _ = DOC_NAMES[ver]
    cols = ["rlnCoordinateX", "rlnCoordinateY", "rlnCoordinateZ", "rlnAngleRot", "rlnAngleTilt", "rlnAnglePsi"]
    if case.get("tomo_col", True):
        cols.append(tname)
    cols += [sname] + onames + ["rlnClassNumber"]
    if case["halfsets"] is not None:
        cols.append("rlnRandomSubset")
    if case["pxsrc"] == "column":
        cols.insert(8, "rlnPixelSize")
    if ver >= 31:
        cols.append("rlnOpticsGroup")
    order = case.get("colorder")
    if order is not None and sorted(order) == list(range(len(cols))):
        cols = [cols[k] for k in order]
    return cols


def gen_rln(rng, tier, force=None):
    force = {} if force is None else force
    ver = force.get("ver", rng.choice([30, 31, 40]))
    px = _px(rng)
    n = force.get("n") or _n(rng, tier)
    acls = rng.choice(ANGLE_CLASSES)
    tomos = sorted(rng.sample(range(0, 400), rng.randint(1, min(4, n))))
    kx, ky = rng.choice([1, 2, 3, 5]), rng.choice([1, 3, 4, 6])
    d = rng.choice(["", "/data/run2/", "Tomograms/t7/"])
    subs = rng.sample(range(1, 6000), n) if rng.random() < 0.6 else list(range(1, n + 1))
    if rng.random() < 0.15 and n >= 3:  # repeated numbers: code renumbers 1..n (or by half-set)
        subs = [rng.randint(1, n // 2 + 1) for _ in range(n)]
    hs_mode = rng.choice(["both", "both", "single", "none"]) if n >= 2 else rng.choice(["single", "none"])
    coord_int = force.get("coord_int", rng.random() < 0.15)
    # H3: a table whose numeric cells are ALL whole numbers (every numeric column int64 in the frame, no decimal point in the file)
    all_int = force.get("all_int", coord_int and rng.random() < 0.4)
    if all_int:
        acls = "lattice"
    rows, tn, sn, tids, cl = [], [], [], [], []
    for i in range(n):
        a = _angles(rng, acls)
        a = [round(v, 6) for v in a]
        co = [float(rng.randint(-200, 4000)) for _ in range(3)] if coord_int else [_grid(rng, -200, 4000) for _ in range(3)]
        og = [0.0 if rng.random() < 0.15 else _grid(rng, -30, 30) for _ in range(3)]
        if all_int:
            og = [float(rng.randint(-30, 30)) for _ in range(3)]
        rows.append([f2b(v) for v in co + og + a])
        t = rng.choice(tomos)
        tids.append(t); cl.append(rng.randint(0, 9))
    order = sorted(range(n), key=lambda i: tids[i])
    tids = [tids[i] for i in order]
    for i in range(n):
        t, s = tids[i], subs[i]
        if ver < 40:
            tn.append(f"{d}TS_{str(t).zfill(kx)}_{px:g}.mrc")
            sn.append(f"{d}TS_{str(t).zfill(kx)}_{str(s).zfill(ky)}_{px:g}A.mrc")
        else:
            tn.append(f"TS_{str(t).zfill(kx)}")
            sn.append(f"TS_{str(t).zfill(kx)}/{str(s).zfill(ky)}")
    halfsets = None
    if hs_mode == "both":
        halfsets = [rng.choice([1, 2]) for _ in range(n)]
        if len(set(halfsets)) < 2:
            halfsets[0], halfsets[-1] = 1, 2
    elif hs_mode == "single":
        halfsets = [rng.choice([1, 2])] * n
    pxsrc = rng.choice(["column", "column", "arg"]) if ver < 40 else "arg"
    optics = (ver >= 31 and rng.random() < 0.5)
    # item 1: the rlnPixelSize column is a per-row column
    pxs = [px] * n
    if pxsrc == "column":
        k = rng.random()
        if k < 0.55:
            per_tomo = {t: _px(rng) for t in tomos}
            pxs = [per_tomo[t] for t in tids]
        elif k < 0.8:
            pxs = [_px(rng) for _ in range(n)]
        if n >= 2 and len(set(pxs)) == 1 and k < 0.8:
            pxs[-1] = pxs[0] * 2.0
    tomo_col = force.get("tomo_col", rng.random() >= 0.25)
    with_optics = optics and ver >= 31
    # version passed explicitly or sniffed from the columns (3.0 without the micrograph column cannot be told from the columns)
    can_sniff = not (ver == 30 and not tomo_col)
    ver_arg = "sniff" if (can_sniff and rng.random() < 0.4) else "explicit"
    # pixel size argument omitted: irrelevant for 3.0, documented default 1.0 otherwise
    omit_px = (pxsrc == "arg") and ((ver == 30 and rng.random() < 0.3) or (ver >= 31 and px == 1.0 and rng.random() < 0.6))
    # round 5, item 1: row labels of the RELION DataFrame handed in (a table the user filtered / sliced / sorted / concatenated keeps its labels)
    idx = force.get("idx", rng.choice(["default", "default", "filter", "offset", "perm", "dup"]))
    if idx == "filter":
        labels = sorted(rng.sample(range(n + 3), n))
        if labels == list(range(n)):
            labels = [v + 1 for v in labels]
    elif idx == "offset":
        k = rng.randint(1, 50); labels = list(range(k, k + n))
    elif idx == "perm":
        labels = list(range(n)); rng.shuffle(labels)
        if n >= 2 and labels == list(range(n)):
            labels[0], labels[1] = labels[1], labels[0]
    elif idx == "dup":       # pd.concat of two tables without ignore_index
        a_ = rng.randint(1, n - 1) if n >= 2 else 1
        labels = list(range(a_)) + list(range(n - a_))
    else:
        labels = None
    # round 5, item 7: the explicit pixel_size argument next to a pixel size the data carry (column / optics block): the argument wins (documented in set_pixel_size)
    px_arg = None
    if ver >= 31 and (pxsrc == "column" or with_optics) and rng.random() < 0.3:
        px_arg = f2b(rng.choice([v for v in (1.0, 1.35, 2.5, 3.42, 7.0) if v != px]))
    case = dict(kind="rln", ver=ver, px=f2b(px), pxs=[f2b(v) for v in pxs], pxsrc=pxsrc, optics=optics, rows=rows, tomo_names=tn, sub_names=sn,
                tomo_ids=tids, sub_ids=subs, halfsets=halfsets, cls=cl, angles=acls, style=rng.randint(0, 5), tomo_col=tomo_col, ver_arg=ver_arg,
                omit_px=omit_px, coord_int=coord_int, all_int=all_int, reuse=force.get("reuse", rng.random() < 0.35), colorder=None, uoe=None, sg=False,
                idx=idx, labels=labels, px_arg=px_arg, loader=rng.choice(LOADERS),
                optics_last=bool(with_optics and rng.random() < 0.4))   # round 8: data_optics written AFTER data_particles (legal STAR; the version comes from the particle block)
    if force.get("shuffle", rng.random() < 0.4):
        k = len(rln_columns(case))
        perm = list(range(k)); rng.shuffle(perm)
        case["colorder"] = perm
    if force.get("uoe", rng.random() < 0.4):
        m = rng.randint(1, n)
        perm = rng.sample(range(n), m)
        keep = rng.random() < 0.25
        case["uoe"] = dict(perm=perm, keep_all=keep, newcls=([rng.randint(0, 9) for _ in perm] if (not keep and rng.random() < 0.5) else None),
                           reset=rng.random() < 0.5)   # whether the user resets the row labels after selecting rows
    # relion2stopgap has no pixel-size argument: only where the file itself (or the default 1.0 / version 3.0) settles it
    if (pxsrc == "column" or with_optics or ver == 30 or px == 1.0) and rng.random() < 0.3:
        case["sg"] = True
    return case


def generate(rng, tier, n):
    if tier == "thorough":  # the full 45-degree Euler lattice, 8*5*8 orientations per version, as cc lists
        lat = [(45.0 * a, 45.0 * b, 45.0 * c) for a in range(-4, 4) for b in range(0, 5) for c in range(-4, 4)]
        for ver in (30, 31, 40):
            for k in range(0, len(lat), 80):
                chunk = lat[k:k + 80]
                parts = [[f2b(v) for v in [_grid(rng, 0, 1000), _grid(rng, 0, 1000), _grid(rng, 0, 300), _grid(rng, -4, 4), _grid(rng, -4, 4), _grid(rng, -4, 4)] + list(a)] for a in chunk]
                ids = [[1 + i // 40, i + 1, 1] for i in range(len(chunk))]
                yield dict(kind="cc", ver=ver, px=f2b(2.5), tomo_fmt="" if ver == 40 else "/t/TS_$xxx.rec", sub_fmt="TS_$xxx/$yyyy" if ver == 40 else "/s/TS_$xxx_$yyyy_2.5A.mrc",
                           optics=(ver >= 31), parts=parts, ids=ids, angles="lattice", grid=True)
        for ver in (30, 31, 40):    # the size bound the quantifier names: 300 particles, with non-default row labels
            yield gen_cc(rng, tier, dict(ver=ver, n=300, idx=rng.choice(["filter", "perm", "concat"])))
            yield gen_rln(rng, tier, dict(ver=ver, n=300, idx=rng.choice(["filter", "perm", "dup"]), uoe=True))
    for _ in range(n):
        yield gen_cc(rng, tier) if rng.random() < 0.5 else gen_rln(rng, tier)


def shrink(case):
    key = "parts" if case["kind"] == "cc" else "rows"
    per_row = ["parts", "ids"] if case["kind"] == "cc" else ["rows", "tomo_names", "sub_names", "tomo_ids", "sub_ids", "cls"] + (["halfsets"] if case.get("halfsets") else []) \
        + (["pxs"] if case.get("pxs") else []) + (["labels"] if case.get("labels") else [])
    n = len(case[key])

    def take(idx):
        idx = list(idx)
        c = dict(case)
        for k in per_row:
            c[k] = [case[k][i] for i in idx]
        if c.get("uoe"):
            keepk = [k for k, j in enumerate(case["uoe"]["perm"]) if j in idx]
            perm = [idx.index(case["uoe"]["perm"][k]) for k in keepk]
            nc = case["uoe"].get("newcls")
            c["uoe"] = dict(case["uoe"], perm=perm or [0], newcls=(([nc[k] for k in keepk] or [nc[0]]) if nc else None))
        m = len(idx)
        if case["kind"] == "cc" and case.get("idx") in ("filter", "perm", "concat"):   # the label recipe must fit the new length
            if case["idx"] == "filter":
                c["idx_arg"] = [0]
            elif m >= 2:
                c["idx_arg"] = list(range(m))[::-1] if case["idx"] == "perm" else 1
            else:
                c["idx"], c["idx_arg"] = "slice", 1
        return c
    if n > 1:
        yield take(range(n // 2))
        yield take(range(n // 2, n))
        for i in range(min(n, 12)):
            yield take([i])
        if n > 2:
            yield take(range(2))
            yield take(range(3))
    if case["kind"] == "cc":
        if case["tomo_fmt"] or case["sub_fmt"]:
            yield dict(case, tomo_fmt="", sub_fmt="")
        if case["optics"]:
            yield dict(case, optics=False, omit=[o for o in case.get("omit", []) if o != "write_optics"])
        if case.get("omit"):
            yield dict(case, omit=[])
        for flag in ("share_df", "sg", "wo30", "all_int", "xyz_int"):
            if case.get(flag):
                yield dict(case, **{flag: False})
        if case.get("idx", "default") != "default":
            yield dict(case, idx="default", idx_arg=None)
        if case.get("ver_by", "ctor") != "ctor":
            yield dict(case, ver_by="ctor", ctor_ver=None)
        if case.get("loader", "ctor") != "ctor":
            yield dict(case, loader="ctor")
        if b2f(case["px"]) != 2.0 and "conv_pixel_size" not in case.get("omit", []):
            yield dict(case, px=f2b(2.0))
        simple = [[f2b(v) for v in (10.0 + i, 20.0, 30.0, 0.5, -0.25, 0.0, 10.0, 20.0, 30.0)] for i in range(n)]
        if case["parts"] != simple:
            yield dict(case, parts=simple)
            yield dict(case, parts=[p[:6] + s[6:] for p, s in zip(case["parts"], simple)])
            yield dict(case, parts=[s[:6] + p[6:] for p, s in zip(case["parts"], simple)])
    else:
        for flag, off in (("reuse", False), ("sg", False), ("uoe", None), ("colorder", None), ("all_int", False), ("coord_int", False), ("omit_px", False),
                          ("px_arg", None)):
            if case.get(flag):
                yield dict(case, **{flag: off})
        if case.get("labels"):
            yield dict(case, idx="default", labels=None)
        if case.get("loader", "ctor") != "ctor":
            yield dict(case, loader="ctor")
        if case.get("optics_last"):
            yield dict(case, optics_last=False)
        if case.get("uoe") and not case["uoe"].get("reset", True):
            yield dict(case, uoe=dict(case["uoe"], reset=True))
        if case.get("ver_arg") == "sniff":
            yield dict(case, ver_arg="explicit")
        if not case.get("tomo_col", True):
            yield dict(case, tomo_col=True, colorder=None)


# ------------------------------------------------------------------ implementation adapters
NUMERIC_MOTL = ["x", "y", "z", "shift_x", "shift_y", "shift_z", "phi", "theta", "psi", "tomo_id", "subtomo_id", "geom3", "class"]


def _isnum(v):
    return isinstance(v, (int, float, np.integer, np.floating)) and not isinstance(v, bool)


def _i(v, text=None, where=""):
    """identifier cell: numeric -> int when integral (else repr of the float); text is RECORDED as text, never coerced (G3)"""
    if _isnum(v):
        f = float(v)
        return int(f) if (math.isfinite(f) and f == int(f)) else repr(f)     # NaN / inf cells are reported as they are (never an exception of the harness)
    if text is not None:
        text.append([where, repr(v)[:60]])
    return {"text": str(v)[:60]}


def _f(v, text, where):
    """numeric cell -> IEEE bits; a text cell is recorded and only then parsed (so that the remaining clauses can still be judged)"""
    if _isnum(v):
        return f2b(float(v))
    text.append([where, repr(v)[:60]])
    try:
        return f2b(float(v))
    except Exception:
        return f2b(float("nan"))


def _export_obs(r, spec, ver):
    """observation of an exported RELION DataFrame: values with their types (G3)"""
    cols = [str(c) for c in r.columns]
    tname, sname, onames, _ = DOC_NAMES[ver]
    text, rows = [], []
    n = len(r)
    col = {c: r[c].tolist() for c in cols if c in set(["rlnCoordinateX", "rlnCoordinateY", "rlnCoordinateZ", "rlnAngleRot", "rlnAngleTilt", "rlnAnglePsi", tname, sname,
                                                        "rlnRandomSubset", "rlnClassNumber", "rlnPixelSize"] + onames)}
    for i in range(n):
        rows.append(dict(coord=[_f(col["rlnCoordinate" + c][i], text, "rlnCoordinate" + c) for c in "XYZ"],
                         origin=[(_f(col[o][i], text, o) if o in col else None) for o in onames],
                         ang=[_f(col[a][i], text, a) for a in ("rlnAngleRot", "rlnAngleTilt", "rlnAnglePsi")],
                         tomo=str(col[tname][i]) if tname in col else None, sub=str(col[sname][i]) if sname in col else None,
                         halfset=_i(col["rlnRandomSubset"][i], text, "rlnRandomSubset") if "rlnRandomSubset" in col else None,
                         cls=_i(col["rlnClassNumber"][i], text, "rlnClassNumber") if "rlnClassNumber" in col else None,
                         pixel=(_f(col["rlnPixelSize"][i], text, "rlnPixelSize") if "rlnPixelSize" in col else None)))
    return dict(cols=cols, spec=spec, rows=rows, text=text[:8], kinds={c: r[c].dtype.kind for c in cols})


NUM_TOKEN = re.compile(r"[+-]?(\d+\.?\d*|\.\d+)([eE][+-]?\d+)?$|[+-]?(inf|nan)$", re.I)


def _file_rows_obs(cols, spec, rows, ver):
    """observation of a particle block read by the harness's own STAR reader (cells are tokens; a numeric column must hold number tokens)"""
    tname, sname, onames, _ = DOC_NAMES[ver]
    text, out = [], []

    def num(i, c):
        t = rows[i][cols.index(c)]
        if not NUM_TOKEN.match(t):
            text.append([c, t[:60]]); return f2b(float("nan"))
        return f2b(float(t))

    def ident(i, c):
        t = rows[i][cols.index(c)]
        if not NUM_TOKEN.match(t):
            text.append([c, t[:60]]); return {"text": t[:60]}
        f = float(t)
        return int(f) if (math.isfinite(f) and f == int(f)) else repr(f)
    for i in range(len(rows)):
        out.append(dict(coord=[num(i, "rlnCoordinate" + c) for c in "XYZ"], origin=[(num(i, o) if o in cols else None) for o in onames],
                        ang=[num(i, a) for a in ("rlnAngleRot", "rlnAngleTilt", "rlnAnglePsi")],
                        tomo=rows[i][cols.index(tname)] if tname in cols else None, sub=rows[i][cols.index(sname)] if sname in cols else None,
                        halfset=ident(i, "rlnRandomSubset") if "rlnRandomSubset" in cols else None,
                        cls=ident(i, "rlnClassNumber") if "rlnClassNumber" in cols else None,
                        pixel=(num(i, "rlnPixelSize") if "rlnPixelSize" in cols else None)))
    return dict(cols=list(cols), spec=spec, rows=out, text=text[:8], kinds={})


def _motl_obs(m):
    df = m.df
    text, out = [], []
    col = {c: df[c].tolist() for c in NUMERIC_MOTL}
    for i in range(len(df)):
        out.append(dict(xyz=[_f(col[c][i], text, c) for c in ("x", "y", "z")], shift=[_f(col[c][i], text, c) for c in ("shift_x", "shift_y", "shift_z")],
                        ang=[_f(col[c][i], text, c) for c in ("phi", "theta", "psi")], tomo=_i(col["tomo_id"][i], text, "tomo_id"),
                        sub=_i(col["subtomo_id"][i], text, "subtomo_id"), geom3=_i(col["geom3"][i], text, "geom3"), cls=_i(col["class"][i], text, "class")))
    v = getattr(m, "version", None)
    return dict(rows=out, version=(None if v is None else int(round(float(v) * 10))), cols=[str(c) for c in df.columns], text=text[:8],
                kinds={c: df[c].dtype.kind for c in NUMERIC_MOTL})


def _frame_diff(before, after):
    """what a call did to a caller-owned DataFrame (G2): [] when it is untouched"""
    out = []
    if list(before.columns) != list(after.columns):
        out.append(f"columns {list(before.columns)} -> {list(after.columns)}"[:300])
        return out
    if len(before) != len(after) or list(before.index) != list(after.index):
        out.append(f"rows/index changed: {len(before)} -> {len(after)}")
        return out
    for c in before.columns:
        if before[c].dtype != after[c].dtype:
            out.append(f"dtype of {c}: {before[c].dtype} -> {after[c].dtype}")
        elif not before[c].equals(after[c]):
            k = next((i for i in range(len(before)) if not (before[c].iloc[i] == after[c].iloc[i] or (before[c].iloc[i] != before[c].iloc[i] and after[c].iloc[i] != after[c].iloc[i]))), 0)
            out.append(f"column {c}, row {k}: {before[c].iloc[k]!r} -> {after[c].iloc[k]!r}")
    return out[:6]


def _attempt(out, key, fn):
    """G4: an exception is attributed to cryoCAT only if its traceback passes through /cryocat/ (where != '')"""
    import traceback
    try:
        out[key] = fn()
    except Exception as e:
        where = ""
        for fr in reversed(traceback.extract_tb(e.__traceback__)):
            if "/cryocat/" in fr.filename:
                where = f"{os.path.basename(fr.filename)}:{fr.lineno}"; break
        msg = str(e)
        out[key] = {"error": f"{type(e).__name__}: {msg if len(msg) <= 200 else msg[:120] + ' ... ' + msg[-70:]}", "where": where}


def _file_export_obs(path, ver):
    blocks = read_star(path)
    specs = [b[0] for b in blocks]
    cand = [b for b in blocks if b[0] != "data_optics"]
    if len(cand) != 1:
        return dict(error=f"expected one particle block, file holds {specs}", where="file")
    spec, cols, rows = cand[0]
    bad = [r for r in rows if len(r) != len(cols)]
    if bad:
        return dict(error=f"row with {len(bad[0])} cells for {len(cols)} columns", where="file")
    need = ["rlnCoordinateX", "rlnCoordinateY", "rlnCoordinateZ", "rlnAngleRot", "rlnAngleTilt", "rlnAnglePsi"]
    if any(c not in cols for c in need):
        return dict(cols=list(cols), spec=spec, rows=[], specs=specs, text=[], kinds={}, missing=[c for c in need if c not in cols])
    o = _file_rows_obs(cols, spec, rows, ver)
    o["specs"] = specs
    opt = [b for b in blocks if b[0] == "data_optics"]
    if opt and "rlnImagePixelSize" in opt[0][1] and opt[0][2]:
        o["optics_px"] = f2b(float(opt[0][2][0][opt[0][1].index("rlnImagePixelSize")]))
    return o


def rln_table(case):
    """(cols, data) of the RELION table of an 'rln' case; data values are Python lists"""
    n = len(case["rows"])
    ver = case["ver"]
    R = [[b2f(b) for b in r] for r in case["rows"]]
    tname, sname, onames, _ = DOC_NAMES[ver]
    cint = case.get("coord_int", False)
    cv = (lambda v: int(v)) if cint else (lambda v: float(v))
    av = (lambda v: int(v)) if case.get("all_int") else (lambda v: v)     # origins and angles too: every numeric column int64
    data = {"rlnCoordinateX": [cv(r[0]) for r in R], "rlnCoordinateY": [cv(r[1]) for r in R], "rlnCoordinateZ": [cv(r[2]) for r in R],
            "rlnAngleRot": [av(r[6]) for r in R], "rlnAngleTilt": [av(r[7]) for r in R], "rlnAnglePsi": [av(r[8]) for r in R],
            tname: list(case["tomo_names"]), sname: list(case["sub_names"]), onames[0]: [av(r[3]) for r in R], onames[1]: [av(r[4]) for r in R],
            onames[2]: [av(r[5]) for r in R], "rlnClassNumber": list(case["cls"]), "rlnOpticsGroup": [1] * n,
            "rlnPixelSize": [b2f(b) for b in case.get("pxs", [case["px"]] * n)]}
    if case["halfsets"] is not None:
        data["rlnRandomSubset"] = list(case["halfsets"])
    return rln_columns(case), data


def run_impl(case):
    import warnings
    warnings.simplefilter("ignore")
    import pandas as pd
    from cryocat import cryomotl
    ver, px = case["ver"], b2f(case["px"])
    out = {}
    with tempfile.TemporaryDirectory(prefix="c03_") as td:
        if case["kind"] == "cc":
            n = len(case["parts"])
            omit = set(case.get("omit", []))
            P = [[b2f(b) for b in p] for p in case["parts"]]
            idx, iarg = case.get("idx", "default"), case.get("idx_arg")

            def table(rows, labels=None):
                """rows: particle numbers of the case, None = a particle of class 99 that is filtered out again"""
                df = pd.DataFrame(np.zeros((len(rows), 20)), columns=MOTL_COLS)
                vals = [(P[r] if r is not None else [1.0 + k, 2.0, 3.0, 0.0, 0.0, 0.0, 10.0, 20.0, 30.0]) for k, r in enumerate(rows)]
                for k, c in enumerate(["x", "y", "z", "shift_x", "shift_y", "shift_z", "phi", "theta", "psi"]):
                    df[c] = np.array([v[k] for v in vals], dtype=float)
                df["tomo_id"] = [float(case["ids"][r][0]) if r is not None else 0.0 for r in rows]
                df["subtomo_id"] = [float(case["ids"][r][1]) if r is not None else float(9000 + k) for k, r in enumerate(rows)]
                df["class"] = [float(case["ids"][r][2]) if r is not None else 99.0 for r in rows]
                df["score"] = np.linspace(0.1, 0.9, len(rows))
                if case.get("all_int"):        # every cell a whole number: this is how such a table comes out of a STAR file (all columns int64)
                    df["score"] = np.arange(len(rows), dtype=float)
                    df = df.astype("int64")
                elif case.get("xyz_int"):
                    for c in ("x", "y", "z"):
                        df[c] = df[c].astype("int64")
                if labels is not None:
                    df.index = labels
                return df
            # what RelionMotl is built from for the export calls A / B (row labels of the INPUT frame are dropped by the constructor; the labels under test
            # arise afterwards, the way a user gets them: cryoCAT's own filter, a slice, a re-ordering, a concatenation) ...
            if idx == "filter":
                vic = set(iarg); it = iter(range(n))
                dfs = [table([None if k in vic else next(it) for k in range(n + len(iarg))])]
            elif idx == "slice":
                dfs = [table([None] * iarg + list(range(n)))]
            elif idx == "perm":
                inv = [0] * n
                for k, v in enumerate(iarg):
                    inv[v] = k
                dfs = [table(inv)]          # row perm[i] of the frame is particle i: `m.df.iloc[perm]` restores the order of the case
            elif idx == "concat":
                dfs = [table(list(range(iarg))), table(list(range(iarg, n)))]
            else:
                dfs = [table(list(range(n)))]
            # ... and what the converter functions get: the particles themselves, in a frame carrying such labels
            lab = {"filter": lambda: [2 * k + 1 for k in range(n)], "slice": lambda: list(range(iarg, iarg + n)), "perm": lambda: list(iarg),
                   "concat": lambda: list(range(iarg)) + list(range(n - iarg))}.get(idx)
            conv = dfs[0] if idx == "default" else table(list(range(n)), lab())
            owned = dfs + ([] if idx == "default" else [conv])
            pristine = [d.copy(deep=True) for d in owned]
            share = bool(case.get("share_df"))
            inp = (lambda k=0: dfs[k]) if share else (lambda k=0: dfs[k].copy())
            inp_conv = (lambda: conv) if share else (lambda: conv.copy())
            mut = (lambda: [x for a_, b_ in zip(pristine, owned) for x in _frame_diff(a_, b_)]) if share else (lambda: [])
            fm = {} if "formats" in omit else dict(tomo_format=case["tomo_fmt"], subtomo_format=case["sub_fmt"])
            rk = dict(pixel_size=px)
            ver_by = "ctor" if "version" in omit else case.get("ver_by", "ctor")
            kwv = {}                       # the `version` keyword of create_relion_df / write_out (round 5, item 2)
            if "version" in omit:
                pass
            elif ver_by == "ctor":
                rk["version"] = VERS[ver]
            else:
                kwv["version"] = VERS[ver]
                if ver_by == "kw-other":
                    rk["version"] = VERS[case["ctor_ver"]]
            if "binning" not in omit or ver_by != "ctor":
                rk["binning"] = 1.0
            state = {}

            def motl():
                """the particle list of the case as a RelionMotl, with the row labels of the case's label kind"""
                m = cryomotl.RelionMotl(inp(0), **rk)
                if idx == "filter":
                    m.remove_feature("class", [99.0, np.array([99.0]), 99.0][len(iarg) % 3])
                elif idx == "slice":
                    m.df = m.df.iloc[iarg:]
                elif idx == "perm":
                    m.df = m.df.iloc[list(iarg)]
                elif idx == "concat":
                    m.df = pd.concat([m.df, cryomotl.RelionMotl(inp(1), **rk).df])
                state["labels"] = [int(v) for v in m.df.index[:6]]
                return m

            def a():
                m = motl()
                r = m.create_relion_df(**fm, **kwv)
                state["r"] = r
                o = _export_obs(r, (m.data_spec if ver_by == "ctor" else None), ver); o["mut"] = mut(); o["labels"] = state.get("labels")
                return o
            _attempt(out, "A", a)
            path = os.path.join(td, "out.star")

            def b():
                m = motl()
                wk = dict(fm)
                if not ("write_optics" in omit and case["optics"]):
                    wk["write_optics"] = case["optics"]
                m.write_out(path, **wk, **kwv)
                state["file"] = True
                o = _file_export_obs(path, ver); o["mut"] = mut()
                return o
            _attempt(out, "B", b)
            if ver == 30 and case.get("wo30"):
                # round 5, item 3: the most natural 3.0 call, write_optics left at its default True. There is no optics information for 3.0, and
                # prepare_optics_data DOCUMENTS (and the pinned tests assert) that it then raises `Warning`: a documented refusal. Anything else that is
                # raised is a finding; a file that is written instead is judged like any other export.
                path0 = os.path.join(td, "out0.star")

                def b0():
                    m = motl()
                    try:
                        m.write_out(path0, **fm, **kwv)
                    except Warning as e:
                        return dict(refused=type(e).__name__)
                    o = _file_export_obs(path0, ver); o["mut"] = mut(); o["default_optics"] = True
                    return o
                _attempt(out, "B0", b0)
            if "r" in state:
                ck = {}
                if "c_version" not in omit:
                    ck["version"] = VERS[ver]
                if not ("c_pixel_size" in omit and ver < 40):
                    ck["pixel_size"] = px
                frame = state["r"]
                fp = frame.copy(deep=True)

                def c():
                    o = _motl_obs(cryomotl.RelionMotl(frame, **ck))   # the exported frame itself is handed back: it must stay as it is
                    o["mut"] = _frame_diff(fp, frame); o["sniffed"] = "version" not in ck
                    return o
                _attempt(out, "C", c)
            if "file" in state:
                need_px = (ver == 40 and not case["optics"])
                _attempt(out, "D", lambda: _motl_obs(_load(cryomotl, case, path, (dict(pixel_size=px) if need_px else {}))))
            ek = dict(fm)
            if "relion_version" not in omit:
                ek["relion_version"] = VERS[ver]
            if not ("conv_pixel_size" in omit and px == 1.0):
                ek["pixel_size"] = px
            if "conv_binning" not in omit:
                ek["binning"] = 1.0
            if not ("conv_write_optics" in omit and not case["optics"]):
                ek["write_optics"] = case["optics"]
            p2 = os.path.join(td, "conv.star")

            def e():
                cryomotl.emmotl2relion(inp_conv(), p2, **ek)
                em = cryomotl.relion2emmotl(p2, **(dict(pixel_size=px) if (ver == 40 and not case["optics"]) else {}))
                o = _motl_obs(em); o["mut"] = mut()
                return o
            _attempt(out, "E", e)
            if case.get("sg"):
                p3 = os.path.join(td, "sg.star")

                def g():
                    cryomotl.stopgap2relion(inp_conv(), p3, **ek)
                    o = _file_export_obs(p3, ver); o["mut"] = mut()
                    return o
                _attempt(out, "G", g)
        else:
            n = len(case["rows"])
            cols, data = rln_table(case)
            rdf = pd.DataFrame({c: data[c] for c in cols})
            if case.get("labels"):          # a table the user filtered / sliced / sorted / concatenated: its row labels are not 0..n-1
                rdf.index = list(case["labels"])
            pristine = rdf.copy(deep=True)
            use_col = case["pxsrc"] == "column"
            reuse = bool(case.get("reuse"))
            frame = rdf if reuse else rdf.copy()
            mk = {}
            if case.get("ver_arg", "explicit") == "explicit":
                mk["version"] = VERS[ver]
            if not use_col and not case.get("omit_px"):
                mk["pixel_size"] = px
            if use_col and case.get("px_arg") is not None:      # argument AND column: the argument is documented to win
                mk["pixel_size"] = b2f(case["px_arg"])
            state = {}

            def m_():
                m = _load(cryomotl, case, frame, mk)
                state["m"] = m
                o = _motl_obs(m); o["mut"] = _frame_diff(pristine, frame); o["sniffed"] = "version" not in mk
                return o
            _attempt(out, "M", m_)
            if reuse:   # G2: the same caller-owned frame, imported a second time (the other way of giving the version where possible)
                mk2 = dict(mk)
                can_sniff = not (ver == 30 and not case.get("tomo_col", True))
                if "version" in mk2 and can_sniff:
                    del mk2["version"]
                else:
                    mk2["version"] = VERS[ver]

                def m2():
                    o = _motl_obs(cryomotl.RelionMotl(frame, **mk2)); o["mut"] = _frame_diff(pristine, frame); o["sniffed"] = "version" not in mk2
                    return o
                _attempt(out, "M2", m2)
            if case.get("uoe") and "m" in state:
                u = case["uoe"]

                def u_():
                    m = state["m"]
                    m.df = m.df.iloc[list(u["perm"])]                          # the user drops / reorders particles
                    if u.get("reset", True):
                        m.df = m.df.reset_index(drop=True)                     # ... and may or may not reset the row labels
                    if u.get("newcls"):
                        m.df["class"] = [float(c) for c in u["newcls"]]            # ... and re-classifies them
                    uk = dict(use_original_entries=True)
                    if u.get("keep_all"):
                        uk["keep_all_entries"] = True
                    if ver >= 40:
                        uk["binning"] = 1.0   # RelionMotl's default binning=None cannot be multiplied (binning is outside the quantifier: always 1)
                    r = m.create_relion_df(**uk)
                    return _export_obs(r, m.data_spec, ver)
                _attempt(out, "U", u_)
            path = os.path.join(td, "in.star")
            rows = [[data[c][i] for c in cols] for i in range(n)]
            with_optics = case["optics"] and ver >= 31
            write_relion_star(path, ver, cols, rows, optics_px=(px if with_optics else None), style=case.get("style", 0), optics_last=bool(case.get("optics_last")))
            fk = {} if (use_col or with_optics or case.get("omit_px")) else dict(pixel_size=px)
            if case.get("px_arg") is not None and (use_col or with_optics):    # argument AND column / optics block: the argument wins
                fk = dict(pixel_size=b2f(case["px_arg"]))
            _attempt(out, "F", lambda: _motl_obs(_load(cryomotl, case, path, fk)))
            if case.get("sg"):
                def h_():
                    sg = cryomotl.relion2stopgap(path)
                    o = _motl_obs(sg); o["version"] = None
                    return o
                _attempt(out, "H", h_)
            if reuse:   # G2: the same path, legitimately rewritten (rows reversed), read again
                write_relion_star(path, ver, cols, rows[::-1], optics_px=(px if with_optics else None), style=case.get("style", 0) + 1, optics_last=bool(case.get("optics_last")))
                _attempt(out, "F2", lambda: _motl_obs(_load(cryomotl, case, path, fk)))
    return out


# ------------------------------------------------------------------ driver requests
def _ok(o):
    return isinstance(o, dict) and "error" not in o


def _export_req(case, ex):
    return dict(op="export", ver=case["ver"], tomo_fmt=case["tomo_fmt"], sub_fmt=case["sub_fmt"], parts=case["parts"], ids=case["ids"],
                out=[r["ang"] for r in ex["rows"]])


def _import_req(ver, rows9, px_bits, tn, sn, halfsets, cls, cols, out_ang):
    q = dict(op="import", ver=ver, rows=rows9, px=list(px_bits), tomo_names=tn, sub_names=sn, cls=cls, cols=cols, out=out_ang)
    if halfsets is not None:
        q["halfsets"] = halfsets
    return q


def _rln_px(case, tag):
    """pixel size (bits) of each row of an 'rln' case as the call behind `tag` must see it: explicit argument > rlnPixelSize column > optics block > 1.0
    (documented in set_pixel_size). M/M2/U get a DataFrame (no optics block), F/F2 the file, H (relion2stopgap) the file without any argument."""
    n = len(case["rows"])
    use_col = case["pxsrc"] == "column"
    with_optics = bool(case["optics"]) and case["ver"] >= 31
    one, px, pxs = [f2b(1.0)] * n, [case["px"]] * n, list(case.get("pxs", [case["px"]] * n))
    arg = case.get("px_arg")
    if tag in ("M", "M2", "U"):
        if use_col:
            return [arg] * n if arg is not None else pxs
        return one if case.get("omit_px") else px
    if tag in ("F", "F2"):
        if arg is not None and (use_col or with_optics):
            return [arg] * n
        if use_col:
            return pxs
        if with_optics:
            return px
        return one if case.get("omit_px") else px
    return pxs if use_col else (px if with_optics else one)     # H


def _finite_bits(rows, keys):
    return all(all((b is not None and math.isfinite(b2f(b))) for k in keys for b in r[k]) for r in rows)


def _plan(case, obs):
    """[(tag, request)] - the same list is rebuilt by judge to pair responses"""
    plan = []
    if "error" in obs:
        return plan
    if case["kind"] == "cc":
        n = len(case["parts"])
        for tag in ("A", "B", "B0", "G"):
            if _ok(obs.get(tag)) and "rows" in obs[tag] and len(obs[tag]["rows"]) == n and _finite_bits(obs[tag]["rows"], ["ang"]):
                plan.append((tag, _export_req(case, obs[tag])))
        for tag, src in (("C", "A"), ("D", "B")):
            if _ok(obs.get(tag)) and _ok(obs.get(src)) and len(obs[tag]["rows"]) == len(obs[src]["rows"]) == n:
                ex = obs[src]["rows"]
                if any(r["tomo"] is None or r["sub"] is None or None in r["origin"] or not isinstance(r["cls"], int) for r in ex):
                    continue
                if not (_finite_bits(ex, ["coord", "origin", "ang"]) and _finite_bits(obs[tag]["rows"], ["ang"])):
                    continue
                hs = [r["halfset"] for r in ex]
                plan.append((tag, _import_req(case["ver"], [r["coord"] + r["origin"] + r["ang"] for r in ex], [case["px"]] * n, [r["tomo"] for r in ex],
                                              [r["sub"] for r in ex], hs if all(isinstance(h, int) for h in hs) else None, [r["cls"] for r in ex],
                                              obs[src]["cols"], [r["ang"] for r in obs[tag]["rows"]])))
    else:
        n = len(case["rows"])
        cols = rln_columns(case)
        tn = list(case["tomo_names"]) if case.get("tomo_col", True) else [None] * n
        for tag in ("M", "M2", "F", "H", "F2"):
            if _ok(obs.get(tag)) and len(obs[tag]["rows"]) == n and _finite_bits(obs[tag]["rows"], ["ang"]):
                rev = tag == "F2"
                R = lambda l: (list(l)[::-1] if rev else list(l))
                pxs = _rln_px(case, tag)
                plan.append((tag, _import_req(case["ver"], R(case["rows"]), R(pxs), R(tn), R(case["sub_names"]), (R(case["halfsets"]) if case["halfsets"] is not None else None),
                                              R(case["cls"]), cols, [r["ang"] for r in obs[tag]["rows"]])))
    return plan


def requests(case, obs):
    return [q for _, q in _plan(case, obs)]


# ------------------------------------------------------------------ judge
# kind discipline (G6): `spec` = a clause of the statement fails on the real output, decided from the case's own numbers by the harness's independent
# evaluation (own rotation matrices, own STAR reader, own name parser) - never from the model and never from another result of the implementation;
# every comparison against the Lean model is `corr`.
I3 = np.eye(3)
STATS = {}


def _first_numbers(name):
    return [int(s) for s in re.findall(r"\d+", str(name).rsplit("/", 1)[-1])]


def _name_number(name, fmt, ver, which):
    """the number a documented name carries (None when it cannot be read)"""
    try:
        if fmt == "":
            return int(name)
        nums = _first_numbers(name)
        if which == "tomo":
            return nums[0]
        return int(str(name).rsplit("/", 1)[-1]) if ver >= 40 else nums[1]
    except Exception:
        return None


def _halfset(sub):
    return 1 if sub % 2 == 1 else 2


def _close(a_bits, b, tol):
    a = b2f(a_bits)
    return a == b if tol == 0 else abs(a - b) <= tol


def _idv(v):
    """the NUMBER an identifier cell stands for: a text cell '12' stands for 12 (that it is text is a dtype matter, reported once as `corr numeric-field-is-text`; the
    statement only asks for the number to survive)"""
    if isinstance(v, dict) and "text" in v:
        try:
            f = float(v["text"])
            return int(f) if (math.isfinite(f) and f == int(f)) else v
        except Exception:
            return v
    return v


def _common(tag, o, C):
    """clauses every observation is judged by: caller-owned inputs untouched (G2), numeric fields numeric (G3)"""
    # the statement is silent about the caller's objects and about result dtypes: both are disagreements with the documented behaviour (`corr`), never `spec`
    if o.get("mut"):
        C("caller-input-modified", f"the DataFrame handed to the call was changed in place: {o['mut']}")
    if o.get("text"):
        C("numeric-field-is-text", f"numeric field(s) came back as text: {o['text']}")


def _judge_export(tag, case, ex, resp, out, dev):
    ver = case["ver"]
    mem = tag == "A"
    rtol, ptol = (TOL_MEM, 0) if mem else (TOL_FILE, POS_TOL_FILE)
    tname, sname, onames, spec = DOC_NAMES[ver]
    S = lambda clause, detail: out.append(dict(kind="spec", clause=clause, detail=f"[{tag}] {detail}"))
    C = lambda clause, detail: out.append(dict(kind="corr", clause=clause, detail=f"[{tag}] {detail}"))
    _common(tag, ex, C)
    missing = [c for c in ["rlnCoordinateX", "rlnCoordinateY", "rlnCoordinateZ", "rlnAngleRot", "rlnAngleTilt", "rlnAnglePsi", tname, sname, "rlnClassNumber", "rlnRandomSubset"] + onames
               if c not in ex["cols"]]
    if missing:
        S("export-columns", f"version {ver/10}: columns {missing} missing from {ex['cols']}")
        return
    if ex["spec"] is not None and ex["spec"] != spec:   # (in memory: the object's data_spec, judged only when the constructor was given the export version)
        S("export-data-spec", f"version {ver/10}: block {ex['spec']!r}, RELION expects {spec!r}")
    if not mem and not ex.get("default_optics"):
        want = (["data_optics"] if case["optics"] else []) + [spec]
        if ex.get("specs") != want:
            S("export-blocks", f"file holds blocks {ex.get('specs')}, expected {want}")
        if case["optics"] and not ("optics_px" in ex and abs(b2f(ex["optics_px"]) - b2f(case["px"])) <= 1e-6):
            S("export-optics-pixel-size", f"optics block pixel size {b2f(ex['optics_px']) if 'optics_px' in ex else None} != {b2f(case['px'])}")
    n = len(case["parts"])
    if len(ex["rows"]) != n:
        S("export-row-count", f"{len(ex['rows'])} rows for {n} particles"); return
    mrows = resp["rows"] if resp and "rows" in resp else None
    if resp is not None and mrows is None:
        C("model-rejects", str(resp)[:200])
    if mrows is not None and resp.get("names") != dict(tomo=tname, sub=sname, shifts=onames, spec=spec):
        C("version-names", f"model names {resp.get('names')}")
    for i in range(n):
        p = [b2f(b) for b in case["parts"][i]]
        tomo, sub, cls = case["ids"][i]
        r = ex["rows"][i]
        for k, ax in enumerate("XYZ"):
            want = p[k] + p[3 + k]
            if not _near(b2f(r["coord"][k]), want, ptol):
                S("export-coordinate", f"particle {i}: rlnCoordinate{ax}={b2f(r['coord'][k])!r}, complete position {p[k]!r}+{p[3+k]!r}={want!r}"); break
        if any(b2f(o) != 0.0 for o in r["origin"]):
            S("export-origin-zero", f"particle {i}: origin {[b2f(o) for o in r['origin']]}")
        a = [b2f(b) for b in r["ang"]]
        E, Pm = mat_relion(*a), mat_particle(p[6], p[7], p[8])
        d = max(_dev(E @ Pm, I3), _dev(Pm @ E, I3))
        ga = _gimbal_allow(Pm)             # 0 outside scipy's gimbal zone
        if ga:
            dev["gimbal_zone_particles"] = dev.get("gimbal_zone_particles", 0.0) + 1.0
        else:
            dev["export_inverse_" + ("mem" if mem else "file")] = max(dev.get("export_inverse_" + ("mem" if mem else "file"), 0.0), d)
        if not d <= rtol + ga:
            S("export-rotation-inverse", f"particle {i}: (phi,theta,psi)={p[6:9]} exported (rot,tilt,psi)={a}: |ZYZ(out)*zxz(in)-1|={d:.3g} > {rtol + ga:.3g}")
        if _name_number(r["tomo"], case["tomo_fmt"], ver, "tomo") != tomo:
            S("export-tomo-number", f"particle {i}: tomogram {tomo} exported as {r['tomo']!r} (format {case['tomo_fmt']!r})")
        if _name_number(r["sub"], case["sub_fmt"], ver, "sub") != sub:
            S("export-subtomo-number", f"particle {i}: subtomogram {sub} exported as {r['sub']!r} (format {case['sub_fmt']!r})")
        if case["sub_fmt"] and ver < 40 and _name_number(r["sub"], case["sub_fmt"], ver, "tomo") != tomo:
            S("export-tomo-number", f"particle {i}: tomogram {tomo} in subtomogram name {r['sub']!r}")
        if r["halfset"] != _halfset(sub):
            S("export-halfset", f"particle {i}: subtomo_id {sub} exported with rlnRandomSubset {r['halfset']}")
        if r["cls"] != cls:
            S("export-class", f"particle {i}: class {cls} exported as {r['cls']}")
        if ver < 40 and r.get("pixel") is not None and not abs(b2f(r["pixel"]) - b2f(case["px"])) <= 1e-6:
            S("export-pixel-size", f"particle {i}: rlnPixelSize {b2f(r['pixel'])} != {b2f(case['px'])}")
        if mrows is None:
            continue
        m = mrows[i]
        if any(not _close(r["coord"][k], b2f(m["coord"][k]), ptol) for k in range(3)) or any(b2f(m["origin"][k]) != b2f(r["origin"][k]) for k in range(3)):
            C("export-position-vs-model", f"particle {i}: impl {[b2f(b) for b in r['coord']]} model {[b2f(b) for b in m['coord']]}")
        if m.get("post") is None or m.get("own_post") is None:
            C("model-rejects", f"particle {i}: the model cannot rebuild the Euler matrices (post={m.get('post') is not None}, own_post={m.get('own_post') is not None})")
            continue
        d1, d3, d4 = _dev(_m(m["expect"]), Pm.T), _dev(_m(m["post"]), _m(m["fed"])), _dev(_m(m["own_post"]), _m(m["fed"]))
        d2 = _dev(_m(m["rel"]), E)            # the model's own exported rotation (own extractor) against the implementation's
        d5 = _dev(_m(m["rel"]), _m(m["expect"]))  # the model against its theorem (export_is_transpose)
        dev["model_vs_numpy"] = max(dev.get("model_vs_numpy", 0.0), d1)
        if not ga:
            dev["model_rotation_vs_impl"] = max(dev.get("model_rotation_vs_impl", 0.0), d2)
            dev["scipy_post"] = max(dev.get("scipy_post", 0.0), d3)
        dev["own_extractor_post"] = max(dev.get("own_extractor_post", 0.0), d4)
        if d1 > TOL_MODEL:
            C("export-matrix-vs-model", f"particle {i}: model/harness matrices of the input angles differ by {d1:.3g}")
        if d4 > TOL_POST:
            C("own-extractor-postcondition", f"particle {i}: the driver's extractor does not reproduce the matrix it was given (|diff|={d4:.3g})")
        elif d5 > TOL_POST:
            C("model-vs-theorem", f"particle {i}: model output is not the transpose although the extractor met its post-condition (|diff|={d5:.3g})")
        if d3 > (TOL_POST if mem else TOL_FILE) + ga:
            C("scipy-postcondition", f"particle {i}: as_euler answer does not reproduce the matrix handed to scipy (|diff|={d3:.3g})")
        if d2 > max(rtol, TOL_POST) + ga:
            C("export-rotation-vs-model", f"particle {i}: the model exports a different rotation than the implementation (|diff|={d2:.3g})")
        if m["tomo_name"] != r["tomo"] or m["sub_name"] != r["sub"]:
            C("export-names-vs-model", f"particle {i}: impl ({r['tomo']!r},{r['sub']!r}) model ({m['tomo_name']!r},{m['sub_name']!r})")
        if m["halfset"] != r["halfset"] or m["cls"] != r["cls"]:
            C("export-ids-vs-model", f"particle {i}: impl halfset/class {r['halfset']}/{r['cls']} model {m['halfset']}/{m['cls']}")


def _judge_import(tag, case, im, resp, truth, out, dev):
    """truth: dict(pos=[[3]], xyz=[[3]]|None, shift=[[3]]|None, rot=[3x3], relin=[3x3]|None, tomo, geom3, cls, halfsets|None, ptol, rtol, version|None)"""
    S = lambda clause, detail: out.append(dict(kind="spec", clause=clause, detail=f"[{tag}] {detail}"))
    C = lambda clause, detail: out.append(dict(kind="corr", clause=clause, detail=f"[{tag}] {detail}"))
    _common(tag, im, C)
    n = len(truth["pos"])
    rows = im["rows"]
    if len(rows) != n:
        S("import-row-count", f"{len(rows)} particles for {n} rows"); return
    ptol, rtol = truth["ptol"], truth["rtol"]
    mrows = resp["rows"] if resp and "rows" in resp else None
    if resp is not None and mrows is None:
        C("model-rejects", str(resp)[:200])
    if truth.get("version") is not None and im.get("version") != truth["version"]:
        S("import-version-detected", f"RELION {truth['version']/10} data ({'columns sniffed' if im.get('sniffed') else 'file'}) read as version {im.get('version')}")
    if mrows is not None and im.get("sniffed") and resp.get("sniff") != im.get("version"):
        C("sniff-vs-model", f"set_version detected {im.get('version')}, the model's rules give {resp.get('sniff')}")
    subs = [r["sub"] for r in rows]
    if len(set(map(str, subs))) != n:
        # not demanded by the statement (it asks for the number to survive in geom3 / names): a disagreement with the model's Nodup theorem only
        C("import-subtomo-unique", f"subtomo_id not unique after import: {subs[:12]}")
    for i in range(n):
        r = rows[i]
        xyz, sh, a = [b2f(b) for b in r["xyz"]], [b2f(b) for b in r["shift"]], [b2f(b) for b in r["ang"]]
        pos = [xyz[k] + sh[k] for k in range(3)]
        if any(not _near(pos[k], truth["pos"][i][k], ptol) for k in range(3)):
            S("import-position", f"particle {i}: position after import {pos}, expected {truth['pos'][i]}")
        if truth["xyz"] is not None:
            if any(not _near(xyz[k], truth["xyz"][i][k], ptol) for k in range(3)):
                S("import-xyz", f"particle {i}: x,y,z {xyz} != rlnCoordinate {truth['xyz'][i]}")
            if any(not _near(sh[k], truth["shift"][i][k], ptol) for k in range(3)):
                S("import-shift", f"particle {i}: shift {sh}, expected -origin{'/pixel' if case['ver'] >= 31 else ''} = {truth['shift'][i]}")
        Pm = mat_particle(*a)
        if truth["relin"] is not None:
            E = truth["relin"][i]
            d = max(_dev(Pm @ E, I3), _dev(E @ Pm, I3))
            key = "import_inverse"
            ga = _gimbal_allow(E)                       # one as_euler call, on RELION's matrix
        else:
            d = _dev(Pm, truth["rot"][i])
            key = "roundtrip_rotation_" + ("mem" if rtol == TOL_MEM else "file")
            ga = _gimbal_allow(truth["rot"][i], 2)      # export and import: two as_euler calls, both inside the zone
        if ga:
            dev["gimbal_zone_particles"] = dev.get("gimbal_zone_particles", 0.0) + 1.0
        else:
            dev[key] = max(dev.get(key, 0.0), d)
        if not d <= rtol + ga:
            S("import-rotation-inverse" if truth["relin"] is not None else "roundtrip-orientation",
              f"particle {i}: imported (phi,theta,psi)={a}: deviation {d:.3g} > {rtol + ga:.3g}")
        if _idv(r["tomo"]) != truth["tomo"][i]:
            S("import-tomo-number", f"particle {i}: tomo_id {r['tomo']} expected {truth['tomo'][i]}")
        if _idv(r["geom3"]) != truth["geom3"][i]:
            S("import-subtomo-number-geom3", f"particle {i}: geom3 {r['geom3']} expected subtomogram number {truth['geom3'][i]}")
        if _idv(r["cls"]) != truth["cls"][i]:
            S("import-class", f"particle {i}: class {r['cls']} expected {truth['cls'][i]}")
        if truth["halfsets"] is not None and isinstance(_idv(r["sub"]), int) and _halfset(_idv(r["sub"])) != truth["halfsets"][i]:
            S("halfset-parity-import", f"particle {i}: rlnRandomSubset {truth['halfsets'][i]} but subtomo_id {r['sub']} after import (geom3 {r['geom3']})")
        if mrows is None:
            continue
        m = mrows[i]
        mt = 0 if ptol == 0 else 1e-9
        if any(not _close(m["xyz"][k], xyz[k], mt) for k in range(3)) or any(not _close(m["shift"][k], sh[k], mt) for k in range(3)):
            if not (truth["xyz"] is None and ptol > 0):  # file round trips: model ran on the file's cells, same tolerance applies
                C("import-position-vs-model", f"particle {i}: impl xyz {xyz} shift {sh}; model {[b2f(b) for b in m['xyz']]} {[b2f(b) for b in m['shift']]}")
        if m.get("post") is None or m.get("own_post") is None:
            C("model-rejects", f"particle {i}: the model cannot rebuild the Euler matrices")
            continue
        d2, d3, d4 = _dev(_m(m["rot"]), Pm), _dev(_m(m["post"]), _m(m["fed"])), _dev(_m(m["own_post"]), _m(m["fed"]))
        d5 = _dev(_m(m["rot"]), _m(m["expect"]))
        gm = _gimbal_allow(_m(m["fed"]))      # the matrix THIS import handed to as_euler
        if not gm:
            dev["model_rotation_vs_impl"] = max(dev.get("model_rotation_vs_impl", 0.0), d2)
            dev["scipy_post"] = max(dev.get("scipy_post", 0.0), d3)
        dev["own_extractor_post"] = max(dev.get("own_extractor_post", 0.0), d4)
        if d4 > TOL_POST:
            C("own-extractor-postcondition", f"particle {i}: the driver's extractor does not reproduce the matrix it was given (|diff|={d4:.3g})")
        elif d5 > TOL_POST:
            C("model-vs-theorem", f"particle {i}: model output is not the transpose although the extractor met its post-condition (|diff|={d5:.3g})")
        if d3 > TOL_POST + gm:
            C("scipy-postcondition", f"particle {i}: as_euler answer does not reproduce the matrix handed to scipy (|diff|={d3:.3g})")
        if d2 > max(rtol, TOL_POST) + gm and truth["relin"] is not None:
            C("import-rotation-vs-model", f"particle {i}: the model imports a different rotation than the implementation (|diff|={d2:.3g})")
    if mrows is not None:
        if resp["tomo"] != [r["tomo"] for r in rows]:
            C("import-tomo-vs-model", f"impl {[r['tomo'] for r in rows][:10]} model {(resp['tomo'] or [])[:10]}")
        if resp["geom3"] != [r["geom3"] for r in rows]:
            C("import-geom3-vs-model", f"impl {[r['geom3'] for r in rows][:10]} model {(resp['geom3'] or [])[:10]}")
        if resp["subtomo"] != subs:
            C("import-subtomo-vs-model", f"impl {subs[:10]} model {(resp['subtomo'] or [])[:10]}")
        if resp["cls"] != [r["cls"] for r in rows]:
            C("import-class-vs-model", f"impl {[r['cls'] for r in rows][:10]} model {(resp['cls'] or [])[:10]}")


def _judge_original_entries(tag, case, ex, truth, out, dev):
    """import -> the user drops / reorders particles -> create_relion_df(use_original_entries=True[, keep_all_entries=True]): output row i is the particle
    perm[i] of the RELION input; everything is judged against the case's own input rows (independent of the model and of the imported table)"""
    S = lambda clause, detail: out.append(dict(kind="spec", clause=clause, detail=f"[{tag}] {detail}"))
    C = lambda clause, detail: out.append(dict(kind="corr", clause=clause, detail=f"[{tag}] {detail}"))
    _common(tag, ex, C)
    ver = case["ver"]
    u = case["uoe"]
    perm, keep = list(u["perm"]), bool(u.get("keep_all"))
    tname, sname, onames, _ = DOC_NAMES[ver]
    need = ["rlnCoordinateX", "rlnCoordinateY", "rlnCoordinateZ", "rlnAngleRot", "rlnAngleTilt", "rlnAnglePsi", sname, "rlnClassNumber"] + onames \
        + ([tname] if case.get("tomo_col", True) else []) + (["rlnRandomSubset"] if case["halfsets"] is not None else [])
    missing = [c for c in need if c not in ex["cols"]]
    if missing:
        S("original-entries-columns", f"columns {missing} of the original table missing from {ex['cols']}"); return
    if len(ex["rows"]) != len(perm):
        S("original-entries-row-count", f"{len(ex['rows'])} rows for {len(perm)} kept particles"); return
    for i, j in enumerate(perm):
        r = ex["rows"][i]
        if _name_number(r["sub"], "x", ver, "sub") != truth["geom3"][j] or (case.get("tomo_col", True) and _name_number(r["tomo"], "x", ver, "tomo") != truth["tomo"][j]):
            S("original-entries-row-identity", f"row {i} is particle {j} (tomogram {truth['tomo'][j]}, subtomogram {truth['geom3'][j]}) but carries names ({r['tomo']!r}, {r['sub']!r})")
        want_cls = u["newcls"][i] if u.get("newcls") else truth["cls"][j]
        if r["cls"] != want_cls:
            S("export-class", f"row {i} (particle {j}): class {want_cls} exported as {r['cls']}")
        if truth["halfsets"] is not None and r["halfset"] != truth["halfsets"][j]:
            S("export-halfset", f"row {i} (particle {j}): half-set {truth['halfsets'][j]} exported as {r['halfset']}")
        a = [b2f(b) for b in r["ang"]]
        d = _dev(mat_relion(*a), truth["relin"][j])
        ga = _gimbal_allow(truth["relin"][j], 2)     # import then export: two as_euler calls
        if not ga:
            dev["original_entries_rotation"] = max(dev.get("original_entries_rotation", 0.0), d)
        if not d <= 1e-8 + ga:
            S("export-rotation-inverse", f"row {i} (particle {j}): exported (rot,tilt,psi)={a} is not the rotation the particle was imported with (|diff|={d:.3g})")
        if any(b2f(o) != 0.0 for o in r["origin"]):
            S("export-origin-zero", f"row {i} (particle {j}): origin {[b2f(o) for o in r['origin']]}")
        zero_origin = all(v == 0.0 for v in truth["origin"][j])
        if not keep or zero_origin:   # keep_all_entries documents "coordinates as loaded": the position is only claimed where that IS the complete position
            c = [b2f(b) for b in r["coord"]]
            if any(not _near(c[k], truth["pos"][j][k], 1e-9) for k in range(3)):
                S("export-coordinate", f"row {i} (particle {j}): rlnCoordinate {c}, complete position x+shift = coordinate - origin{'/pixel' if ver >= 31 else ''} = {truth['pos'][j]}")


def _errors(case, obs, tags, out):
    for tag in tags:
        o = obs.get(tag)
        if o is None or _ok(o):
            continue
        if o.get("where"):
            # B0 (write_optics left at its default for 3.0) is a refusal the statement does not name: another exception type there is `corr`
            out.append(dict(kind=("corr" if tag == "B0" else "spec"), clause="raises:" + tag, detail=f"[{tag}] {o['error']} @{o['where']}"))
        else:  # G4: no frame of the traceback lies inside /cryocat/
            out.append(dict(kind="corr", clause="harness-or-library-raised", detail=f"[{tag}] {o['error']} (no cryocat frame in the traceback)"))


def judge(case, obs, resps):
    out, dev = [], {}
    if "error" in obs:
        if obs.get("where"):
            return [dict(kind="spec", clause="raises", detail=obs["error"] + " @" + obs["where"])]
        return [dict(kind="corr", clause="harness-or-library-raised", detail=obs["error"] + " (no cryocat frame in the traceback)")]
    plan = _plan(case, obs)
    rmap = {tag: resps[k] for k, (tag, _) in enumerate(plan)} if len(resps) == len(plan) else {}
    ver, px = case["ver"], b2f(case["px"])
    tags = ("A", "B", "B0", "C", "D", "E", "G") if case["kind"] == "cc" else ("M", "M2", "U", "F", "H", "F2")
    if case["kind"] == "cc":
        P = [[b2f(b) for b in p] for p in case["parts"]]
        for tag in ("A", "B", "B0", "G"):
            if _ok(obs.get(tag)) and "refused" not in obs[tag]:     # B0 refused with `Warning`: the documented answer to write_optics=True without optics data (3.0)
                _judge_export(tag, case, obs[tag], rmap.get(tag), out, dev)
        hs = [_halfset(t[1]) for t in case["ids"]]
        base = dict(pos=[[p[k] + p[3 + k] for k in range(3)] for p in P], xyz=None, shift=None, rot=[mat_particle(p[6], p[7], p[8]) for p in P], relin=None,
                    tomo=[t[0] for t in case["ids"]], geom3=[t[1] for t in case["ids"]], cls=[t[2] for t in case["ids"]], halfsets=hs)
        for tag, ptol, rtol in (("C", 0, TOL_MEM), ("D", POS_TOL_FILE, TOL_FILE), ("E", POS_TOL_FILE, TOL_FILE)):
            if _ok(obs.get(tag)):
                want_ver = ver if (tag == "D" or (tag == "C" and obs[tag].get("sniffed"))) else None
                _judge_import(tag, case, obs[tag], rmap.get(tag), dict(base, ptol=ptol, rtol=rtol, version=want_ver), out, dev)
    else:
        R = [[b2f(b) for b in r] for r in case["rows"]]
        n = len(R)
        ang = ver >= 31

        def truth_for(tag):
            """what the statement demands of the call behind `tag` (the pixel size that call must see differs between the entry points, see _rln_px)"""
            pxs = [b2f(b) for b in _rln_px(case, tag)]
            shift = [[((-r[3 + k]) / pxs[i] if ang else -r[3 + k]) for k in range(3)] for i, r in enumerate(R)]
            t = dict(pos=[[r[k] + s[k] for k in range(3)] for r, s in zip(R, shift)], xyz=[r[:3] for r in R], shift=shift, rot=None, origin=[r[3:6] for r in R],
                     relin=[mat_relion(r[6], r[7], r[8]) for r in R], tomo=list(case["tomo_ids"]), geom3=list(case["sub_ids"]), cls=list(case["cls"]), halfsets=case["halfsets"])
            return {k: (v[::-1] if isinstance(v, list) else v) for k, v in t.items()} if tag == "F2" else t
        for tag, ptol in (("M", 0), ("M2", 0), ("F", 1e-9), ("H", 1e-9), ("F2", 1e-9)):
            if _ok(obs.get(tag)):
                o = obs[tag]
                want_ver = ver if (tag in ("F", "F2") or (tag in ("M", "M2") and o.get("sniffed"))) else None
                _judge_import(tag, case, o, rmap.get(tag), dict(truth_for(tag), ptol=ptol, rtol=1e-8, version=want_ver), out, dev)
        if case.get("uoe") and _ok(obs.get("U")):
            _judge_original_entries("U", case, obs["U"], truth_for("U"), out, dev)
    _errors(case, obs, tags, out)    # after the judged clauses: a wrong export is named before the exception its re-import ends in
    STATS[id(case)] = dev
    # de-duplicate by clause, keep the first detail
    seen, uniq = set(), []
    for f in out:
        if (f["kind"], f["clause"]) not in seen:
            seen.add((f["kind"], f["clause"])); uniq.append(f)
    return uniq


def classify(case, obs, finding):
    """C03 has no open known finding (C03-K1 was repaired as D30 / 9b145a8; its rule is gone): nothing is ever classified."""
    return None


def nontrivial(case, obs):
    if "error" in obs:
        return False
    rows = case["parts"] if case["kind"] == "cc" else case["rows"]
    if len(rows) < 2:
        return False
    vals = [[b2f(b) for b in r] for r in rows]
    moved = any(any(v != 0.0 for v in r[3:6]) for r in vals)
    tilt = any((r[7] % 180.0) != 0.0 for r in vals)
    padded = bool(case.get("tomo_fmt") or case.get("sub_fmt")) if case["kind"] == "cc" else True
    return moved and tilt and padded


def stats(case, obs, resps):
    rows = case["parts"] if case["kind"] == "cc" else case["rows"]
    n = len(rows)
    d = {"kind": case["kind"], "version": case["ver"] / 10, "N": "1" if n == 1 else ("2-25" if n <= 25 else ("26-80" if n <= 80 else "81-300")),
         "angles": case.get("angles", "?"), "optics": str(case.get("optics")), "keywordless_imports_through": case.get("loader", "ctor"),
         "paths_ok": [t for t in ("A", "B", "B0", "C", "D", "E", "G", "M", "M2", "U", "F", "H", "F2") if _ok(obs.get(t))] if "error" not in obs else [],
         "gimbal_particles": "yes" if any((b2f(r[7]) % 180.0) == 0.0 for r in rows) else "no"}
    if case["kind"] == "cc":
        d["formats"] = ("tomo:" + ("plain" if not case["tomo_fmt"] else "fmt")) + " sub:" + ("plain" if not case["sub_fmt"] else "fmt")
        subs = [t[1] for t in case["ids"]]
        d["halfsets"] = "both" if len(set(s % 2 for s in subs)) == 2 else "single"
        d["sub_ids"] = "unique" if len(set(subs)) == n else "repeated"
        d["omitted_keywords"] = list(case.get("omit", [])) or ["none"]
        d["xyz_dtype"] = "all-columns-int64" if case.get("all_int") else ("int64" if case.get("xyz_int") else "float64")
        d["row_labels"] = case.get("idx", "default")
        d["export_version_given_by"] = "default" if "version" in case.get("omit", []) else case.get("ver_by", "ctor")
        if case.get("wo30"):
            b0 = obs.get("B0") if "error" not in obs else None
            d["v3.0_default_write_optics"] = "refused:" + b0["refused"] if (_ok(b0) and "refused" in b0) else ("written" if _ok(b0) else "raised")
        d["same_frame_for_every_call"] = str(bool(case.get("share_df")))
        d["version_sniffed_on_reimport"] = str(bool(_ok(obs.get("C")) and obs["C"].get("sniffed")))
    else:
        d["halfsets"] = "none" if case["halfsets"] is None else ("both" if len(set(case["halfsets"])) == 2 else "single")
        d["pixel_source"] = ("column" if case["pxsrc"] == "column" else ("default-1.0/unused" if case.get("omit_px") else ("optics" if (case["optics"] and case["ver"] >= 31) else "arg")))
        d["pixel_per_row"] = "non-uniform" if len(set(case.get("pxs", []))) > 1 else "uniform"
        d["tomo_column"] = "present" if case.get("tomo_col", True) else "absent(fallback)"
        d["column_order"] = "shuffled" if case.get("colorder") else "canonical"
        d["version_given"] = case.get("ver_arg", "explicit")
        d["coordinate_dtype"] = "all-columns-int64" if case.get("all_int") else ("int64" if case.get("coord_int") else "float64")
        d["row_labels"] = case.get("idx", "default")
        d["optics_block_position"] = "none" if not (case["optics"] and case["ver"] >= 31) else ("after-particles" if case.get("optics_last") else "before-particles")
        d["pixel_size_argument_and_data"] = "both" if case.get("px_arg") is not None else "one"
        d["same_frame_twice+same_path_rewritten"] = str(bool(case.get("reuse")))
        d["use_original_entries"] = "no" if not case.get("uoe") else (("keep_all" if case["uoe"].get("keep_all") else "yes") + ("" if case["uoe"].get("reset", True) else "+labels-kept"))
        if _ok(obs.get("M")):
            d["motl_dtype_kinds"] = "".join(sorted(set(obs["M"].get("kinds", {}).values())))
        d["sub_ids"] = "unique" if len(set(case["sub_ids"])) == n else "repeated"
    try:
        if id(case) not in STATS:
            judge(case, obs, resps)
        for k, v in STATS.get(id(case), {}).items():
            if k == "gimbal_zone_particles":     # particles inside scipy's gimbal zone: judged with the conditioned allowance, not part of the maxdev histograms
                d["inside_scipy_gimbal_zone"] = "yes"
                continue
            d["maxdev:" + k] = "<=1e-12" if v <= 1e-12 else ("<=1e-9" if v <= 1e-9 else ("<=1e-6" if v <= 1e-6 else ("<=2e-5" if v <= 2e-5 else ">2e-5")))
    except Exception:
        pass
    return d


def sample_view(case):
    rows = case["parts"] if case["kind"] == "cc" else case["rows"]
    v = {k: case[k] for k in case if k not in ("parts", "rows", "ids", "tomo_names", "sub_names", "tomo_ids", "sub_ids", "cls", "halfsets", "pxs")}
    v["px"] = b2f(case["px"]); v["n"] = len(rows); v["first_row"] = [b2f(b) for b in rows[0]]
    if case["kind"] == "cc":
        v["first_ids"] = case["ids"][0]
    else:
        v["first_names"] = [case["tomo_names"][0], case["sub_names"][0]]; v["halfsets"] = (case["halfsets"] or [None])[:6]
    return v


def probes(rng):
    """library assumptions behind the theorems' hypotheses, probed directly"""
    from scipy.spatial.transform import Rotation as rot
    out = []
    worst = {"zxz=Rz(psi)Rx(theta)Rz(phi)": 0.0, "ZXZ=Rz(a)Rx(b)Rz(c)": 0.0, "ZYZ=Rz(a)Ry(b)Rz(c)": 0.0, "as_euler(ZYZ) post-condition": 0.0, "as_euler(zxz) post-condition": 0.0}
    import warnings
    with warnings.catch_warnings():
        warnings.simplefilter("ignore")
        for k in range(300):
            a = _angles(rng, ANGLE_CLASSES[k % len(ANGLE_CLASSES)])
            worst["zxz=Rz(psi)Rx(theta)Rz(phi)"] = max(worst["zxz=Rz(psi)Rx(theta)Rz(phi)"], _dev(rot.from_euler("zxz", a, degrees=True).as_matrix(), mat_particle(*a)))
            worst["ZXZ=Rz(a)Rx(b)Rz(c)"] = max(worst["ZXZ=Rz(a)Rx(b)Rz(c)"], _dev(rot.from_euler("ZXZ", a, degrees=True).as_matrix(), Rz(a[0]) @ Rx(a[1]) @ Rz(a[2])))
            worst["ZYZ=Rz(a)Ry(b)Rz(c)"] = max(worst["ZYZ=Rz(a)Ry(b)Rz(c)"], _dev(rot.from_euler("ZYZ", a, degrees=True).as_matrix(), mat_relion(*a)))
            r = rot.from_euler("ZXZ", a, degrees=True)
            e = r.as_euler("ZYZ", degrees=True)
            worst["as_euler(ZYZ) post-condition"] = max(worst["as_euler(ZYZ) post-condition"], max(0.0, _dev(mat_relion(*e), r.as_matrix()) - _gimbal_allow(r.as_matrix())))
            r = rot.from_euler("ZYZ", a, degrees=True)
            e = r.as_euler("zxz", degrees=True)
            worst["as_euler(zxz) post-condition"] = max(worst["as_euler(zxz) post-condition"], max(0.0, _dev(mat_particle(*e), r.as_matrix()) - _gimbal_allow(r.as_matrix())))
    for k, v in worst.items():
        out.append(dict(name="scipy " + k, ok=v <= 1e-9, detail=f"max deviation {v:.3g} over 300 orientations incl. gimbal lock (post-conditions: beyond the 3 sin(theta) allowance inside as_euler's gimbal zone)"))
    return out


LEVEL_TEXT = ("Lean 4 theorems about an executable model of RelionMotl's conversion (export_is_transpose/export_is_inverse, import_is_transpose/import_is_inverse, "
              "export_import_orientation, export_import_pose, export_coord, import_coord, import_shift_pixels/import_shift_angstrom/import_shift_total, version_names, sniff_version, "
              "halfset_parity, renumber_spec, renumber_halfset, import_ids_halfset, import_ids_nodup, import_identity (geom3 = parsed number, class unchanged), class_survives, "
              "zfill_parse, names_parse_v3/v4, names_generated_v3/v4, names_parse_fallback_v3/v4; under the global contract `EulerOK` of as_euler on proper rotations: "
              "export_is_inverse_of_contract, import_is_inverse_of_contract, export_import_pose_of_contract; over the reals with explicit extractors meeting the contract, NO "
              "hypothesis on the Euler service: eulerOK_real, export_is_inverse_real, import_is_inverse_real, export_import_pose_real, export_import_pose_degrees) for all orientations incl. gimbal lock, all positions/shifts/per-row pixel sizes, "
              "all id lists; every model function fails (Option) instead of defaulting on what the code would reject, and the theorems prove it does not fail on the documented "
              "tables; tied to the source by rename-insensitive regenerated anchors (Euler sequences, slot/sign pattern, shift sign/scaling operator, version dispatch and sniffing, "
              "half-set table, column lists, fallback tomogram parsing, signature defaults, by-position filling of the RELION frames, forwarding of the version keyword, whole-body "
              "digests of 27 functions with per-statement diagnostics) and by a differential run of the real "
              "export/import (in memory, through files, through the four converters, with original entries, with omitted keywords, with re-used caller frames / rewritten paths) "
              "with non-default / duplicated row labels, with the export version given by keyword, with all-int64 tables) "
              "against the model (run with the driver's own Euler extractor) and an independent statement of the convention")
LEVEL_NOTE = ("scipy's as_euler enters the theorems only through its post-condition (a hypothesis, checked numerically for every generated particle and probed; over the reals the "
              "post-condition is PROVED satisfiable for every proper rotation at once - `eulerOK_real` - which removes the hypothesis from the `_real` theorems but does not say that "
              "scipy is that extractor); the model is "
              "executed with the driver's own extractor whose post-condition is checked the same way; file round trips are validated within 6-decimal STAR precision, not "
              "proved; the $-format substitution is proved to carry the numbers for the documented format shapes (one $x.. and one $y.. sequence); other formats (repeated / "
              "leftover sequences) are compared string for string with the model only; binning is outside the quantifier (always 1); whole-body digests are opaque: a changed "
              "digest says that a frozen function changed, the normalised bodies in the evidence say where")
TECHNIQUE = "Lean 4 proof (matrix identities over any commutative ring, field arithmetic, list induction) + regenerated tables/operators/defaults/body digests + differential correspondence"
DESIGN_REF = "DESIGN.md section 4, C03; Appendix A.4"


if __name__ == "__main__":   # `PYTHONPATH=harness python harness/props/c03.py --doc-bodies`: the literals DOC_DIGESTS / DOC_STMTS for the tree in CRYOCAT_REPO (default /repo)
    import sys
    if "--doc-bodies" in sys.argv:
        _src = core.Source(os.environ.get("CRYOCAT_REPO") or None)
        print("DOC_DIGESTS = {")
        for _q in DIGEST_FNS:
            print(f"    {_q!r}: {body_digest(_src, _q)!r},")
        print("}\nDOC_STMTS = {")
        for _q in DIGEST_FNS:
            print(f"    {_q!r}: {' '.join(_h(t, 6) for t in body_dump(_src, _q))!r}.split(),")
        print("}")
