"""C03 — RELION <-> cryoCAT conversion preserves each particle's pose and identity (DESIGN.md section 4, C03).

First part: translator (pure `ast`; re-extracts the tables / call arguments / signs / operators the theorems are about).
Second part: generators, adapters to the real code, independent STAR reader/writer, judge."""
import ast, re
import core
from core import AnchorMissing

REL = "cryocat/cryomotl.py"
OPS = {ast.LtE: "<=", ast.GtE: ">=", ast.Eq: "==", ast.Lt: "<", ast.Gt: ">"}

DOC = dict(
    columnsV30=["rlnMicrographName", "rlnCoordinateX", "rlnCoordinateY", "rlnCoordinateZ", "rlnAngleRot", "rlnAngleTilt", "rlnAnglePsi",
                "rlnImageName", "rlnPixelSize", "rlnRandomSubset", "rlnOriginX", "rlnOriginY", "rlnOriginZ", "rlnClassNumber"],
    columnsV31=["rlnMicrographName", "rlnCoordinateX", "rlnCoordinateY", "rlnCoordinateZ", "rlnAngleRot", "rlnAngleTilt", "rlnAnglePsi",
                "rlnImageName", "rlnPixelSize", "rlnOpticsGroup", "rlnGroupNumber", "rlnOriginXAngst", "rlnOriginYAngst", "rlnOriginZAngst",
                "rlnClassNumber", "rlnRandomSubset"],
    columnsV4=["rlnCoordinateX", "rlnCoordinateY", "rlnCoordinateZ", "rlnAngleRot", "rlnAngleTilt", "rlnAnglePsi", "rlnTomoName",
               "rlnTomoParticleName", "rlnRandomSubset", "rlnOpticsGroup", "rlnOriginXAngst", "rlnOriginYAngst", "rlnOriginZAngst",
               "rlnGroupNumber", "rlnClassNumber"],
)


def _tenths(x):
    return int(round(float(x) * 10))


def _ver_compare(test):
    """`version <op> <const>` or `self.version <op> <const>` -> (op, tenths)"""
    if isinstance(test, ast.Compare) and len(test.ops) == 1 and type(test.ops[0]) in OPS and isinstance(test.comparators[0], ast.Constant) \
            and ast.unparse(test.left) in ("version", "self.version"):
        return OPS[type(test.ops[0])], _tenths(test.comparators[0].value)
    return None


def _strs(node, n=None):
    try:
        v = ast.literal_eval(node)
    except Exception:
        return None
    if isinstance(v, (list, tuple)) and all(isinstance(s, str) for s in v) and (n is None or len(v) == n):
        return list(v)
    return None


def name_branches(src):
    fn = src.find(REL, "RelionMotl.get_version_specific_names")
    top = next((s for s in fn.body if isinstance(s, ast.If) and _ver_compare(s.test)), None)
    if top is None:
        raise AnchorMissing("get_version_specific_names: no `if version <op> <const>` chain")
    out = []

    def assigns(body):
        d = {}
        for s in body:
            if isinstance(s, ast.Assign) and len(s.targets) == 1 and isinstance(s.targets[0], ast.Name):
                d[s.targets[0].id] = ast.literal_eval(s.value)
        try:
            return d["tomo_id_name"], d["subtomo_id_name"], list(d["shifts_id_names"]), d["data_spec"]
        except KeyError as e:
            raise AnchorMissing(f"get_version_specific_names: branch lacks {e}")

    node = top
    while True:
        op, thr = _ver_compare(node.test)
        out.append((op, thr) + assigns(node.body))
        if len(node.orelse) == 1 and isinstance(node.orelse[0], ast.If) and _ver_compare(node.orelse[0].test):
            node = node.orelse[0]
            continue
        if node.orelse:
            out.append(("else", 0) + assigns(node.orelse))
        break
    return out


def _euler_calls(fn, what):
    """(from_seq, from_arg_text, to_seq, result_var) of the from_euler(...).as_euler(...) chain"""
    fe = te = None
    for n in ast.walk(fn):
        if isinstance(n, ast.Call) and isinstance(n.func, ast.Attribute):
            if n.func.attr == "from_euler":
                fe = n
            elif n.func.attr == "as_euler":
                te = n
    if fe is None or te is None:
        raise AnchorMissing(f"{what}: from_euler/as_euler call not found")
    for c in (fe, te):
        if not (c.args and isinstance(c.args[0], ast.Constant) and isinstance(c.args[0].value, str) and len(c.args[0].value) == 3):
            raise AnchorMissing(f"{what}: sequence is not a 3-letter literal")
        if not any(k.arg == "degrees" and isinstance(k.value, ast.Constant) and k.value.value is True for k in c.keywords):
            raise AnchorMissing(f"{what}: degrees=True missing")
    res = None
    for s in ast.walk(fn):
        if isinstance(s, ast.Assign) and s.value is te and isinstance(s.targets[0], ast.Name):
            res = s.targets[0].id
    if res is None:
        raise AnchorMissing(f"{what}: as_euler result not assigned to a name")
    # the as_euler receiver must be the from_euler result
    recv = te.func.value
    ok = recv is fe
    if isinstance(recv, ast.Name):
        for s in ast.walk(fn):
            if isinstance(s, ast.Assign) and s.value is fe and isinstance(s.targets[0], ast.Name) and s.targets[0].id == recv.id:
                ok = True
    if not ok:
        raise AnchorMissing(f"{what}: as_euler is not applied to the from_euler result")
    return fe.args[0].value, fe.args[1], te.args[0].value, res


def _slot_assignments(fn, frame, res, names, what):
    """`frame["name"] = [-]res[:, k]` for each name, in the order of `names` -> [(name, negated, k)]"""
    found = {}
    for s in ast.walk(fn):
        if isinstance(s, ast.Assign) and len(s.targets) == 1 and isinstance(s.targets[0], ast.Subscript) \
                and ast.unparse(s.targets[0].value) == frame and isinstance(s.targets[0].slice, ast.Constant):
            key = s.targets[0].slice.value
            v = s.value
            neg = False
            if isinstance(v, ast.UnaryOp) and isinstance(v.op, ast.USub):
                neg, v = True, v.operand
            if isinstance(v, ast.Subscript) and isinstance(v.value, ast.Name) and v.value.id == res and isinstance(v.slice, ast.Tuple) \
                    and len(v.slice.elts) == 2 and isinstance(v.slice.elts[0], ast.Slice) and isinstance(v.slice.elts[1], ast.Constant):
                if key in found:
                    raise AnchorMissing(f"{what}: {key} assigned twice")
                found[key] = (neg, int(v.slice.elts[1].value))
    out = []
    for n in names:
        if n not in found:
            raise AnchorMissing(f"{what}: no `{frame}[{n!r}] = [-]{res}[:, k]`")
        out.append((n,) + found[n])
    return out


def export_call(src):
    fn = src.find(REL, "RelionMotl.convert_angles_to_relion")
    fs, arg, ts, res = _euler_calls(fn, "convert_angles_to_relion")
    if ast.unparse(arg) != "self.get_angles()":
        raise AnchorMissing("convert_angles_to_relion: from_euler is not fed self.get_angles()")
    slots = _slot_assignments(fn, "relion_df", res, ["rlnAngleRot", "rlnAngleTilt", "rlnAnglePsi"], "convert_angles_to_relion")
    ga = src.find(REL, "Motl.get_angles")
    lists = [l for l in (_strs(n, 3) for n in ast.walk(ga) if isinstance(n, ast.List)) if l]
    if not lists or any(l != lists[0] for l in lists):
        raise AnchorMissing("Motl.get_angles: column list not found / inconsistent")
    return fs, ts, lists[0], slots


def import_call(src):
    fn = src.find(REL, "RelionMotl.convert_angles_from_relion")
    fs, arg, ts, res = _euler_calls(fn, "convert_angles_from_relion")
    names = None
    for s in fn.body:
        if isinstance(s, ast.Assign) and isinstance(s.targets[0], ast.Name) and s.targets[0].id == "relion_angles":
            names = _strs(s.value, 3)
    if names is None:
        raise AnchorMissing("convert_angles_from_relion: relion_angles list")
    if not isinstance(arg, ast.Name):
        raise AnchorMissing("convert_angles_from_relion: from_euler argument is not a name")
    ok = any(isinstance(s, ast.Assign) and isinstance(s.targets[0], ast.Name) and s.targets[0].id == arg.id
             and ast.unparse(s.value) == "relion_df.loc[:, relion_angles].to_numpy()" for s in fn.body)
    if not ok:
        raise AnchorMissing("convert_angles_from_relion: angles are not relion_df.loc[:, relion_angles].to_numpy()")
    slots = _slot_assignments(fn, "self.df", res, ["phi", "theta", "psi"], "convert_angles_from_relion")
    return fs, ts, names, slots


def shifts(src):
    fn = src.find(REL, "RelionMotl.convert_shifts")
    loop = next((s for s in fn.body if isinstance(s, ast.For)), None)
    if loop is None or not (isinstance(loop.iter, ast.Call) and ast.unparse(loop.iter.func) == "zip" and ast.unparse(loop.iter.args[1]) == "self.shifts_id_names"):
        raise AnchorMissing("convert_shifts: for ... in zip((...), self.shifts_id_names)")
    fields = _strs(loop.iter.args[0], 3)
    if fields is None or ast.unparse(loop.target) != "(motl_column, rln_column)":
        raise AnchorMissing("convert_shifts: zip of the three shift fields")
    if not any(ast.unparse(s) == "self.assign_column(relion_df, {motl_column: rln_column})" for s in loop.body):
        raise AnchorMissing("convert_shifts: assign_column(relion_df, {motl_column: rln_column})")
    negated = None
    scale = None
    for s in loop.body:
        if isinstance(s, ast.Assign) and ast.unparse(s.targets[0]) == "self.df[motl_column]":
            v = ast.unparse(s.value)
            if v == "-self.df[motl_column].values":
                negated = True if negated is None else negated
            else:
                raise AnchorMissing(f"convert_shifts: unexpected top-level assignment {v}")
        if isinstance(s, ast.If):
            cv = _ver_compare(s.test)
            if cv is None:
                raise AnchorMissing("convert_shifts: version test")
            if len(s.body) != 1 or not isinstance(s.body[0], ast.Assign) or ast.unparse(s.body[0].targets[0]) != "self.df[motl_column]":
                raise AnchorMissing("convert_shifts: body of the version test")
            v = s.body[0].value
            if not (isinstance(v, ast.BinOp) and ast.unparse(v.left) == "self.df[motl_column].values" and ast.unparse(v.right) == "self.pixel_size"):
                raise AnchorMissing("convert_shifts: scaling expression")
            scale = cv + (isinstance(v.op, ast.Div),)
    if scale is None:
        raise AnchorMissing("convert_shifts: no version-dependent scaling")
    return fields, bool(negated), scale


def coords(src):
    fn = src.find(REL, "RelionMotl.create_relion_df")
    cols = None
    for s in ast.walk(fn):
        if isinstance(s, ast.Assign) and ast.unparse(s.value) == "self.get_coordinates()" and isinstance(s.targets[0], ast.Subscript):
            sl = s.targets[0].slice
            if ast.unparse(s.targets[0].value) == "relion_df.loc" and isinstance(sl, ast.Tuple) and isinstance(sl.elts[0], ast.Slice):
                cols = _strs(sl.elts[1], 3)
    if cols is None:
        raise AnchorMissing("create_relion_df: relion_df.loc[:, [...]] = self.get_coordinates()")
    gc = src.find(REL, "Motl.get_coordinates")
    first = next((s for s in gc.body if isinstance(s, ast.If)), None)
    if first is None or ast.unparse(first.test) != "tomo_number is None":
        raise AnchorMissing("get_coordinates: `if tomo_number is None`")
    a = first.body[0]
    if not (isinstance(a, ast.Assign) and isinstance(a.value, ast.BinOp)):
        raise AnchorMissing("get_coordinates: coord = A <op> B")
    terms = []
    for side in (a.value.left, a.value.right):
        ls = [l for l in (_strs(n, 3) for n in ast.walk(side) if isinstance(n, ast.List)) if l]
        if len(ls) != 1 or not ast.unparse(side).startswith("self.df.loc[:, [") or not ast.unparse(side).endswith("].values"):
            raise AnchorMissing("get_coordinates: operand is not self.df.loc[:, [...]].values")
        terms.append(ls[0])
    ret = gc.body[-1]
    if not (isinstance(ret, ast.Return) and ast.unparse(ret.value) == ast.unparse(a.targets[0])):
        raise AnchorMissing("get_coordinates: does not return the sum")
    # binning only touches version >= 4.0
    return cols, terms, isinstance(a.value.op, ast.Add)


def origin_zero(src):
    fn = src.find(REL, "RelionMotl.prepare_particles_data")
    for s in fn.body:
        if isinstance(s, ast.Assign) and ast.unparse(s.targets[0]) == "relion_df.loc[:, shifts_name]":
            return ast.unparse(s.value).replace(" ", "") == "np.zeros((relion_df.shape[0],3))"
    raise AnchorMissing("prepare_particles_data: relion_df.loc[:, shifts_name] = ...")


def halfset_table(src):
    fn = src.find(REL, "RelionMotl.create_relion_df")
    out = []
    for s in ast.walk(fn):
        if isinstance(s, ast.Assign) and isinstance(s.targets[0], ast.Subscript) and ast.unparse(s.targets[0].value) == "relion_df.loc":
            sl = s.targets[0].slice
            if isinstance(sl, ast.Tuple) and isinstance(sl.elts[1], ast.Constant) and sl.elts[1].value == "rlnRandomSubset":
                m = re.fullmatch(r"self\.df\['subtomo_id'\]\.mod\((\d+)\)\.eq\((\d+)\)\.to_numpy\(\)", ast.unparse(sl.elts[0]))
                if not m or m.group(1) != "2" or not isinstance(s.value, ast.Constant):
                    raise AnchorMissing("create_relion_df: rlnRandomSubset mask is not subtomo_id.mod(2).eq(r)")
                out.append((int(m.group(2)), int(s.value.value)))
    if not out:
        raise AnchorMissing("create_relion_df: rlnRandomSubset assignment")
    return sorted(out)


def import_pairs(src):
    fn = src.find(REL, "RelionMotl.convert_to_motl")
    loop = next((s for s in fn.body if isinstance(s, ast.For)), None)
    if loop is None or ast.unparse(loop.target) != "coord":
        raise AnchorMissing("convert_to_motl: for coord in (...)")
    cs = _strs(loop.iter, 3)
    body = [ast.unparse(s) for s in loop.body]
    if cs is None or body != ["relion_column = 'rlnCoordinate' + coord.upper()", "self.assign_column(relion_df, {coord: relion_column})"]:
        raise AnchorMissing("convert_to_motl: coordinate loop body")
    pairs = [(c, "rlnCoordinate" + c.upper()) for c in cs]
    cls = None
    for s in fn.body:
        m = re.fullmatch(r"self\.assign_column\(relion_df, \{'class': '(\w+)'\}\)", ast.unparse(s))
        if m:
            cls = m.group(1)
    ex = src.find(REL, "RelionMotl.create_relion_df")
    ecls = None
    for s in ast.walk(ex):
        if isinstance(s, ast.Assign):
            m = re.fullmatch(r"relion_df\['(\w+)'\] = self\.df\['class'\]\.to_numpy\(\)", ast.unparse(s))
            if m:
                ecls = m.group(1)
    if cls is None or ecls != cls:
        raise AnchorMissing("class column pairing (convert_to_motl / create_relion_df)")
    # call order: shifts and angles are converted, ids parsed
    calls = [ast.unparse(s) for s in fn.body]
    for need in ("self.convert_shifts(relion_df)", "self.convert_angles_from_relion(relion_df)", "self.parse_tomo_id(relion_df)", "self.parse_subtomo_id(relion_df)"):
        if need not in calls:
            raise AnchorMissing(f"convert_to_motl: {need}")
    return pairs, ("class", cls)


def parse_numbers(src):
    pt = ast.unparse(src.find(REL, "RelionMotl.parse_tomo_id"))
    ps_fn = src.find(REL, "RelionMotl.parse_subtomo_id")
    ps = ast.unparse(ps_fn)
    if "tomo_idx.append(float(re.search('\\\\d+', j).group()))" not in pt or "[i.rsplit('/', 1)[-1] for i in micrograph_names]" not in pt:
        raise AnchorMissing("parse_tomo_id: first number of the last path component")
    m = re.search(r"subtomo_idx\.append\(float\(re\.findall\('\\\\d\+', j\)\[(\d+)\]\)\)", ps)
    if not m or "[i.rsplit('/', 1)[-1] for i in image_names]" not in ps:
        raise AnchorMissing("parse_subtomo_id: k-th number of the last path component")
    whole = None
    for n in ast.walk(ps_fn):
        if isinstance(n, ast.If) and _ver_compare(n.test) and ast.unparse(n.body[0]) == "subtomo_idx.append(float(j))":
            whole = _ver_compare(n.test)
    if whole is None:
        raise AnchorMissing("parse_subtomo_id: `if self.version >= 4.0: float(j)`")
    return 0, int(m.group(1)), whole


def renumber_skeleton(src):
    fn = src.find(REL, "RelionMotl.parse_subtomo_id")
    top = None
    for s in fn.body:
        if isinstance(s, ast.If) and "rlnRandomSubset" in ast.unparse(s.test):
            top = s
    if top is None:
        raise AnchorMissing("parse_subtomo_id: half-set block")
    return [core.norm_expr(top.test)] + [core.norm_expr(s).replace("\n", ";") for s in top.body]


def geom3_and_unique(src):
    fn = src.find(REL, "RelionMotl.parse_subtomo_id")
    txt = [core.norm_expr(s) for s in fn.body]
    need = ["self.df['geom3']=subtomo_idx", "self.df['subtomo_id']=subtomo_idx",
            "iflen(np.unique(subtomo_idx))!=len(subtomo_idx):\nself.df['subtomo_id']=np.arange(1,relion_df.shape[0]+1,1)"]
    got = [t.replace("    ", "") for t in txt]
    for n in need:
        if n not in got:
            raise AnchorMissing(f"parse_subtomo_id: {n}")
    return True


def file_versions(src):
    fn = src.find(REL, "RelionMotl.get_version_from_file")
    out = []
    for n in ast.walk(fn):
        if isinstance(n, ast.If) and isinstance(n.test, ast.Compare) and isinstance(n.test.left, ast.Constant) and isinstance(n.test.ops[0], ast.Eq):
            spec = n.test.left.value
            for s in n.body:
                if isinstance(s, ast.Assign) and ast.unparse(s.targets[0]) == "version":
                    out.append((spec, _tenths(s.value.value)))
                if isinstance(s, ast.If) and "rlnTomoName" in ast.unparse(s.test):
                    out.append((spec + "+tomo", _tenths(s.body[0].value.value)))
                    out.append((spec, _tenths(s.orelse[0].value.value)))
    if not out:
        raise AnchorMissing("get_version_from_file")
    return out


def _slots(xs):
    return "[" + ", ".join(f"({core.lean_str(n)}, {'true' if neg else 'false'}, {k})" for n, neg, k in xs) + "]"


def _chars(s):
    return "[" + ", ".join("'" + c + "'" for c in s) + "]"


def _b(x):
    return "true" if x else "false"


def translate(src):
    A = src.anchor
    c30 = A("RelionMotl.columns_v3_0", lambda: src.literal(src.class_attr(REL, "RelionMotl", "columns_v3_0")))
    c31 = A("RelionMotl.columns_v3_1", lambda: src.literal(src.class_attr(REL, "RelionMotl", "columns_v3_1")))
    c4 = A("RelionMotl.columns_v4", lambda: src.literal(src.class_attr(REL, "RelionMotl", "columns_v4")))
    nb = A("get_version_specific_names:branches", lambda: [list(b) for b in name_branches(src)])
    ex = A("convert_angles_to_relion:from_euler/as_euler/slots", lambda: list(export_call(src)))
    im = A("convert_angles_from_relion:from_euler/as_euler/slots", lambda: list(import_call(src)))
    sh = A("convert_shifts:negate/scale", lambda: list(shifts(src)))
    co = A("create_relion_df+get_coordinates:complete-position", lambda: list(coords(src)))
    oz = A("prepare_particles_data:origin=zeros", lambda: origin_zero(src))
    hs = A("create_relion_df:halfset-by-parity", lambda: [list(p) for p in halfset_table(src)])
    ip = A("convert_to_motl:coordinate/class pairs", lambda: list(import_pairs(src)))
    pn = A("parse_tomo_id/parse_subtomo_id:number positions", lambda: list(parse_numbers(src)))
    rs = A("parse_subtomo_id:halfset-renumber-loop", lambda: renumber_skeleton(src))
    A("parse_subtomo_id:geom3+uniqueness", lambda: geom3_and_unique(src))
    fv = A("get_version_from_file:table", lambda: [list(p) for p in file_versions(src)])
    # fall back to the documented values for anything missing (anchorsOk=false already breaks Props)
    c30 = c30 or DOC["columnsV30"]; c31 = c31 or DOC["columnsV31"]; c4 = c4 or DOC["columnsV4"]
    nb = nb or []
    ex = ex or ["ZXZ", "ZYZ", ["phi", "theta", "psi"], []]
    im = im or ["ZYZ", "zxz", ["rlnAngleRot", "rlnAngleTilt", "rlnAnglePsi"], []]
    sh = sh or [["shift_x", "shift_y", "shift_z"], False, (">=", 31, False)]
    co = co or [[], [], False]
    hs = hs or []
    ip = ip or [[], ("class", "")]
    pn = pn or [0, 0, (">=", 40)]
    rs = rs or []
    fv = fv or []
    branches = "[" + ", ".join(f"({core.lean_str(b[0])}, {b[1]}, {core.lean_str(b[2])}, {core.lean_str(b[3])}, {core.lean_str_list(b[4])}, {core.lean_str(b[5])})" for b in nb) + "]"
    return f"""-- GENERATED by harness/props/c03.py from {REL}; do not edit
namespace CryoCat.Gen.C03
def anchorsOk : Bool := {_b(src.ok)}
def columnsV30 : List String := {core.lean_str_list(c30)}
def columnsV31 : List String := {core.lean_str_list(c31)}
def columnsV4 : List String := {core.lean_str_list(c4)}
def nameBranches : List (String × Nat × String × String × List String × String) := {branches}
def exportFromSeq : List Char := {_chars(ex[0])}
def exportToSeq : List Char := {_chars(ex[1])}
def exportAngleSource : List String := {core.lean_str_list(ex[2])}
def exportSlots : List (String × Bool × Nat) := {_slots(ex[3])}
def importAngleSource : List String := {core.lean_str_list(im[2])}
def importFromSeq : List Char := {_chars(im[0])}
def importToSeq : List Char := {_chars(im[1])}
def importSlots : List (String × Bool × Nat) := {_slots(im[3])}
def shiftFields : List String := {core.lean_str_list(sh[0])}
def shiftNegated : Bool := {_b(sh[1])}
def shiftScaleCmp : String := {core.lean_str(sh[2][0])}
def shiftScaleThr : Nat := {sh[2][1]}
def shiftScaleDivides : Bool := {_b(sh[2][2])}
def coordColumns : List String := {core.lean_str_list(co[0])}
def coordTerms : List (List String) := [{", ".join(core.lean_str_list(t) for t in co[1])}]
def coordAdds : Bool := {_b(co[2])}
def exportOriginZero : Bool := {_b(oz)}
def halfsetByParity : List (Nat × Nat) := [{", ".join(f"({a}, {b})" for a, b in hs)}]
def importCoordPairs : List (String × String) := [{", ".join(f"({core.lean_str(a)}, {core.lean_str(b)})" for a, b in ip[0])}]
def classPair : String × String := ({core.lean_str(ip[1][0])}, {core.lean_str(ip[1][1])})
def tomoNumberIndex : Nat := {pn[0]}
def subtomoNumberIndex : Nat := {pn[1]}
def subtomoWholeCmp : String := {core.lean_str(pn[2][0])}
def subtomoWholeThr : Nat := {pn[2][1]}
def renumberSkeleton : List String := {core.lean_str_list(rs)}
def fileVersions : List (String × Nat) := [{", ".join(f"({core.lean_str(a)}, {b})" for a, b in fv)}]
end CryoCat.Gen.C03
"""


# =====================================================================================================
# harness part: generators, adapters to the real code, independent STAR reader/writer, judge
# =====================================================================================================
import os, math, json, tempfile
import numpy as np
from core import f2b, b2f

PROP = "C03"
COUNT = {"quick": 120, "thorough": 3000, "search": 600}
PARALLEL = True
RULE = ("two case kinds from one PRNG. 'cc': a cryoCAT particle list (N in 1..300, mostly 1..25) x version in {3.0,3.1,4.0} x pixel size x name formats "
        "('' / documented $xxx,$yyy paddings incl. too-narrow paddings and leftover shorter sequences) x optics block on/off (>=3.1), exported by "
        "create_relion_df, by write_out (file re-read by the harness's own STAR reader), re-imported from the DataFrame and from the file, and through "
        "emmotl2relion/relion2emmotl; 'rln': RELION rows written by the harness's own writer (origins in px for 3.0, Angstrom for >=3.1; pixel size from an "
        "rlnPixelSize column, a single-group optics block, or the pixel_size argument; half-set column present with both values / absent) imported from a "
        "DataFrame and from the file. Orientation classes: uniform, gimbal lock (theta in {0,180,-180,360}), angles outside the canonical ranges, 45-degree "
        "lattice, near-gimbal. Positions/shifts of either sign, on a 1/64 grid (exact through 6-decimal files) or arbitrary doubles. binning=1 only. "
        "non-trivial = N>=2, some non-zero shift/origin, some theta outside {0,180} and a format or name with padding; distinct = distinct case content. "
        "Half-set columns with a single value (always so for N=1), parities disagreeing with the parsed numbers, and repeated subtomogram numbers are generated. "
        "Not generated: multi-group optics blocks")
ASSUMPTIONS = ["scipy Rotation.from_euler/as_euler: as_euler(seq) returns a triple whose from_euler(seq) matrix is the matrix given (post-condition of the theorems; "
               "checked on every generated particle through the driver's `post` vs `fed` matrices, and by probes incl. gimbal lock)",
               "numpy float64 +, unary -, / are IEEE-754 and equal Lean Float (coordinates and shifts compared bit for bit in memory)",
               "Lean Float.cos/sin and numpy cos/sin agree to 1e-12 on the generated angles (matrices compared with that tolerance)",
               "Python str(int(x)).zfill(k), str.replace, re.findall(r'\\d+') behave as modelled (generated names compared string for string)",
               "pandas to_numeric parses the decimal text of a STAR cell to the nearest double up to 1e-9 relative (file paths use tolerances)"]
TRUSTED = ["harness STAR reader/writer in props/c03.py (read_star, write_relion_star)", "harness rotation matrices Rz/Ry/Rx (numpy cos/sin) in props/c03.py"]
TOL_MEM, TOL_FILE, TOL_MODEL, TOL_POST = 1e-9, 1e-6, 1e-11, 1e-8
POS_TOL_FILE = 1.5e-6

VERS = {30: 3.0, 31: 3.1, 40: 4.0}
DOC_NAMES = {30: ("rlnMicrographName", "rlnImageName", ["rlnOriginX", "rlnOriginY", "rlnOriginZ"], "data_"),
             31: ("rlnMicrographName", "rlnImageName", ["rlnOriginXAngst", "rlnOriginYAngst", "rlnOriginZAngst"], "data_particles"),
             40: ("rlnTomoName", "rlnTomoParticleName", ["rlnOriginXAngst", "rlnOriginYAngst", "rlnOriginZAngst"], "data_particles")}
MOTL_COLS = ["score", "geom1", "geom2", "subtomo_id", "tomo_id", "object_id", "subtomo_mean", "x", "y", "z", "shift_x", "shift_y", "shift_z",
             "geom3", "geom4", "geom5", "phi", "psi", "theta", "class"]


# ------------------------------------------------------------------ independent rotation matrices
def _cs(d):
    r = math.radians(d)
    return math.cos(r), math.sin(r)


def Rz(d):
    c, s = _cs(d); return np.array([[c, -s, 0.0], [s, c, 0.0], [0.0, 0.0, 1.0]])


def Rx(d):
    c, s = _cs(d); return np.array([[1.0, 0.0, 0.0], [0.0, c, -s], [0.0, s, c]])


def Ry(d):
    c, s = _cs(d); return np.array([[c, 0.0, s], [0.0, 1.0, 0.0], [-s, 0.0, c]])


def mat_particle(phi, theta, psi):
    """cryoCAT particle rotation: extrinsic zxz = Rz(psi) Rx(theta) Rz(phi)"""
    return Rz(psi) @ Rx(theta) @ Rz(phi)


def mat_relion(rot, tilt, psi):
    """RELION: intrinsic ZYZ = Rz(rot) Ry(tilt) Rz(psi)"""
    return Rz(rot) @ Ry(tilt) @ Rz(psi)


def _dev(a, b):
    return float(np.max(np.abs(np.asarray(a, dtype=float) - np.asarray(b, dtype=float))))


def _m(bits9):
    return np.array([b2f(b) for b in bits9]).reshape(3, 3)


# ------------------------------------------------------------------ independent STAR reader / writer
def read_star(path):
    """[(specifier, [columns], [[cell strings]])] - a line tokenizer written for this check only"""
    blocks, cur, state = [], None, 0
    for raw in open(path).read().split("\n"):
        line = raw.strip()
        if line.startswith("#") or line == "":
            if state == 3:
                state = 0
            continue
        if line.startswith("data_"):
            cur = [line, [], []]; blocks.append(cur); state = 1; continue
        if cur is None:
            continue
        if line == "loop_":
            state = 2; continue
        if state in (1, 2) and line.startswith("_"):
            cur[1].append(line.split()[0][1:]); state = 2; continue
        state = 3
        cur[2].append(line.split())
    return [tuple(b) for b in blocks]


def _fmt(v):
    return v if isinstance(v, str) else (str(v) if isinstance(v, int) else "%.6f" % v)


def write_relion_star(path, ver, cols, rows, optics_px=None, style=0):
    """RELION-like layout (as relion itself writes it: `# version`, aligned cells), not cryoCAT's writer"""
    sep = ["  ", "\t", " "][style % 3]
    with open(path, "w") as f:
        if ver >= 31:
            f.write("\n# version 30001\n")
        if optics_px is not None:
            f.write("\ndata_optics\n\nloop_ \n")
            oc = ["rlnOpticsGroupName", "rlnOpticsGroup", "rlnSphericalAberration", "rlnVoltage", "rlnImagePixelSize", "rlnImageSize", "rlnImageDimensionality"]
            for i, c in enumerate(oc, 1):
                f.write(f"_{c} #{i} \n")
            f.write(sep.join(["opticsGroup1", "1", "2.700000", "300.000000", "%.6f" % optics_px, "64", "3"]) + "\n \n")
            if ver >= 31:
                f.write("\n# version 30001\n")
        f.write("\n" + ("data_" if ver == 30 else "data_particles") + "\n\nloop_ \n")
        for i, c in enumerate(cols, 1):
            f.write(f"_{c} #{i} \n")
        for r in rows:
            f.write(sep.join(_fmt(v).rjust(12) if style % 2 == 0 else _fmt(v) for v in r) + "\n")
        f.write(" \n")


# ------------------------------------------------------------------ generators
def _grid(rng, lo, hi):
    return rng.randint(int(lo * 64), int(hi * 64)) / 64.0


def _angles(rng, cls):
    if cls == "uniform":
        return [rng.uniform(-180, 180), rng.uniform(0, 180), rng.uniform(-180, 180)]
    if cls == "gimbal":
        return [rng.uniform(-360, 360), rng.choice([0.0, 180.0, -180.0, 360.0, -0.0]), rng.uniform(-360, 360)]
    if cls == "noncanon":
        return [rng.uniform(-720, 720), rng.uniform(-360, 360), rng.uniform(-720, 720)]
    if cls == "lattice":
        return [45.0 * rng.randint(-8, 8), 45.0 * rng.randint(-4, 8), 45.0 * rng.randint(-8, 8)]
    if cls == "neargimbal":
        return [rng.uniform(-180, 180), rng.choice([0.0, 180.0]) + rng.choice([-1, 1]) * 10 ** rng.uniform(-5, -2), rng.uniform(-180, 180)]
    return [round(rng.uniform(-180, 180), 3), round(rng.uniform(-10, 190), 3), round(rng.uniform(-180, 180), 3)]


ANGLE_CLASSES = ["uniform", "gimbal", "noncanon", "lattice", "neargimbal", "decimal"]


def _px(rng):
    return rng.choice([1.0, 1.35, 2.5, 0.8275, 4.0, 10.71, 13.48, round(rng.uniform(0.5, 15), 4)])


def _n(rng, tier):
    k = rng.random()
    if k < 0.08:
        return 1
    if k < 0.75:
        return rng.randint(2, 25)
    if k < 0.95 or tier == "search":
        return rng.randint(26, 80)
    return rng.randint(81, 300)


def _formats(rng, ver, px):
    """documented formats only: <=3.1 tomoID_subtomoID_pixelSize in the last path component; 4.0 TS_tomoID / TS_tomoID/subtomoID"""
    kx, ky = rng.choice([1, 2, 3, 4, 6]), rng.choice([1, 2, 3, 5, 7])
    X, Y = "$" + "x" * kx, "$" + "y" * ky
    d = rng.choice(["", "/data/run2/", "sub/", "/p/$x/" if kx > 1 else "/p/", "/a1/b22/"])
    pre = rng.choice(["", "TS_", "tomo", "t-"])
    sep = rng.choice(["_", "-", "_s", "_p"])
    if ver < 40:
        suf = rng.choice(["_%gA.mrc" % px, ".mrc", "_bin4.rec", ""])
        tf = "" if rng.random() < 0.2 else d + pre + X + rng.choice(["_%g.mrc" % px, ".rec", ""])
        sf = "" if rng.random() < 0.15 else d + pre + X + sep + Y + suf
    else:
        tf = "" if rng.random() < 0.2 else pre + X
        sf = "" if rng.random() < 0.15 else rng.choice([d + pre + X + "/" + Y, "parts/" + Y, d + "TS_" + X + "/" + Y])
    return tf, sf


def _sub_ids(rng, n):
    k = rng.random()
    if k < 0.35:
        start = rng.randint(1, 50)
        ids = list(range(start, start + n))
    elif k < 0.8:
        ids = rng.sample(range(1, 6000), n)
        if rng.random() < 0.5:
            ids.sort()
    elif k < 0.9:  # one parity only, unique (half-set column single-valued)
        ids = [2 * i + (1 if k < 0.85 else 2) for i in rng.sample(range(0, 3000), n)]
    else:  # repeated numbers (per-tomogram numbering) with both parities present
        ids = [rng.randint(1, max(2, n // 2)) for _ in range(n)]
        if n >= 2:
            ids[0], ids[1] = 1, 2
    return ids


def gen_cc(rng, tier):
    ver = rng.choice([30, 31, 40])
    px = _px(rng)
    n = _n(rng, tier)
    tf, sf = _formats(rng, ver, px)
    cls_mix = rng.random() < 0.5
    acls = rng.choice(ANGLE_CLASSES)
    exact = rng.random() < 0.7
    parts, ids = [], []
    tomos = sorted(rng.sample(range(0, 400), rng.randint(1, min(4, n))))
    subs = _sub_ids(rng, n)
    for i in range(n):
        a = _angles(rng, rng.choice(ANGLE_CLASSES) if cls_mix else acls)
        if exact:
            pos = [_grid(rng, -500, 4000) for _ in range(3)]
            sh = [0.0 if rng.random() < 0.2 else _grid(rng, -8, 8) for _ in range(3)]
        else:
            pos = [rng.uniform(-500, 4000) for _ in range(3)]
            sh = [rng.uniform(-8, 8) for _ in range(3)]
        parts.append([f2b(v) for v in pos + sh + a])
        ids.append([rng.choice(tomos), subs[i], rng.randint(0, 9)])
    if rng.random() < 0.5:   # half of the lists keep their tomograms interleaved / unsorted
        ids.sort(key=lambda t: t[0])
    for i in range(n):
        ids[i][1] = subs[i]
    return dict(kind="cc", ver=ver, px=f2b(px), tomo_fmt=tf, sub_fmt=sf, optics=(ver >= 31 and rng.random() < 0.5), parts=parts, ids=ids,
                angles=("mixed" if cls_mix else acls), grid=exact)


def gen_rln(rng, tier):
    ver = rng.choice([30, 31, 40])
    px = _px(rng)
    n = _n(rng, tier)
    acls = rng.choice(ANGLE_CLASSES)
    tomos = sorted(rng.sample(range(0, 400), rng.randint(1, min(4, n))))
    kx, ky = rng.choice([1, 2, 3, 5]), rng.choice([1, 3, 4, 6])
    d = rng.choice(["", "/data/run2/", "Tomograms/t7/"])
    subs = rng.sample(range(1, 6000), n) if rng.random() < 0.6 else list(range(1, n + 1))
    if rng.random() < 0.15 and n >= 3:  # repeated numbers: code renumbers 1..n (or by half-set)
        subs = [rng.randint(1, n // 2 + 1) for _ in range(n)]
    hs_mode = rng.choice(["both", "both", "single", "none"]) if n >= 2 else rng.choice(["single", "none"])
    rows, tn, sn, tids, cl = [], [], [], [], []
    for i in range(n):
        a = _angles(rng, acls)
        a = [round(v, 6) for v in a]
        co = [_grid(rng, -200, 4000) for _ in range(3)]
        og = [0.0 if rng.random() < 0.15 else _grid(rng, -30, 30) for _ in range(3)]
        rows.append([f2b(v) for v in co + og + a])
        t = rng.choice(tomos)
        tids.append(t); cl.append(rng.randint(0, 9))
    order = sorted(range(n), key=lambda i: tids[i])
    tids = [tids[i] for i in order]
    for i in range(n):
        t, s = tids[i], subs[i]
        if ver < 40:
            tn.append(f"{d}TS_{str(t).zfill(kx)}_{px:g}.mrc")
            sn.append(f"{d}TS_{str(t).zfill(kx)}_{str(s).zfill(ky)}_{px:g}A.mrc")
        else:
            tn.append(f"TS_{str(t).zfill(kx)}")
            sn.append(f"TS_{str(t).zfill(kx)}/{str(s).zfill(ky)}")
    halfsets = None
    if hs_mode == "both":
        halfsets = [rng.choice([1, 2]) for _ in range(n)]
        if len(set(halfsets)) < 2:
            halfsets[0], halfsets[-1] = 1, 2
    elif hs_mode == "single":
        halfsets = [rng.choice([1, 2])] * n
    pxsrc = rng.choice(["column", "arg"]) if ver < 40 else "arg"
    return dict(kind="rln", ver=ver, px=f2b(px), pxsrc=pxsrc, optics=(ver >= 31 and rng.random() < 0.5), rows=rows, tomo_names=tn, sub_names=sn,
                tomo_ids=tids, sub_ids=subs, halfsets=halfsets, cls=cl, angles=acls, style=rng.randint(0, 5))


def generate(rng, tier, n):
    if tier == "thorough":  # the full 45-degree Euler lattice, 8*5*8 orientations per version, as cc lists
        lat = [(45.0 * a, 45.0 * b, 45.0 * c) for a in range(-4, 4) for b in range(0, 5) for c in range(-4, 4)]
        for ver in (30, 31, 40):
            for k in range(0, len(lat), 80):
                chunk = lat[k:k + 80]
                parts = [[f2b(v) for v in [_grid(rng, 0, 1000), _grid(rng, 0, 1000), _grid(rng, 0, 300), _grid(rng, -4, 4), _grid(rng, -4, 4), _grid(rng, -4, 4)] + list(a)] for a in chunk]
                ids = [[1 + i // 40, i + 1, 1] for i in range(len(chunk))]
                yield dict(kind="cc", ver=ver, px=f2b(2.5), tomo_fmt="" if ver == 40 else "/t/TS_$xxx.rec", sub_fmt="TS_$xxx/$yyyy" if ver == 40 else "/s/TS_$xxx_$yyyy_2.5A.mrc",
                           optics=(ver >= 31), parts=parts, ids=ids, angles="lattice", grid=True)
    for _ in range(n):
        yield gen_cc(rng, tier) if rng.random() < 0.6 else gen_rln(rng, tier)


def shrink(case):
    key = "parts" if case["kind"] == "cc" else "rows"
    per_row = ["parts", "ids"] if case["kind"] == "cc" else ["rows", "tomo_names", "sub_names", "tomo_ids", "sub_ids", "cls"] + (["halfsets"] if case.get("halfsets") else [])
    n = len(case[key])

    def take(idx):
        c = dict(case)
        for k in per_row:
            c[k] = [case[k][i] for i in idx]
        return c
    if n > 1:
        yield take(range(n // 2))
        yield take(range(n // 2, n))
        for i in range(min(n, 12)):
            yield take([i])
        if n > 2:
            yield take(range(2))
    if case["kind"] == "cc":
        if case["tomo_fmt"] or case["sub_fmt"]:
            yield dict(case, tomo_fmt="", sub_fmt="")
        if case["optics"]:
            yield dict(case, optics=False)
        if b2f(case["px"]) != 2.0:
            yield dict(case, px=f2b(2.0))
        simple = [[f2b(v) for v in (10.0 + i, 20.0, 30.0, 0.5, -0.25, 0.0, 10.0, 20.0, 30.0)] for i in range(n)]
        if case["parts"] != simple:
            yield dict(case, parts=simple)
            yield dict(case, parts=[p[:6] + s[6:] for p, s in zip(case["parts"], simple)])
            yield dict(case, parts=[s[:6] + p[6:] for p, s in zip(case["parts"], simple)])


# ------------------------------------------------------------------ implementation adapters
def _i(v):
    """identifier cell -> int when integral, else the text"""
    try:
        f = float(v)
        return int(f) if f == int(f) else repr(f)
    except Exception:
        return str(v)


def _export_obs(cols, spec, get, n, ver):
    tname, sname, onames, _ = DOC_NAMES[ver]
    rows = []
    for i in range(n):
        rows.append(dict(coord=[f2b(float(get(i, "rlnCoordinate" + c))) for c in "XYZ"],
                         origin=[(f2b(float(get(i, o))) if o in cols else None) for o in onames],
                         ang=[f2b(float(get(i, a))) for a in ("rlnAngleRot", "rlnAngleTilt", "rlnAnglePsi")],
                         tomo=str(get(i, tname)) if tname in cols else None, sub=str(get(i, sname)) if sname in cols else None,
                         halfset=_i(get(i, "rlnRandomSubset")) if "rlnRandomSubset" in cols else None,
                         cls=_i(get(i, "rlnClassNumber")) if "rlnClassNumber" in cols else None,
                         pixel=(f2b(float(get(i, "rlnPixelSize"))) if "rlnPixelSize" in cols else None)))
    return dict(cols=list(cols), spec=spec, rows=rows)


def _motl_obs(m):
    df = m.df
    out = []
    for i in range(len(df)):
        r = df.iloc[i]
        out.append(dict(xyz=[f2b(float(r[c])) for c in ("x", "y", "z")], shift=[f2b(float(r[c])) for c in ("shift_x", "shift_y", "shift_z")],
                        ang=[f2b(float(r[c])) for c in ("phi", "theta", "psi")], tomo=_i(r["tomo_id"]), sub=_i(r["subtomo_id"]), geom3=_i(r["geom3"]), cls=_i(r["class"])))
    v = getattr(m, "version", None)
    return dict(rows=out, version=(None if v is None else int(round(float(v) * 10))), cols=[str(c) for c in df.columns])


def _attempt(out, key, fn):
    import traceback
    try:
        out[key] = fn()
    except Exception as e:
        where = ""
        for fr in reversed(traceback.extract_tb(e.__traceback__)):
            if "/cryocat/" in fr.filename:
                where = f"{os.path.basename(fr.filename)}:{fr.lineno}"; break
        out[key] = {"error": f"{type(e).__name__}: {str(e)[:200]}", "where": where}


def _file_export_obs(path, ver):
    blocks = read_star(path)
    specs = [b[0] for b in blocks]
    want = DOC_NAMES[ver][3]
    cand = [b for b in blocks if b[0] != "data_optics"]
    if len(cand) != 1:
        return dict(error=f"expected one particle block, file holds {specs}", where="file")
    spec, cols, rows = cand[0]
    bad = [r for r in rows if len(r) != len(cols)]
    if bad:
        return dict(error=f"row with {len(bad[0])} cells for {len(cols)} columns", where="file")
    o = _export_obs(cols, spec, lambda i, c: rows[i][cols.index(c)], len(rows), ver)
    o["specs"] = specs
    opt = [b for b in blocks if b[0] == "data_optics"]
    if opt and "rlnImagePixelSize" in opt[0][1] and opt[0][2]:
        o["optics_px"] = f2b(float(opt[0][2][0][opt[0][1].index("rlnImagePixelSize")]))
    return o


def run_impl(case):
    import warnings
    warnings.simplefilter("ignore")
    import pandas as pd
    from cryocat import cryomotl
    ver, px = case["ver"], b2f(case["px"])
    out = {}
    with tempfile.TemporaryDirectory(prefix="c03_") as td:
        if case["kind"] == "cc":
            n = len(case["parts"])
            vals = np.zeros((n, 20))
            df = pd.DataFrame(vals, columns=MOTL_COLS)
            P = np.array([[b2f(b) for b in p] for p in case["parts"]], dtype=float).reshape(n, 9)
            for k, c in enumerate(["x", "y", "z", "shift_x", "shift_y", "shift_z", "phi", "theta", "psi"]):
                df[c] = P[:, k]
            df["tomo_id"] = [float(t[0]) for t in case["ids"]]
            df["subtomo_id"] = [float(t[1]) for t in case["ids"]]
            df["class"] = [float(t[2]) for t in case["ids"]]
            df["score"] = np.linspace(0.1, 0.9, n)
            fm = dict(tomo_format=case["tomo_fmt"], subtomo_format=case["sub_fmt"])
            state = {}

            def a():
                m = cryomotl.RelionMotl(df.copy(), version=VERS[ver], pixel_size=px, binning=1.0)
                r = m.create_relion_df(**fm)
                state["r"] = r
                return _export_obs([str(c) for c in r.columns], m.data_spec, lambda i, c: r[c].iloc[i], len(r), ver)
            _attempt(out, "A", a)
            path = os.path.join(td, "out.star")

            def b():
                m = cryomotl.RelionMotl(df.copy(), version=VERS[ver], pixel_size=px, binning=1.0)
                m.write_out(path, write_optics=case["optics"], **fm)
                state["file"] = True
                return _file_export_obs(path, ver)
            _attempt(out, "B", b)
            if "r" in state:
                _attempt(out, "C", lambda: _motl_obs(cryomotl.RelionMotl(state["r"].copy(), version=VERS[ver], pixel_size=px)))
            if "file" in state:
                need_px = (ver == 40 and not case["optics"])
                _attempt(out, "D", lambda: _motl_obs(cryomotl.RelionMotl(path, pixel_size=(px if need_px else None))))
            p2 = os.path.join(td, "conv.star")

            def e():
                cryomotl.emmotl2relion(df.copy(), p2, relion_version=VERS[ver], pixel_size=px, binning=1.0, write_optics=case["optics"], **fm)
                em = cryomotl.relion2emmotl(p2, pixel_size=(px if (ver == 40 and not case["optics"]) else None))
                return _motl_obs(em)
            _attempt(out, "E", e)
        else:
            n = len(case["rows"])
            R = np.array([[b2f(b) for b in r] for r in case["rows"]], dtype=float).reshape(n, 9)
            tname, sname, onames, _ = DOC_NAMES[ver]
            cols, data = [], {}
            cols = ["rlnCoordinateX", "rlnCoordinateY", "rlnCoordinateZ", "rlnAngleRot", "rlnAngleTilt", "rlnAnglePsi", tname, sname] + onames + ["rlnClassNumber"]
            data = {"rlnCoordinateX": R[:, 0], "rlnCoordinateY": R[:, 1], "rlnCoordinateZ": R[:, 2], "rlnAngleRot": R[:, 6], "rlnAngleTilt": R[:, 7],
                    "rlnAnglePsi": R[:, 8], tname: list(case["tomo_names"]), sname: list(case["sub_names"]), onames[0]: R[:, 3], onames[1]: R[:, 4],
                    onames[2]: R[:, 5], "rlnClassNumber": list(case["cls"])}
            if case["halfsets"] is not None:
                cols.append("rlnRandomSubset"); data["rlnRandomSubset"] = list(case["halfsets"])
            use_col = case["pxsrc"] == "column"
            if use_col:
                cols.insert(8, "rlnPixelSize"); data["rlnPixelSize"] = [px] * n
            if ver >= 31:
                cols.append("rlnOpticsGroup"); data["rlnOpticsGroup"] = [1] * n
            rdf = pd.DataFrame({c: data[c] for c in cols})
            _attempt(out, "M", lambda: _motl_obs(cryomotl.RelionMotl(rdf.copy(), version=VERS[ver], pixel_size=(None if use_col else px))))
            path = os.path.join(td, "in.star")
            rows = [[data[c][i] if isinstance(data[c], list) else float(data[c][i]) for c in cols] for i in range(n)]
            with_optics = case["optics"] and ver >= 31
            write_relion_star(path, ver, cols, rows, optics_px=(px if with_optics else None), style=case.get("style", 0))
            arg_px = None if (use_col or with_optics) else px
            _attempt(out, "F", lambda: _motl_obs(cryomotl.RelionMotl(path, pixel_size=arg_px)))
    return out


# ------------------------------------------------------------------ driver requests
def _ok(o):
    return isinstance(o, dict) and "error" not in o


def _export_req(case, ex):
    return dict(op="export", ver=case["ver"], tomo_fmt=case["tomo_fmt"], sub_fmt=case["sub_fmt"], parts=case["parts"], ids=case["ids"],
                out=[r["ang"] for r in ex["rows"]])


def _import_req(ver, rows9, px_bits, tn, sn, halfsets, out_ang):
    q = dict(op="import", ver=ver, rows=rows9, px=[px_bits] * len(rows9), tomo_names=tn, sub_names=sn, out=out_ang)
    if halfsets is not None:
        q["halfsets"] = halfsets
    return q


def _plan(case, obs):
    """[(tag, request)] - the same list is rebuilt by judge to pair responses"""
    plan = []
    if "error" in obs:
        return plan
    if case["kind"] == "cc":
        n = len(case["parts"])
        for tag in ("A", "B"):
            if _ok(obs.get(tag)) and len(obs[tag]["rows"]) == n:
                plan.append((tag, _export_req(case, obs[tag])))
        for tag, src in (("C", "A"), ("D", "B")):
            if _ok(obs.get(tag)) and _ok(obs.get(src)) and len(obs[tag]["rows"]) == len(obs[src]["rows"]) == n:
                ex = obs[src]["rows"]
                if any(r["tomo"] is None or r["sub"] is None or None in r["origin"] for r in ex):
                    continue
                hs = [r["halfset"] for r in ex]
                plan.append((tag, _import_req(case["ver"], [r["coord"] + r["origin"] + r["ang"] for r in ex], case["px"], [r["tomo"] for r in ex],
                                              [r["sub"] for r in ex], hs if all(isinstance(h, int) for h in hs) else None, [r["ang"] for r in obs[tag]["rows"]])))
    else:
        n = len(case["rows"])
        for tag in ("M", "F"):
            if _ok(obs.get(tag)) and len(obs[tag]["rows"]) == n:
                plan.append((tag, _import_req(case["ver"], case["rows"], case["px"], case["tomo_names"], case["sub_names"], case["halfsets"],
                                              [r["ang"] for r in obs[tag]["rows"]])))
    return plan


def requests(case, obs):
    return [q for _, q in _plan(case, obs)]


# ------------------------------------------------------------------ judge
I3 = np.eye(3)
STATS = {}


def _first_numbers(name):
    return [int(s) for s in re.findall(r"\d+", str(name).rsplit("/", 1)[-1])]


def _name_number(name, fmt, ver, which):
    """the number a documented name carries (None when it cannot be read)"""
    try:
        if fmt == "":
            return int(name)
        nums = _first_numbers(name)
        if which == "tomo":
            return nums[0]
        return int(str(name).rsplit("/", 1)[-1]) if ver >= 40 else nums[1]
    except Exception:
        return None


def _halfset(sub):
    return 1 if sub % 2 == 1 else 2


def _close(a_bits, b, tol):
    a = b2f(a_bits)
    return a == b if tol == 0 else abs(a - b) <= tol


def _judge_export(tag, case, ex, resp, out, dev):
    ver = case["ver"]
    mem = tag == "A"
    rtol, ptol = (TOL_MEM, 0) if mem else (TOL_FILE, POS_TOL_FILE)
    tname, sname, onames, spec = DOC_NAMES[ver]
    S = lambda clause, detail: out.append(dict(kind="spec", clause=clause, detail=f"[{tag}] {detail}"))
    C = lambda clause, detail: out.append(dict(kind="corr", clause=clause, detail=f"[{tag}] {detail}"))
    missing = [c for c in ["rlnCoordinateX", "rlnCoordinateY", "rlnCoordinateZ", "rlnAngleRot", "rlnAngleTilt", "rlnAnglePsi", tname, sname, "rlnClassNumber", "rlnRandomSubset"] + onames
               if c not in ex["cols"]]
    if missing:
        S("export-columns", f"version {ver/10}: columns {missing} missing from {ex['cols']}")
        return
    if ex["spec"] != spec:
        S("export-data-spec", f"version {ver/10}: block {ex['spec']!r}, RELION expects {spec!r}")
    if not mem:
        want = (["data_optics"] if case["optics"] else []) + [spec]
        if ex.get("specs") != want:
            S("export-blocks", f"file holds blocks {ex.get('specs')}, expected {want}")
        if case["optics"] and not ("optics_px" in ex and abs(b2f(ex["optics_px"]) - b2f(case["px"])) <= 1e-6):
            S("export-optics-pixel-size", f"optics block pixel size {b2f(ex['optics_px']) if 'optics_px' in ex else None} != {b2f(case['px'])}")
    n = len(case["parts"])
    if len(ex["rows"]) != n:
        S("export-row-count", f"{len(ex['rows'])} rows for {n} particles"); return
    mrows = resp["rows"] if resp and "rows" in resp else None
    if resp is not None and mrows is None:
        C("model-rejects", str(resp)[:200])
    if mrows is not None and resp.get("names") != dict(tomo=tname, sub=sname, shifts=onames, spec=spec):
        C("version-names", f"model names {resp.get('names')}")
    for i in range(n):
        p = [b2f(b) for b in case["parts"][i]]
        tomo, sub, cls = case["ids"][i]
        r = ex["rows"][i]
        for k, ax in enumerate("XYZ"):
            want = p[k] + p[3 + k]
            if not _close(r["coord"][k], want, ptol):
                S("export-coordinate", f"particle {i}: rlnCoordinate{ax}={b2f(r['coord'][k])!r}, complete position {p[k]!r}+{p[3+k]!r}={want!r}"); break
        if any(b2f(o) != 0.0 for o in r["origin"]):
            S("export-origin-zero", f"particle {i}: origin {[b2f(o) for o in r['origin']]}")
        a = [b2f(b) for b in r["ang"]]
        E, Pm = mat_relion(*a), mat_particle(p[6], p[7], p[8])
        d = max(_dev(E @ Pm, I3), _dev(Pm @ E, I3))
        dev["export_inverse_" + ("mem" if mem else "file")] = max(dev.get("export_inverse_" + ("mem" if mem else "file"), 0.0), d)
        if not d <= rtol:
            S("export-rotation-inverse", f"particle {i}: (phi,theta,psi)={p[6:9]} exported (rot,tilt,psi)={a}: |ZYZ(out)*zxz(in)-1|={d:.3g} > {rtol}")
        if _name_number(r["tomo"], case["tomo_fmt"], ver, "tomo") != tomo:
            S("export-tomo-number", f"particle {i}: tomogram {tomo} exported as {r['tomo']!r} (format {case['tomo_fmt']!r})")
        if _name_number(r["sub"], case["sub_fmt"], ver, "sub") != sub:
            S("export-subtomo-number", f"particle {i}: subtomogram {sub} exported as {r['sub']!r} (format {case['sub_fmt']!r})")
        if case["sub_fmt"] and ver < 40 and _name_number(r["sub"], case["sub_fmt"], ver, "tomo") != tomo:
            S("export-tomo-number", f"particle {i}: tomogram {tomo} in subtomogram name {r['sub']!r}")
        if r["halfset"] != _halfset(sub):
            S("export-halfset", f"particle {i}: subtomo_id {sub} exported with rlnRandomSubset {r['halfset']}")
        if r["cls"] != cls:
            S("export-class", f"particle {i}: class {cls} exported as {r['cls']}")
        if ver < 40 and r.get("pixel") is not None and abs(b2f(r["pixel"]) - b2f(case["px"])) > 1e-6:
            S("export-pixel-size", f"particle {i}: rlnPixelSize {b2f(r['pixel'])} != {b2f(case['px'])}")
        if mrows is None:
            continue
        m = mrows[i]
        if any(not _close(r["coord"][k], b2f(m["coord"][k]), ptol) for k in range(3)) or any(b2f(m["origin"][k]) != b2f(r["origin"][k]) for k in range(3)):
            C("export-position-vs-model", f"particle {i}: impl {[b2f(b) for b in r['coord']]} model {[b2f(b) for b in m['coord']]}")
        d1, d2, d3 = _dev(_m(m["expect"]), Pm.T), _dev(_m(m["rel"]), E), _dev(_m(m["post"]), _m(m["fed"]))
        dev["model_vs_numpy"] = max(dev.get("model_vs_numpy", 0.0), d1, d2)
        dev["scipy_post"] = max(dev.get("scipy_post", 0.0), d3)
        if d1 > TOL_MODEL or d2 > TOL_MODEL:
            C("export-matrix-vs-model", f"particle {i}: model/harness matrices differ by {max(d1, d2):.3g}")
        if d3 > (TOL_POST if mem else TOL_FILE):
            C("scipy-postcondition", f"particle {i}: as_euler answer does not reproduce the matrix handed to scipy (|diff|={d3:.3g})")
        if _dev(_m(m["rel"]), _m(m["expect"])) > rtol and d <= rtol:
            C("export-rotation-vs-model", f"particle {i}: model predicts a different rotation")
        if m["tomo_name"] != r["tomo"] or m["sub_name"] != r["sub"]:
            C("export-names-vs-model", f"particle {i}: impl ({r['tomo']!r},{r['sub']!r}) model ({m['tomo_name']!r},{m['sub_name']!r})")
        if m["halfset"] != r["halfset"] or m["cls"] != r["cls"]:
            C("export-ids-vs-model", f"particle {i}: impl halfset/class {r['halfset']}/{r['cls']} model {m['halfset']}/{m['cls']}")


def _judge_import(tag, case, im, resp, truth, out, dev):
    """truth: dict(pos=[[3]], xyz=[[3]]|None, shift=[[3]]|None, rot=[3x3], relin=[3x3]|None, tomo, geom3, cls, halfsets|None, ptol, rtol)"""
    S = lambda clause, detail: out.append(dict(kind="spec", clause=clause, detail=f"[{tag}] {detail}"))
    C = lambda clause, detail: out.append(dict(kind="corr", clause=clause, detail=f"[{tag}] {detail}"))
    n = len(truth["pos"])
    rows = im["rows"]
    if len(rows) != n:
        S("import-row-count", f"{len(rows)} particles for {n} rows"); return
    ptol, rtol = truth["ptol"], truth["rtol"]
    mrows = resp["rows"] if resp and "rows" in resp else None
    if resp is not None and mrows is None:
        C("model-rejects", str(resp)[:200])
    if truth.get("version") is not None and im.get("version") != truth["version"]:
        S("import-version-detected", f"file of RELION {truth['version']/10} read as version {im.get('version')}")
    subs = [r["sub"] for r in rows]
    if len(set(map(str, subs))) != n:
        S("import-subtomo-unique", f"subtomo_id not unique after import: {subs[:12]}")
    for i in range(n):
        r = rows[i]
        xyz, sh, a = [b2f(b) for b in r["xyz"]], [b2f(b) for b in r["shift"]], [b2f(b) for b in r["ang"]]
        pos = [xyz[k] + sh[k] for k in range(3)]
        if any(not (abs(pos[k] - truth["pos"][i][k]) <= ptol) for k in range(3)):
            S("import-position", f"particle {i}: position after import {pos}, expected {truth['pos'][i]}")
        if truth["xyz"] is not None:
            if any(not (abs(xyz[k] - truth["xyz"][i][k]) <= ptol) for k in range(3)):
                S("import-xyz", f"particle {i}: x,y,z {xyz} != rlnCoordinate {truth['xyz'][i]}")
            if any(not (abs(sh[k] - truth["shift"][i][k]) <= ptol) for k in range(3)):
                S("import-shift", f"particle {i}: shift {sh}, expected -origin{'/pixel' if case['ver'] >= 31 else ''} = {truth['shift'][i]}")
        Pm = mat_particle(*a)
        if truth["relin"] is not None:
            E = truth["relin"][i]
            d = max(_dev(Pm @ E, I3), _dev(E @ Pm, I3))
            key = "import_inverse"
        else:
            d = _dev(Pm, truth["rot"][i])
            key = "roundtrip_rotation_" + ("mem" if rtol == TOL_MEM else "file")
        dev[key] = max(dev.get(key, 0.0), d)
        if not d <= rtol:
            S("import-rotation-inverse" if truth["relin"] is not None else "roundtrip-orientation",
              f"particle {i}: imported (phi,theta,psi)={a}: deviation {d:.3g} > {rtol}")
        if r["tomo"] != truth["tomo"][i]:
            S("import-tomo-number", f"particle {i}: tomo_id {r['tomo']} expected {truth['tomo'][i]}")
        if r["geom3"] != truth["geom3"][i]:
            S("import-subtomo-number-geom3", f"particle {i}: geom3 {r['geom3']} expected subtomogram number {truth['geom3'][i]}")
        if r["cls"] != truth["cls"][i]:
            S("import-class", f"particle {i}: class {r['cls']} expected {truth['cls'][i]}")
        if truth["halfsets"] is not None and isinstance(r["sub"], int) and _halfset(r["sub"]) != truth["halfsets"][i]:
            S("halfset-parity-import", f"particle {i}: rlnRandomSubset {truth['halfsets'][i]} but subtomo_id {r['sub']} after import (geom3 {r['geom3']})")
        if mrows is None:
            continue
        m = mrows[i]
        mt = 0 if ptol == 0 else 1e-9
        if any(not _close(m["xyz"][k], xyz[k], mt) for k in range(3)) or any(not _close(m["shift"][k], sh[k], mt) for k in range(3)):
            if not (truth["xyz"] is None and ptol > 0):  # file round trips: model ran on the file's cells, same tolerance applies
                C("import-position-vs-model", f"particle {i}: impl xyz {xyz} shift {sh}; model {[b2f(b) for b in m['xyz']]} {[b2f(b) for b in m['shift']]}")
        d2, d3 = _dev(_m(m["rot"]), Pm), _dev(_m(m["post"]), _m(m["fed"]))
        dev["model_vs_numpy"] = max(dev.get("model_vs_numpy", 0.0), d2)
        dev["scipy_post"] = max(dev.get("scipy_post", 0.0), d3)
        if d2 > TOL_MODEL:
            C("import-matrix-vs-model", f"particle {i}: model/harness matrices differ by {d2:.3g}")
        if d3 > TOL_POST:
            C("scipy-postcondition", f"particle {i}: as_euler answer does not reproduce the matrix handed to scipy (|diff|={d3:.3g})")
        if _dev(_m(m["rot"]), _m(m["expect"])) > rtol and d <= rtol:
            C("import-rotation-vs-model", f"particle {i}: model predicts a different rotation")
    if mrows is not None:
        if resp["tomo"] != [r["tomo"] for r in rows]:
            C("import-tomo-vs-model", f"impl {[r['tomo'] for r in rows][:10]} model {resp['tomo'][:10]}")
        if resp["geom3"] != [r["geom3"] for r in rows]:
            C("import-geom3-vs-model", f"impl {[r['geom3'] for r in rows][:10]} model {resp['geom3'][:10]}")
        if resp["subtomo"] != subs:
            C("import-subtomo-vs-model", f"impl {subs[:10]} model {(resp['subtomo'] or [])[:10]}")


def judge(case, obs, resps):
    out, dev = [], {}
    if "error" in obs:
        return [dict(kind="spec", clause="raises", detail=obs["error"] + " @" + obs.get("where", ""))]
    plan = _plan(case, obs)
    rmap = {tag: resps[k] for k, (tag, _) in enumerate(plan)} if len(resps) == len(plan) else {}
    ver, px = case["ver"], b2f(case["px"])
    tags = ("A", "B", "C", "D", "E") if case["kind"] == "cc" else ("M", "F")
    for tag in tags:
        o = obs.get(tag)
        if o is None:
            continue
        if not _ok(o):
            out.append(dict(kind="spec", clause="raises:" + tag, detail=f"[{tag}] {o['error']} @{o.get('where', '')}"))
    if case["kind"] == "cc":
        P = [[b2f(b) for b in p] for p in case["parts"]]
        for tag in ("A", "B"):
            if _ok(obs.get(tag)):
                _judge_export(tag, case, obs[tag], rmap.get(tag), out, dev)
        hs = [_halfset(t[1]) for t in case["ids"]]
        base = dict(pos=[[p[k] + p[3 + k] for k in range(3)] for p in P], xyz=None, shift=None, rot=[mat_particle(p[6], p[7], p[8]) for p in P], relin=None,
                    tomo=[t[0] for t in case["ids"]], geom3=[t[1] for t in case["ids"]], cls=[t[2] for t in case["ids"]], halfsets=hs)
        for tag, ptol, rtol in (("C", 0, TOL_MEM), ("D", POS_TOL_FILE, TOL_FILE), ("E", POS_TOL_FILE, TOL_FILE)):
            if _ok(obs.get(tag)):
                _judge_import(tag, case, obs[tag], rmap.get(tag), dict(base, ptol=ptol, rtol=rtol, version=(ver if tag == "D" else None)), out, dev)
    else:
        R = [[b2f(b) for b in r] for r in case["rows"]]
        ang = ver >= 31
        shift = [[((-r[3 + k]) / px if ang else -r[3 + k]) for k in range(3)] for r in R]
        truth = dict(pos=[[r[k] + s[k] for k in range(3)] for r, s in zip(R, shift)], xyz=[r[:3] for r in R], shift=shift, rot=None,
                     relin=[mat_relion(r[6], r[7], r[8]) for r in R], tomo=case["tomo_ids"], geom3=case["sub_ids"], cls=case["cls"], halfsets=case["halfsets"])
        for tag, ptol in (("M", 0), ("F", 1e-9)):
            if _ok(obs.get(tag)):
                _judge_import(tag, case, obs[tag], rmap.get(tag), dict(truth, ptol=ptol, rtol=1e-8, version=(ver if tag == "F" else None)), out, dev)
    STATS[id(case)] = dev
    # de-duplicate by clause, keep the first detail
    seen, uniq = set(), []
    for f in out:
        if (f["kind"], f["clause"]) not in seen:
            seen.add((f["kind"], f["clause"])); uniq.append(f)
    return uniq


def nontrivial(case, obs):
    if "error" in obs:
        return False
    rows = case["parts"] if case["kind"] == "cc" else case["rows"]
    if len(rows) < 2:
        return False
    vals = [[b2f(b) for b in r] for r in rows]
    moved = any(any(v != 0.0 for v in r[3:6]) for r in vals)
    tilt = any((r[7] % 180.0) != 0.0 for r in vals)
    padded = bool(case.get("tomo_fmt") or case.get("sub_fmt")) if case["kind"] == "cc" else True
    return moved and tilt and padded


def stats(case, obs, resps):
    rows = case["parts"] if case["kind"] == "cc" else case["rows"]
    n = len(rows)
    d = {"kind": case["kind"], "version": case["ver"] / 10, "N": "1" if n == 1 else ("2-25" if n <= 25 else ("26-80" if n <= 80 else "81-300")),
         "angles": case.get("angles", "?"), "optics": str(case.get("optics")),
         "paths_ok": [t for t in ("A", "B", "C", "D", "E", "M", "F") if _ok(obs.get(t))] if "error" not in obs else [],
         "gimbal_particles": "yes" if any((b2f(r[7]) % 180.0) == 0.0 for r in rows) else "no"}
    if case["kind"] == "cc":
        d["formats"] = ("tomo:" + ("plain" if not case["tomo_fmt"] else "fmt")) + " sub:" + ("plain" if not case["sub_fmt"] else "fmt")
        subs = [t[1] for t in case["ids"]]
        d["halfsets"] = "both" if len(set(s % 2 for s in subs)) == 2 else "single"
        d["sub_ids"] = "unique" if len(set(subs)) == n else "repeated"
    else:
        d["halfsets"] = "none" if case["halfsets"] is None else ("both" if len(set(case["halfsets"])) == 2 else "single")
        d["pixel_source"] = "optics" if (case["optics"] and case["ver"] >= 31) else case["pxsrc"]
        d["sub_ids"] = "unique" if len(set(case["sub_ids"])) == n else "repeated"
    try:
        if id(case) not in STATS:
            judge(case, obs, resps)
        for k, v in STATS.get(id(case), {}).items():
            d["maxdev:" + k] = "<=1e-12" if v <= 1e-12 else ("<=1e-9" if v <= 1e-9 else ("<=1e-6" if v <= 1e-6 else ("<=2e-5" if v <= 2e-5 else ">2e-5")))
    except Exception:
        pass
    return d


def sample_view(case):
    rows = case["parts"] if case["kind"] == "cc" else case["rows"]
    v = {k: case[k] for k in case if k not in ("parts", "rows", "ids", "tomo_names", "sub_names", "tomo_ids", "sub_ids", "cls", "halfsets")}
    v["px"] = b2f(case["px"]); v["n"] = len(rows); v["first_row"] = [b2f(b) for b in rows[0]]
    if case["kind"] == "cc":
        v["first_ids"] = case["ids"][0]
    else:
        v["first_names"] = [case["tomo_names"][0], case["sub_names"][0]]; v["halfsets"] = (case["halfsets"] or [None])[:6]
    return v


def probes(rng):
    """library assumptions behind the theorems' hypotheses, probed directly"""
    from scipy.spatial.transform import Rotation as rot
    out = []
    worst = {"zxz=Rz(psi)Rx(theta)Rz(phi)": 0.0, "ZXZ=Rz(a)Rx(b)Rz(c)": 0.0, "ZYZ=Rz(a)Ry(b)Rz(c)": 0.0, "as_euler(ZYZ) post-condition": 0.0, "as_euler(zxz) post-condition": 0.0}
    import warnings
    with warnings.catch_warnings():
        warnings.simplefilter("ignore")
        for k in range(300):
            a = _angles(rng, ANGLE_CLASSES[k % len(ANGLE_CLASSES)])
            worst["zxz=Rz(psi)Rx(theta)Rz(phi)"] = max(worst["zxz=Rz(psi)Rx(theta)Rz(phi)"], _dev(rot.from_euler("zxz", a, degrees=True).as_matrix(), mat_particle(*a)))
            worst["ZXZ=Rz(a)Rx(b)Rz(c)"] = max(worst["ZXZ=Rz(a)Rx(b)Rz(c)"], _dev(rot.from_euler("ZXZ", a, degrees=True).as_matrix(), Rz(a[0]) @ Rx(a[1]) @ Rz(a[2])))
            worst["ZYZ=Rz(a)Ry(b)Rz(c)"] = max(worst["ZYZ=Rz(a)Ry(b)Rz(c)"], _dev(rot.from_euler("ZYZ", a, degrees=True).as_matrix(), mat_relion(*a)))
            r = rot.from_euler("ZXZ", a, degrees=True)
            e = r.as_euler("ZYZ", degrees=True)
            worst["as_euler(ZYZ) post-condition"] = max(worst["as_euler(ZYZ) post-condition"], _dev(mat_relion(*e), r.as_matrix()))
            r = rot.from_euler("ZYZ", a, degrees=True)
            e = r.as_euler("zxz", degrees=True)
            worst["as_euler(zxz) post-condition"] = max(worst["as_euler(zxz) post-condition"], _dev(mat_particle(*e), r.as_matrix()))
    for k, v in worst.items():
        out.append(dict(name="scipy " + k, ok=v <= 1e-9, detail=f"max deviation {v:.3g} over 300 orientations incl. gimbal lock"))
    return out


LEVEL_TEXT = ("Lean 4 theorems about an executable model of RelionMotl's conversion (export_is_transpose/export_is_inverse, import_is_transpose/import_is_inverse, "
              "export_import_orientation, export_import_pose, export_coord, import_shift_pixels/import_shift_angstrom, version_names, halfset_parity, renumber_spec, "
              "renumber_halfset, import_ids_halfset, zfill_parse, names_parse_v3/v4, names_generated_v3/v4) for all orientations incl. gimbal lock, all positions/shifts/pixel sizes, all id lists; tied to the source by 15 "
              "regenerated anchors (Euler sequences, slot/sign pattern, shift sign and scaling, version dispatch, half-set table, column lists) and by a differential run of the "
              "real export/import (in memory, through files, through the converters) against the model and an independent statement of the convention")
LEVEL_NOTE = ("scipy's as_euler enters the theorems only through its post-condition (a hypothesis, checked numerically for every generated particle and probed); file "
              "round trips are validated within 6-decimal STAR precision, not proved; the $-format substitution is proved to carry the numbers for the documented "
              "format shapes (one $x.. and one $y.. sequence); other formats (repeated / leftover sequences) are compared string for string with the model only")
TECHNIQUE = "Lean 4 proof (matrix identities over any commutative ring, field arithmetic, list induction) + regenerated tables/operators + differential correspondence"
DESIGN_REF = "DESIGN.md section 4, C03; Appendix A.4"
