"""C09 — spatial filters keep exactly the particles that lie inside (DESIGN.md section 4, C09).

Four functions of cryocat/cryomotl.py are exercised through the public API and compared with the Lean
model `CryoCat.C09` (oob / trim / cleanPoints / cleanMask) executed by the driver at `Rat`:
remove_out_of_bounds_particles, adapt_to_trimming, clean_by_distance_to_points, clean_by_tomo_mask.
All numbers are dyadic (multiples of 1/1024, small magnitude), so numpy's float arithmetic is exact
and every comparison is decided exactly on both sides.
"""
import os, io, ast, re, copy, math, contextlib, tempfile
from collections import Counter
from fractions import Fraction
import core

PROP = "C09"
COUNT = {"quick": 400, "thorough": 8000, "search": 3000}
PARALLEL = True
SCALE = 1024
COLS = ["score", "geom1", "geom2", "subtomo_id", "tomo_id", "object_id", "subtomo_mean", "x", "y", "z",
        "shift_x", "shift_y", "shift_z", "geom3", "geom4", "geom5", "phi", "psi", "theta", "class"]
I_ID, I_TOMO, I_X, I_SX = 3, 4, 7, 10
RULE = ("one case = one call of one filter on a particle list of 1..60 rows (thorough: up to 400) over 1..4 tomograms (numbers from a pool that contains 0); ~15 % of the cases are a "
        "HISTORY of 2..3 calls in one process that re-use the same caller-owned arguments (the same dims array/table/file, trim-box arrays, points table, "
        "mask arrays or mask FILES, tomogram list), some legitimately edited in place / rewritten between the calls; every call is judged on its own and the "
        "caller-owned arguments are compared before/after each call. ~30 % of the calls omit the keywords whose value is the documented default "
        "(boundary_type='center', inplace=True). The particle table itself: float64 (88 %) or an all-integer int64 frame (12 %, every field a whole number); "
        "row labels 0..n-1 (80 %) or with gaps / shuffled / duplicated labels (20 %). subtomo ids: unique, restarting in every tomogram (same id in several tomograms), "
        "or repeated at random (mask: also repeated inside a tomogram - on rows sharing their voxel and, 1 case in 6, on arbitrary rows = class of finding C09-K2); "
        "15 % of the oob / trim / points lists contain rows twice VERBATIM or re-picked (same id, tomogram, position; other scores/angles); "
        "25 % of the cases use date-style / serial tomogram numbers 1e6..1e9, neighbours included, odd numbers above 2^24 included (also in the tomogram FILE). "
        "oob: per-tomogram dimensions (different per tomogram, unsorted, extra/duplicate/missing rows; 8..128 voxels, realistic extents up to 4096 and, for large boxes, "
        "volumes around twice the half box; 4 % with a half-voxel extent) handed over as float ndarray / int ndarray / labelled DataFrame / UNLABELLED DataFrame / text file / "
        "nested list / nested tuple / flat list / flat tuple / 1-D array, boundary 'center'/'whole' with box 1..64 incl. every residue mod 4 and realistic boxes 65..260 (96, 97, 128, 129, 200, 201, 256 ...) "
        "(plus refused calls: unknown type, box missing/0), every axis of every particle drawn from {deep inside, exactly on the lower face, "
        "just below it (1, 1/2, 1/1024), negative, 0, just below / exactly on / just beyond the upper face, far beyond}, non-zero shifts; "
        "trim: integer trim boxes (list / tuple / ndarray, int or float dtype), x,y,z on / next to both faces, shifts that must be ignored; "
        "points: 0..8 (sometimes 9..40) reference points in own/foreign tomograms, radii >= 0 incl. 0 and exact ties (3-4-5 triples on integer and 1/4 grids); "
        "mask: per-tomogram masks of different small shapes (30 %: three DISTINCT axis lengths; some with an axis up to 24) or one shared mask, handed over as ndarrays (80 %) "
        "or as MRC FILE PATHS written with mrcfile alone (20 %), binary or with values around the binarisation threshold 0.5; the tomogram list handed over as "
        "list / float or int ndarray / tuple / single int / text FILE with one number per line in the order of the list (mostly UNSORTED); "
        "listed/unlisted/foreign tomograms, positions with fractional parts in (-1,0), on 0, on shape-1/4, on shape, beyond. "
        "CONVENTION (theorem voxel_truncation_convention): the voxel of a particle is its complete position TRUNCATED toward zero (astype(int)), so "
        "positions in (-1,0) count as voxel 0 = inside the mask volume. "
        "The reference-point filter returns its survivors grouped by tomogram: the statement fixes them up to a permutation (cleanPoints_perm_stmt); compared are "
        "the survivors TOMOGRAM BY TOMOGRAM, in order (cleanPoints_tomogram_order_stmt) - the order of the groups is not demanded. "
        "non-trivial = the expected result both keeps and removes a particle and the case contains a particle on or next to a face "
        "(oob/trim/mask) resp. a tie or a foreign-tomogram point (points); distinct = distinct (op, inputs) content")
ASSUMPTIONS = [
    "numpy float64 +,-,*,<,<= on dyadic inputs of magnitude < 2^13 with 10 fractional bits are exact = Rat arithmetic of the model (all outputs compared exactly; "
    "squares of differences stay below 2^47)",
    "scipy.spatial.KDTree.query_ball_point(p, r) = brute-force closed ball {q : |q-p|^2 <= r^2} (probed every run against brute force incl. exact ties); for r < 0 scipy "
    "uses |r| like the model's r*r (inBall_neg; probed) - a negative radius is outside the quantifier ('radii') and never generated",
    "numpy astype(int) of a float = truncation toward zero (probed)",
    "pandas: boolean-mask selection and iloc keep row order; Series.unique() lists values in order of first appearance; concat keeps order",
    "NO assumption on subtomo ids: ids repeated across tomograms and INSIDE a tomogram are generated. clean_by_tomo_mask removes by (tomo_id, subtomo_id), so it "
    "computes the statement exactly on the lists where two rows of one tomogram sharing an id share their voxel status (cleanMask_spec_iff); on the other lists it "
    "removes too much - open finding C09-K2 (witness cleanMask_needs_unique_ids_within_tomogram), classified by _k2_rows; there the implementation must still equal "
    "the model of the code (`code`)",
    "the dimensions table has the N x 4 form (tomo_id x y z) of the statement's 'dimensions of the particle's own tomogram'; the 1 x 3 single-tomogram form "
    "accepted by ioutils.dimensions_load makes remove_out_of_bounds_particles raise KeyError('tomo_id') and is outside the quantifier (reported)",
    "'the box of the given size around it lies inside' is read with the CODE'S convention: half width ceil(box/2) voxels on both sides (for an odd box one half voxel more "
    "than box/2), lower faces closed (0 <= c - b), upper faces open (c + b < dim). The prose of the statement does not fix the parity/face convention; oob_spec / "
    "boundary_spec state it, and a change of it in the source breaks oob_upper_documented",
    "the particle list has at least one row: the quantifier ranges over lists x 1..4 tomograms, and a list without rows has no tomogram. (Observed, not judged: on an EMPTY "
    "list clean_by_distance_to_points raises ValueError because Motl(pd.DataFrame()) refuses a frame without columns; the other three filters return the empty list.)",
    "ioutils.dimensions_load names the columns of an UNLABELLED N x 4 DataFrame in place (tests/test_ioutils.py documents this as today's behaviour and asks whether it is "
    "intended); this relabelling of the caller's frame is tolerated and counted in the evidence ('dims frame relabelled in place'); any other change of a caller-owned "
    "argument (content, dtype, index, other labels) is a spec finding",
    "tomo_masks is a list of 3-D masks (arrays or paths) or ONE 3-D mask (array or path), as the docstring says; a tuple of masks (refused: ValueError from cryomap.read) and "
    "a stacked 4-D array (silently treated as one mask whose first three axes are used: every listed particle inside is removed) are outside the documented forms (reported)",
    "MRC files: data[z, y, x] (x fastest) is voxel (x, y, z) - the harness writes mask files with mrcfile alone, never with cryomap.write",
    "filler fields (scores, angles, classes) are dyadic like the positions; decimal values such as 12.37 are not generated (the filters never compute with them; "
    "'survivor unaltered' compares all 20 fields of every survivor exactly)",
]
TRUSTED = ["harness/props/c09.py Python oracle used only to cross-check the Lean verdict and to classify finding C09-K1"]


# =============================================================================== translator
REL = "cryocat/cryomotl.py"
CMP = {ast.Lt: "lt", ast.LtE: "le", ast.Gt: "gt", ast.GtE: "ge", ast.Eq: "eq", ast.NotEq: "ne"}
VN = r"(v\d+)"


def _cmp(node):
    if not (isinstance(node, ast.Compare) and len(node.ops) == 1 and type(node.ops[0]) in CMP):
        raise core.AnchorMissing("not a simple comparison: " + ast.unparse(node)[:80])
    return CMP[type(node.ops[0])]


def _num(node):
    if isinstance(node, ast.Constant) and isinstance(node.value, (int, float)) and not isinstance(node.value, bool):
        return node.value
    raise core.AnchorMissing("not a number: " + ast.unparse(node)[:60])


def _same(xs, what):
    if len(set(xs)) != 1:
        raise core.AnchorMissing(f"{what}: axes use different operators/constants {xs}")
    return xs[0]


def _params(fn):
    a = fn.args
    names = [x.arg for x in a.posonlyargs + a.args + a.kwonlyargs]
    for x in (a.vararg, a.kwarg):
        if x is not None:
            names.append(x.arg)
    return names


LOG_CALLS = {"print", "warnings.warn", "warn", "logging.info", "logging.warning", "logging.debug", "logger.info", "logger.warning", "logger.debug"}


def _is_text(node):
    """a message: string constant, f-string, or a concatenation / %-format / .format() of such"""
    if isinstance(node, ast.Constant) and isinstance(node.value, str):
        return True
    if isinstance(node, ast.JoinedStr):
        return True
    if isinstance(node, ast.BinOp) and isinstance(node.op, (ast.Add, ast.Mod)):
        return _is_text(node.left)
    if isinstance(node, ast.Call) and isinstance(node.func, ast.Attribute) and node.func.attr == "format":
        return _is_text(node.func.value)
    return False


class _Normalise(ast.NodeTransformer):
    """H1: nothing of the dump depends on type annotations or on the wording of exception / log messages.
    `x: T = v` -> `x = v`; a bare `x: T` disappears; annotations of parameters and of the return value are dropped;
    `raise E(<message ...>)` -> `raise E(MSG)` (the exception TYPE stays); `print(...)` / `warnings.warn(...)` / logger calls -> `LOG()`;
    `(X).all(axis=k)` / `(X).any(axis=k)` -> `np.all(X, axis=k)` / `np.any(X, axis=k)` (the two spellings of the same reduction)."""

    def visit_arg(self, node):
        node.annotation = None
        return node

    def visit_FunctionDef(self, node):
        node.returns = None
        self.generic_visit(node)
        return node

    def visit_AnnAssign(self, node):
        self.generic_visit(node)
        if node.value is None:
            return None
        return ast.copy_location(ast.Assign(targets=[node.target], value=node.value), node)

    def visit_Raise(self, node):
        self.generic_visit(node)
        exc = node.exc
        if isinstance(exc, ast.Call) and exc.args and any(_is_text(a) for a in exc.args):
            exc.args = [ast.Name(id="MSG", ctx=ast.Load())]
            exc.keywords = []
        return node

    def visit_Expr(self, node):
        self.generic_visit(node)
        v = node.value
        if isinstance(v, ast.Call) and ast.unparse(v.func).replace(" ", "") in LOG_CALLS:
            return ast.copy_location(ast.Expr(value=ast.Call(func=ast.Name(id="LOG", ctx=ast.Load()), args=[], keywords=[])), node)
        return node

    NEG = {ast.Lt: ast.GtE, ast.GtE: ast.Lt, ast.Gt: ast.LtE, ast.LtE: ast.Gt, ast.Eq: ast.NotEq, ast.NotEq: ast.Eq}

    def visit_UnaryOp(self, node):
        """`not (a OP b)` on one scalar comparison -> `a <negated OP> b` (equivalent for every number; NaN coordinates are outside the quantifier)"""
        self.generic_visit(node)
        v = node.operand
        if isinstance(node.op, ast.Not) and isinstance(v, ast.Compare) and len(v.ops) == 1 and type(v.ops[0]) in self.NEG:
            return ast.copy_location(ast.Compare(left=v.left, ops=[self.NEG[type(v.ops[0])]()], comparators=v.comparators), node)
        return node

    def visit_Call(self, node):
        self.generic_visit(node)
        f = node.func
        if isinstance(f, ast.Attribute) and f.attr in ("all", "any") and not node.args and not (isinstance(f.value, ast.Name) and f.value.id in ("np", "numpy")) \
                and all(k.arg == "axis" for k in node.keywords):
            return ast.copy_location(ast.Call(func=ast.Attribute(value=ast.Name(id="np", ctx=ast.Load()), attr=f.attr, ctx=ast.Load()),
                                              args=[f.value], keywords=node.keywords), node)
        return node


def _canon(fn):
    """a copy of the function without its docstring, normalised by `_Normalise`, in which every LOCAL variable (any name bound
    inside the body: assignment, loop, comprehension, with/except target; parameters keep their names - they are API) is renamed
    to v1, v2, ... in the order of its first BINDING occurrence (source position of the binding), so two sources that differ only
    in the spelling of locals give the same tree. A local that is never read - `_` or any other spelling of a discard - prints as
    `_` and takes no number: every discard is separate from every other one and renaming a used name to/from a discard elsewhere
    cannot shift the numbering (H2). The reverse map is kept in `fn._orig` so that messages can quote the ORIGINAL identifiers."""
    fn = copy.deepcopy(fn)
    if fn.body and isinstance(fn.body[0], ast.Expr) and isinstance(fn.body[0].value, ast.Constant) and isinstance(fn.body[0].value.value, str):
        fn.body = fn.body[1:] or [ast.Pass()]
    fn = _Normalise().visit(fn)
    ast.fix_missing_locations(fn)
    keep = set(_params(fn))
    for n in ast.walk(fn):
        if isinstance(n, (ast.Global, ast.Nonlocal)):
            keep.update(n.names)
    loaded = {n.id for n in ast.walk(fn) if isinstance(n, ast.Name) and isinstance(n.ctx, (ast.Load, ast.Del))}
    for n in ast.walk(fn):
        if isinstance(n, ast.AugAssign) and isinstance(n.target, ast.Name):
            loaded.add(n.target.id)
    binds = sorted((n.lineno, n.col_offset, n.id) for n in ast.walk(fn)
                   if isinstance(n, ast.Name) and isinstance(n.ctx, ast.Store) and n.id not in keep)
    order = []
    for _, _, name in binds:
        if name not in order and name in loaded and name != "_":
            order.append(name)
    ren = {name: f"v{k + 1}" for k, name in enumerate(order)}
    for _, _, name in binds:
        if name not in ren:
            ren[name] = "_"
    for n in ast.walk(fn):
        if isinstance(n, ast.Name) and n.id in ren:
            n.id = ren[n.id]
    fn._orig = {v: k for k, v in ren.items() if v != "_"}
    return fn


def _orig_text(fn, text):
    """text written in canonical names -> the same with the identifiers the source uses today"""
    m = getattr(fn, "_orig", {})
    return re.sub(r"\bv\d+\b", lambda g: m.get(g.group(0), g.group(0)), text)


def _hole(name, *args):
    return ast.Call(func=ast.Name(id=name, ctx=ast.Load()), args=list(args), keywords=[])


def _hname(name):
    return ast.Name(id=name, ctx=ast.Load())


def _skeleton(fn, repl):
    """normalised dump (signature with defaults + one entry per source line of ast.unparse) of a canonical function in
    which the nodes listed in repl {id(node): replacement} are replaced by named holes"""
    class T(ast.NodeTransformer):
        def visit(self, node):
            if id(node) in repl:
                return repl[id(node)]
            return self.generic_visit(node)
    fn2 = T().visit(copy.copy(fn))
    ast.fix_missing_locations(fn2)
    out = ["def(" + ast.unparse(fn2.args) + ")"]
    for st in fn2.body:
        out += [ln.rstrip() for ln in ast.unparse(st).split("\n")]
    return out


def _defaults(fn):
    a = fn.args
    pos = a.posonlyargs + a.args
    out = []
    for arg, d in zip(pos[len(pos) - len(a.defaults):], a.defaults):
        out.append([arg.arg, ast.unparse(d)])
    for arg, d in zip(a.kwonlyargs, a.kw_defaults):
        if d is not None:
            out.append([arg.arg, ast.unparse(d)])
    return out


def _lean_lines(xs):
    def esc(x):
        return '"' + x.replace("\\", "\\\\").replace('"', '\\"') + '"'
    return "[\n  " + ",\n  ".join(esc(x) for x in xs) + "]"


def _lean_pairs(xs):
    return "[" + ", ".join(f"({core.lean_str(a)}, {core.lean_str(b)})" for a, b in xs) + "]"


DOC_DEFAULTS = {
    "oob": [["boundary_type", "'center'"], ["box_size", "None"]],
    "points": [["feature_id", "'tomo_id'"], ["inplace", "True"], ["output_file", "None"]],
    "mask": [["inplace", "True"], ["output_file", "None"]],
    "binarize": [["threshold", "0.5"]],
    "dimsload": [["tomo_idx", "None"]],
    "tltload": [["sort_angles", "True"]],
    "read": [["transpose", "True"], ["data_type", "None"]],
}
# helper functions the four filters go through: looked up with src.find so that the framework's binding obligations (bound once,
# no re-binding, documented decorators) cover them; their behaviour is exercised by the correspondence run, not dumped
HELPERS = [(REL, "Motl.__init__"), (REL, "Motl.check_df_correct_format"), (REL, "Motl.load"), (REL, "Motl.get_motl_subset"),
           (REL, "Motl.get_unique_values"), (REL, "Motl.create_empty_motl_df"),
           ("cryocat/ioutils.py", "one_value_per_line_read"), ("cryocat/ioutils.py", "tlt_load"), ("cryocat/cryomap.py", "read")]
SKELETON_THEOREMS = {"oob": "oobSkeleton", "trim": "trimSkeleton", "mask": "maskSkeleton", "points": "pointsSkeleton", "coords": "coordsSkeleton",
                     "dimsload": "dimsLoadSkeleton", "binarize": "binarizeSkeleton", "subset": "subsetSkeleton", "uniq": "uniqueValuesSkeleton",
                     "tltload": "tltLoadSkeleton", "ovpl": "oneValuePerLineSkeleton", "read": "readSkeleton", "motlload": "motlLoadSkeleton"}


def _documented_skeletons():
    """the string lists written by hand in Props/C09.lean (`Gen.C09.<x>Skeleton = [ ... ] := rfl`), for DIAGNOSTICS only: the
    obligation itself is the `rfl` the Lean kernel checks; this merely lets the report show WHICH line differs"""
    path = os.path.join(os.path.dirname(os.path.dirname(os.path.dirname(os.path.abspath(__file__)))), "lean", "CryoCat", "Props", "C09.lean")
    try:
        text = open(path).read()
    except OSError:
        return {}
    out = {}
    for key, name in SKELETON_THEOREMS.items():
        m = re.search(r"Gen\.C09\." + name + r" = \[(.*?)\] := rfl", text, re.S)
        if not m:
            continue
        items = re.findall(r'"((?:[^"\\]|\\.)*)"', m.group(1))
        out[key] = [re.sub(r"\\(.)", r"\1", it) for it in items]
    return out


def _doc_compare(src, sk):
    """first-hand diagnostic of a changed body: one (failing) anchor per skeleton that differs from the documented one, quoting the
    first differing line of today's source next to the documented line"""
    doc = _documented_skeletons()
    for key, lines in sk.items():
        want = doc.get(key)
        if want is None or want == lines:
            continue
        k = next((i for i, (a, b) in enumerate(zip(lines, want)) if a != b), min(len(lines), len(want)))
        now = lines[k].strip() if k < len(lines) else "<end of function>"
        was = want[k].strip() if k < len(want) else "<end of function>"
        src.anchors.append(dict(name=f"skeleton:{key}: body equals the documented one ({SKELETON_THEOREMS[key]} in Props/C09.lean)", ok=False, value=None,
                                detail=f"first difference at statement line {k}: today `{now}` — documented `{was}` "
                                       f"({len(lines)} lines today, {len(want)} documented; locals are shown as v1, v2, ... in order of first binding)"))



def translate(src):
    A = src.anchor
    nrm = core.norm_expr
    sk = {}      # name -> skeleton lines
    dflt = {}    # name -> signature defaults

    def canon(rel, qual):
        return _canon(src.find(rel, qual))

    # ---------------------------------------------------------------- remove_out_of_bounds_particles
    oob = {}

    def oob_parse():
        fn = canon(REL, "Motl.remove_out_of_bounds_particles")
        dflt["oob"] = _defaults(fn)  # read first: a failure further down must not make the signature look unread
        nrm = lambda n: _orig_text(fn, core.norm_expr(n))  # messages quote the identifiers of today's source
        repl = {}
        loops = [n for n in ast.walk(fn) if isinstance(n, ast.For)]
        ifs = [n for lp in loops for n in ast.walk(lp) if isinstance(n, ast.If) and isinstance(n.test, ast.BoolOp)
               and isinstance(n.test.op, ast.And)]
        if len(ifs) != 1:
            raise core.AnchorMissing(f"remove_out_of_bounds_particles: expected one `if a and b and ...` inside the row loop, found {len(ifs)}")
        test = ifs[0].test

        def is_upper(v):
            return (isinstance(v, ast.Compare) and len(v.ops) == 1 and isinstance(v.left, ast.Subscript)
                    and isinstance(v.left.value, ast.Name) and isinstance(v.left.slice, ast.Constant) and isinstance(v.left.slice.value, int)
                    and isinstance(v.comparators[0], ast.Subscript) and isinstance(v.comparators[0].value, ast.Subscript)
                    and isinstance(v.comparators[0].value.slice, ast.Constant) and isinstance(v.comparators[0].value.slice.value, str))
        ups = [v for v in test.values if is_upper(v)]
        lows = [v for v in test.values if not is_upper(v)]
        if len(ups) != 3:
            raise core.AnchorMissing(f"expected three upper-face conjuncts `c_max[i] <op> tomo_dim[axis][0]`, found {len(ups)}: {nrm(test)}")
        for i, (v, ax) in enumerate(zip(ups, "xyz")):
            if v.left.slice.value != i or v.comparators[0].value.slice.value != ax or nrm(v.comparators[0].slice) != "0" \
                    or v.left.value.id != ups[0].left.value.id or nrm(v.comparators[0].value.value) != nrm(ups[0].comparators[0].value.value):
                raise core.AnchorMissing(f"upper conjunct {i} is `{nrm(v)}`, expected <c_max>[{i}] <op> <tomo_dim>['{ax}'][0]")
        oob["upper"] = _same([_cmp(v) for v in ups], "upper test")
        # ---- lower-face conjunct(s)
        lower, lname = None, None
        if len(lows) == 1:
            v = lows[0]
            if isinstance(v, ast.Compare) and isinstance(v.left, ast.Call) and nrm(v.left.func) == "all" and len(v.left.args) == 1 \
                    and isinstance(v.left.args[0], ast.Name) and not v.left.keywords and _num(v.comparators[0]) == 0 and _cmp(v) == "ge":
                lower, lname = ".vacuousAll", v.left.args[0].id  # all(...) is a bool; bool >= 0 is constantly true
            elif isinstance(v, ast.Call) and nrm(v.func) == "all" and len(v.args) == 1 and isinstance(v.args[0], ast.GeneratorExp) \
                    and len(v.args[0].generators) == 1 and isinstance(v.args[0].generators[0].iter, ast.Name) and not v.args[0].generators[0].ifs:
                c, g = v.args[0].elt, v.args[0].generators[0]
                if isinstance(c, ast.Compare) and nrm(c.left) == nrm(g.target) and _num(c.comparators[0]) == 0:
                    lower, lname = f"(.elementwise .{_cmp(c)})", g.iter.id
            elif isinstance(v, ast.Compare) and isinstance(v.left, ast.Call) and nrm(v.left.func) in ("min", "np.min") and len(v.left.args) == 1 \
                    and isinstance(v.left.args[0], ast.Name) and _num(v.comparators[0]) == 0 and _cmp(v) in ("ge", "gt"):
                lower, lname = f"(.elementwise .{_cmp(v)})", v.left.args[0].id
        elif len(lows) == 3:
            ops = []
            for i, v in enumerate(lows):
                if not (isinstance(v, ast.Compare) and isinstance(v.left, ast.Subscript) and isinstance(v.left.value, ast.Name)
                        and nrm(v.left.slice) == str(i) and _num(v.comparators[0]) == 0 and v.left.value.id == lows[0].left.value.id):
                    raise core.AnchorMissing("lower test of unknown form: " + nrm(v))
                ops.append(_cmp(v))
            lower, lname = f"(.elementwise .{_same(ops, 'lower test')})", lows[0].left.value.id
        if lower is None:
            raise core.AnchorMissing("lower-face test of unknown form: " + " and ".join(nrm(v) for v in lows))
        oob["lower"] = lower
        first_low = min(test.values.index(v) for v in lows)
        vals = []
        for k, v in enumerate(test.values):
            if is_upper(v):
                vals.append(_hole("CMP_UPPER", v.left, v.comparators[0]))
            elif k == first_low:
                vals.append(_hole("LOWER_FACES_OK", _hname(lname)))
        repl[id(test)] = ast.BoolOp(op=ast.And(), values=vals)
        # ---- boundary = ceil(box_size / 2)
        table = {"ceil(box_size/2)": ("ceil", 2), "math.ceil(box_size/2)": ("ceil", 2), "np.ceil(box_size/2)": ("ceil", 2),
                 "int(np.ceil(box_size/2))": ("ceil", 2), "int(ceil(box_size/2))": ("ceil", 2), "-(-box_size//2)": ("ceil", 2),
                 "(box_size+1)//2": ("ceil", 2),
                 "floor(box_size/2)": ("floor", 2), "box_size//2": ("floor", 2), "int(box_size/2)": ("floor", 2)}
        half = [n for n in ast.walk(fn) if isinstance(n, ast.Assign) and "box_size" in nrm(n.value) and isinstance(n.targets[0], ast.Name)]
        if len(half) != 1:
            raise core.AnchorMissing(f"expected one assignment computed from box_size, found {[nrm(n) for n in half]}")
        if nrm(half[0].value) not in table:
            raise core.AnchorMissing(f"boundary for 'whole' is `{nrm(half[0].value)}`")
        oob["half"] = list(table[nrm(half[0].value)])
        repl[id(half[0].value)] = _hole("HALF_BOX", _hname("box_size"))
        sk["oob"] = _skeleton(fn, repl)
        return f"lower {lower}, upper {oob['upper']}, half box {oob['half']}"

    A("oob:operators (lower-face form, upper-face operator, half box) + body skeleton", oob_parse)

    # ---------------------------------------------------------------- adapt_to_trimming
    trim = {}

    def trim_parse():
        fn = canon(REL, "Motl.adapt_to_trimming")
        nrm = lambda n: _orig_text(fn, core.norm_expr(n))
        repl = {}
        offs = [n for n in ast.walk(fn) if isinstance(n, ast.BinOp) and isinstance(n.op, ast.Sub) and nrm(n.left) == "np.asarray(trim_coord_start)"]
        if len(offs) != 1:
            raise core.AnchorMissing(f"expected one `np.asarray(trim_coord_start) - k`, found {len(offs)}")
        k = _num(offs[0].right)
        if k != int(k) or k < 0:
            raise core.AnchorMissing(f"offset {k}")
        trim["offset"] = int(k)
        repl[id(offs[0].right)] = _hname("OFFSET")
        cs = sorted((n for n in ast.walk(fn) if isinstance(n, ast.Compare) and re.fullmatch(r"self\.df\['[xyz]'\]", nrm(n.left))),
                    key=lambda n: (n.lineno, n.col_offset))
        low = [c for c in cs if isinstance(c.comparators[0], ast.Constant)]
        high = [c for c in cs if not isinstance(c.comparators[0], ast.Constant)]
        if len(low) != 3 or len(high) != 3:
            raise core.AnchorMissing(f"expected 3+3 comparisons of self.df[axis], found {len(low)}+{len(high)}")
        for c, ax in zip(low, "xyz"):
            if nrm(c.left) != f"self.df['{ax}']":
                raise core.AnchorMissing("low test on " + nrm(c.left))
        b = _same([_num(c.comparators[0]) for c in low], "trim low bound")
        if b != int(b) or b < 0:
            raise core.AnchorMissing(f"low bound {b}")
        trim["low"] = [_same([_cmp(c) for c in low], "trim low"), int(b)]
        for i, (c, ax) in enumerate(zip(high, "xyz")):
            r = c.comparators[0]
            if nrm(c.left) != f"self.df['{ax}']" or not (isinstance(r, ast.Subscript) and isinstance(r.value, ast.Name) and nrm(r.slice) == str(i)
                                                        and r.value.id == high[0].comparators[0].value.id):
                raise core.AnchorMissing("high test `" + nrm(c) + "`")
        trim["high"] = _same([_cmp(c) for c in high], "trim high")
        for c in low:
            repl[id(c)] = _hole("CMP_LOW", c.left, _hname("LOW_BOUND"))
        for c in high:
            repl[id(c)] = _hole("CMP_HIGH", c.left, c.comparators[0])
        sk["trim"] = _skeleton(fn, repl)
        return f"offset {trim['offset']}, low {trim['low']}, high {trim['high']}"

    A("trim:operators (offset, low test, high test) + body skeleton", trim_parse)

    # ---------------------------------------------------------------- clean_by_tomo_mask
    mask = {}

    def mask_parse():
        fn = canon(REL, "Motl.clean_by_tomo_mask")
        dflt["mask"] = _defaults(fn)  # read first (see oob_parse)
        o = lambda t: _orig_text(fn, t)
        repl = {}
        # ---- how the tomogram list is loaded: ioutils.tlt_load(tomo_list[, sort_angles=<bool>])
        loads = [n for n in ast.walk(fn) if isinstance(n, ast.Call) and nrm(n.func) in ("ioutils.tlt_load", "tlt_load")]
        if len(loads) != 1 or len(loads[0].args) != 1 or nrm(loads[0].args[0]) != "tomo_list" or any(k.arg != "sort_angles" for k in loads[0].keywords):
            raise core.AnchorMissing("clean_by_tomo_mask: no single `ioutils.tlt_load(tomo_list[, sort_angles=...])`, found " + str([o(ast.unparse(n)) for n in loads]))
        if loads[0].keywords:
            v = loads[0].keywords[0].value
            if not (isinstance(v, ast.Constant) and isinstance(v.value, bool)):
                raise core.AnchorMissing("sort_angles is not a literal: " + o(ast.unparse(v)))
            mask["sort_kw"] = v.value
        else:
            mask["sort_kw"] = None  # tlt_load's own default applies
        repl[id(loads[0])] = _hole("LOAD_TOMO_LIST", loads[0].args[0])
        # ---- a text FILE of tomogram numbers: read directly with one_value_per_line_read(tomo_list, data_type=<float64>) (exact for every
        # integer below 2^53); without such a call the file goes through tlt_load, i.e. one_value_per_line_read's DEFAULT dtype (float32)
        EXACT = ("np.float64", "float", "np.double", "numpy.float64", "'float64'", "np.longdouble")
        rdr = [n for n in ast.walk(fn) if isinstance(n, ast.Call) and nrm(n.func) in ("ioutils.one_value_per_line_read", "one_value_per_line_read")]
        if len(rdr) > 1 or (rdr and (len(rdr[0].args) != 1 or nrm(rdr[0].args[0]) != "tomo_list" or any(k.arg != "data_type" for k in rdr[0].keywords))):
            raise core.AnchorMissing("clean_by_tomo_mask: unexpected reading of the tomogram file: " + str([o(ast.unparse(n)) for n in rdr]))
        if rdr:
            dt = nrm(rdr[0].keywords[0].value) if rdr[0].keywords else None
            guard = [n for n in ast.walk(fn) if isinstance(n, ast.If) and any(x is rdr[0] for st in n.body for x in ast.walk(st))]
            if not guard or not nrm(guard[-1].test).startswith("isinstance(tomo_list,str)"):
                raise core.AnchorMissing("clean_by_tomo_mask: the direct file reader is not guarded by `isinstance(tomo_list, str) ...`")
            mask["file_dtype"] = dt
            repl[id(rdr[0])] = _hole("READ_TOMO_FILE", rdr[0].args[0], _hname("EXACT_DTYPE" if dt in EXACT else (dt or "DEFAULT_DTYPE")))
        else:
            mask["file_dtype"] = None
        # np.all(X, axis=1) and (X).all(axis=1) are the same reduction (_Normalise gives both the first form)
        lows = [n for n in ast.walk(fn) if isinstance(n, ast.Call) and nrm(n.func) == "np.all" and n.args and isinstance(n.args[0], ast.Compare)
                and isinstance(n.args[0].left, ast.Name) and any(k.arg == "axis" and _num(k.value) == 1 for k in n.keywords)]
        if len(lows) != 1 or _num(lows[0].args[0].comparators[0]) != 0:
            raise core.AnchorMissing("no single all-axes lower test `np.all(coords <op> 0, axis=1)` / `(coords <op> 0).all(axis=1)`; candidates: "
                                     + str([o(ast.unparse(n)) for n in ast.walk(fn) if isinstance(n, ast.Call) and nrm(n.func).endswith("all")]))
        cname = lows[0].args[0].left.id
        mask["low"] = _cmp(lows[0].args[0])
        repl[id(lows[0].args[0])] = _hole("CMP_IDX_LOW", lows[0].args[0].left, lows[0].args[0].comparators[0])
        cs = sorted((n for n in ast.walk(fn) if isinstance(n, ast.Compare) and re.fullmatch(cname + r"\[:,\d\]", nrm(n.left))),
                    key=lambda n: (n.lineno, n.col_offset))
        if len(cs) != 3:
            raise core.AnchorMissing(f"expected 3 upper comparisons of {o(cname)}[:, i], found {len(cs)}")
        for i, c in enumerate(cs):
            m = re.fullmatch(VN + r"\.shape\[(\d)\]", nrm(c.comparators[0]))
            if nrm(c.left) != f"{cname}[:,{i}]" or not m or int(m.group(2)) != i:
                raise core.AnchorMissing("upper comparison `" + o(ast.unparse(c)) + "`")
        mask["high"] = _same([_cmp(c) for c in cs], "mask high")
        for c in cs:
            repl[id(c)] = _hole("CMP_IDX_HIGH", c.left, c.comparators[0])
        zs = [n for n in ast.walk(fn) if isinstance(n, ast.Call) and nrm(n.func) == "np.where" and len(n.args) == 1 and isinstance(n.args[0], ast.Compare)]
        if len(zs) != 1 or _num(zs[0].args[0].comparators[0]) != 0:
            raise core.AnchorMissing("no single `np.where(mask_values <op> 0)`")
        mask["zero"] = _cmp(zs[0].args[0])
        repl[id(zs[0].args[0])] = _hole("CMP_VOXEL", zs[0].args[0].left, zs[0].args[0].comparators[0])
        # ---- which rows are dropped for the collected ids
        loops = [n for n in fn.body if isinstance(n, ast.For)]
        if len(loops) != 1 or not (isinstance(loops[0].target, ast.Tuple) and len(loops[0].target.elts) == 2 and nrm(loops[0].iter).startswith("enumerate(")):
            raise core.AnchorMissing("no single `for i, t in enumerate(tomos)` loop")
        tname = loops[0].target.elts[1].id
        scope = None
        for st in loops[0].body:
            t = nrm(st)
            m = re.fullmatch(VN + r"\.remove_feature\('subtomo_id'," + VN + r"\)", t)
            if m:
                scope, c, ids = "byId", m.group(1), m.group(2)
            m2 = re.fullmatch(VN + r"\.df=\1\.df\.loc\[~\(\(\1\.df\['tomo_id'\]==" + VN + r"\)&\1\.df\['subtomo_id'\]\.isin\(" + VN + r"\)\)\]", t)
            if m2 and m2.group(2) == tname:
                scope, c, ids = "byTomoAndId", m2.group(1), m2.group(3)
            if m or (m2 and m2.group(2) == tname):
                if "stmt" in mask:
                    raise core.AnchorMissing("more than one removal statement in the loop")
                mask["stmt"] = True
                repl[id(st)] = ast.Expr(value=_hole("DROP_ROWS", _hname(c), _hname(tname), _hname(ids)))
        if scope is None:
            raise core.AnchorMissing("the statement that drops the rows of the collected subtomo ids has an unknown form; loop body: "
                                     + "; ".join(o(ast.unparse(st))[:90] for st in loops[0].body if not nrm(st).startswith("LOG(")))
        mask["scope"] = scope
        lines = _skeleton(fn, repl)
        sk["mask"] = lines
        mask["_fn"] = fn
        txt = "\n".join(l.strip().replace(" ", "") for l in lines)
        # the ids are taken from the id array filtered by the SAME bounds mask as the coordinates
        m = re.search(r"^" + VN + r"=" + VN + r"\[" + VN + r"\]$\n^" + VN + r"=" + VN + r"\.df\['subtomo_id'\]\.values\[\3\]$", txt, re.M)
        m2 = re.search(r"^" + VN + r"=" + VN + r"\[" + VN + r"\]$", txt[m.end():], re.M) if m else None
        mask["ids_through"] = bool(m and m.group(1) == m.group(2) and m2 and m2.group(2) == m.group(4))
        return f"low {mask['low']}, high {mask['high']}, voxel {mask['zero']}, scope {scope}, ids through the bounds filter {mask['ids_through']}, sort_angles {mask['sort_kw']}"

    A("mask:operators (index bounds, voxel test, which rows are dropped) + body skeleton", mask_parse)

    # ---------------------------------------------------------------- whole-body skeletons
    def whole(key, rel, qual):
        def f():
            fn = canon(rel, qual)
            sk[key] = _skeleton(fn, {})
            dflt[key] = _defaults(fn)
            return f"{len(sk[key])} lines"
        return f

    A("points:body skeleton (KDTree of the particles, closed-ball query per reference point, per tomogram)", whole("points", REL, "Motl.clean_by_distance_to_points"))
    A("get_coordinates:body skeleton", whole("coords", REL, "Motl.get_coordinates"))
    A("dimensions_load:body skeleton (all input forms, N x 4 column naming)", whole("dimsload", "cryocat/ioutils.py", "dimensions_load"))

    # helper bodies the four filters run through (round 7: a `drop_duplicates()` / `np.isclose` inside get_motl_subset went unnoticed while the
    # helpers were only bound, not dumped)
    A("get_motl_subset:body skeleton (rows whose feature EQUALS a listed value, in list order, nothing dropped)", whole("subset", REL, "Motl.get_motl_subset"))
    A("get_unique_values:body skeleton", whole("uniq", REL, "Motl.get_unique_values"))
    A("Motl.load:body skeleton (a Motl instance is copied into an EmMotl)", whole("motlload", REL, "Motl.load"))
    A("tlt_load:body skeleton", whole("tltload", "cryocat/ioutils.py", "tlt_load"))
    A("one_value_per_line_read:body skeleton (first column of the file, dtype data_type)", whole("ovpl", "cryocat/ioutils.py", "one_value_per_line_read"))
    A("cryomap.read:body skeleton", whole("read", "cryocat/cryomap.py", "read"))

    tlt = {}

    def tlt_parse():
        """what C09 needs of `tlt_load`: with `sort_angles` false NOTHING is sorted, whatever the form of the input - every sorting call of
        the function sits under an `if sort_angles:`. (Which forms are sorted when the flag holds, and the rest of the body, are not
        anchored here: the correspondence run hands over lists, arrays, tuples, numbers and files.) Also read: the default of the flag."""
        fn = canon("cryocat/ioutils.py", "tlt_load")
        d = dict(map(tuple, _defaults(fn))).get("sort_angles")
        if d not in ("True", "False"):
            raise core.AnchorMissing(f"tlt_load: default of sort_angles is {d}")
        tlt["default"] = d == "True"
        dflt["tltload"] = _defaults(fn)

        def is_sort(n):
            return isinstance(n, ast.Call) and (core.norm_expr(n.func) in ("np.sort", "sorted", "np.argsort", "np.unique", "np.lexsort", "numpy.sort")
                                                or (isinstance(n.func, ast.Attribute) and n.func.attr in ("sort", "sort_values", "argsort", "sort_index")))
        sorts = [n for n in ast.walk(fn) if is_sort(n)]
        guarded = set()
        for n in ast.walk(fn):
            if isinstance(n, ast.If) and core.norm_expr(n.test) == "sort_angles":
                for st in n.body:
                    guarded.update(id(x) for x in ast.walk(st))
        loose = [x for x in sorts if id(x) not in guarded]
        if loose:
            raise core.AnchorMissing("tlt_load sorts regardless of sort_angles: `" + _orig_text(fn, ast.unparse(loose[0])) + "`")
        tlt["n_sorts"] = len(sorts)
        return f"{len(sorts)} sorting call(s), all under `if sort_angles:` (default {d})"

    A("tlt_load:nothing is sorted unless sort_angles holds; default of sort_angles", tlt_parse)

    rd = {}

    def read_parse():
        fn = canon("cryocat/cryomap.py", "read")
        d = dict(map(tuple, _defaults(fn))).get("transpose")
        if d != "True":
            raise core.AnchorMissing(f"cryomap.read: default of transpose is {d}")
        ifs = [n for n in ast.walk(fn) if isinstance(n, ast.If) and "transpose" in core.norm_expr(n.test)]
        if len(ifs) != 1 or core.norm_expr(ifs[0].test) != "transpose" or len(ifs[0].body) != 1 or ifs[0].orelse:
            raise core.AnchorMissing("cryomap.read: expected one `if transpose:` with one statement, found " + str([_orig_text(fn, ast.unparse(n.test)) for n in ifs]))
        st = ifs[0].body[0]
        m = re.fullmatch(VN + r"=\1\.transpose\((\d),(\d),(\d)\)", core.norm_expr(st))
        if not m:
            raise core.AnchorMissing("cryomap.read: the transposition is `" + _orig_text(fn, ast.unparse(st)) + "`")
        rd["axes"] = [int(m.group(k)) for k in (2, 3, 4)]
        dflt["read"] = _defaults(fn)
        return f"transpose default {d}, axes {rd['axes']}"

    A("cryomap.read:a map file is transposed (2, 1, 0) by default", read_parse)
    for rel_, q_ in HELPERS:  # looked up so that the binding discipline of the framework covers them (one definition, documented decorators)
        A(f"helper bound once:{q_}", (lambda r, q: (lambda: bool(src.find(r, q))))(rel_, q_))

    binz = {}

    def bin_parse():
        fn = canon("cryocat/cryomap.py", "binarize")
        cs = [n for n in ast.walk(fn) if isinstance(n, ast.Compare)]
        if len(cs) != 1 or nrm(cs[0].left) != "input_map" or nrm(cs[0].comparators[0]) != "threshold":
            raise core.AnchorMissing("binarize: no single `input_map <op> threshold`")
        binz["cmp"] = _cmp(cs[0])
        sk["binarize"] = _skeleton(fn, {id(cs[0]): _hole("CMP_BIN", cs[0].left, cs[0].comparators[0])})
        dflt["binarize"] = _defaults(fn)
        d = dict(map(tuple, dflt["binarize"])).get("threshold")
        fr = Fraction(d) if d is not None else None
        if fr is None or fr < 0:
            raise core.AnchorMissing(f"binarize: default threshold {d}")
        binz["thr"] = [fr.numerator, fr.denominator]
        return f"{binz['cmp']} {d}"

    A("binarize:operator and default threshold + body skeleton", bin_parse)

    def coords():
        fn = src.find(REL, "Motl.get_coordinates")
        found = []
        for n in ast.walk(fn):
            if isinstance(n, ast.BinOp):
                l, r = [c.value for c in ast.walk(n.left) if isinstance(c, ast.Constant) and isinstance(c.value, str)], \
                       [c.value for c in ast.walk(n.right) if isinstance(c, ast.Constant) and isinstance(c.value, str)]
                found.append((type(n.op).__name__, [s for s in l if s != "tomo_id"], [s for s in r if s != "tomo_id"]))
        if not found or any(f != found[0] for f in found) or found[0][0] != "Add":
            raise core.AnchorMissing(f"get_coordinates computes {found}")
        return [found[0][1], found[0][2]]

    def points():
        txt = "\n".join(l.strip().replace(" ", "") for l in sk.get("points", []))
        m = re.search(r"^" + VN + r"=KDTree\(" + VN + r"\)$", txt, re.M)
        q = re.search(r"^" + VN + r"=" + VN + r"\.query_ball_point\(" + VN + r",r=radius_in_voxels\)$", txt, re.M)
        if not (m and q and q.group(2) == m.group(1)):
            raise core.AnchorMissing("clean_by_distance_to_points: no `tree = KDTree(coord1)` / `tree.query_ball_point(point, r=radius_in_voxels)`")
        if not re.search(r"^" + re.escape(m.group(2)) + r"=" + VN + r"\.get_coordinates\(\)$", txt, re.M):
            raise core.AnchorMissing("the KD-tree is not built from the particles' complete positions")
        if "from scipy.spatial import KDTree" not in src.text(REL):
            raise core.AnchorMissing("KDTree is not scipy.spatial.KDTree")
        return True

    def dimcols():
        fn = src.find("cryocat/ioutils.py", "dimensions_load")
        for n in ast.walk(fn):
            if isinstance(n, ast.If) and "shape[1]==4" in nrm(n.test):
                st = n.body[0]
                if isinstance(st, ast.Assign) and nrm(st.targets[0]) == "dimensions.columns":
                    return src.literal(st.value)
        raise core.AnchorMissing("dimensions_load: N x 4 column naming not found")

    cc = A("get_coordinates:x+shift", coords)
    pp = A("points:KDTree ball query per tomogram", points)
    dc = A("dimensions_load:N x 4 columns", dimcols)
    for key in DOC_DEFAULTS:
        A(f"defaults:{key}", (lambda k: (lambda: dflt[k] if k in dflt else (_ for _ in ()).throw(core.AnchorMissing("signature not read (the function was not found)"))))(key))
    # how a tomogram list handed over as a FILE reaches the pairing with the masks: sorted when the effective sort_angles is true
    eff = None
    if "sort_kw" in mask and "default" in tlt:
        eff = tlt["default"] if mask["sort_kw"] is None else mask["sort_kw"]
    # is a tomogram number read from a text file exact? directly with a 64-bit dtype: yes; through tlt_load: the default dtype of
    # one_value_per_line_read decides
    ovpl_default = dict(map(tuple, dflt.get("ovpl", []))).get("data_type")
    EXACT = ("np.float64", "float", "np.double", "numpy.float64", "'float64'", "np.longdouble")
    file_exact = None
    if "file_dtype" in mask:
        file_exact = (mask["file_dtype"] in EXACT) if mask["file_dtype"] is not None else (ovpl_default in EXACT)
    _doc_compare(src, sk)

    # a missing anchor falls back to the DOCUMENTED value (anchorsOk is false then, so the check fails anyway)
    lower = oob.get("lower", ".vacuousAll")
    upper = oob.get("upper", "lt")
    bnd = oob.get("half", ["ceil", 2])
    tlow = trim.get("low", ["lt", 1])
    cc = cc if (isinstance(cc, list) and len(cc) == 2) else [["x", "y", "z"], ["shift_x", "shift_y", "shift_z"]]
    dc = dc if isinstance(dc, list) else ["tomo_id", "x", "y", "z"]
    thr = binz.get("thr", [1, 2])
    dl = lambda k: _lean_pairs(dflt.get(k, DOC_DEFAULTS[k]))
    skl = lambda k: _lean_lines(sk.get(k, ["<missing>"]))
    return f"""-- GENERATED by harness/props/c09.py from {REL}, cryocat/ioutils.py and cryocat/cryomap.py; do not edit
import CryoCat.Model.C09_Base
namespace CryoCat.Gen.C09
open CryoCat.C09
def anchorsOk : Bool := {"true" if src.ok else "false"}
def oobCfg : OobCfg := {{ lower := {lower}, upper := .{upper}, rounding := .{bnd[0]}, divisor := {bnd[1]} }}
def trimCfg : TrimCfg := {{ offset := {trim.get("offset", 1)}, lowCmp := .{tlow[0]}, lowBound := {tlow[1]}, highCmp := .{trim.get("high", "gt")} }}
def maskCfg : MaskCfg := {{ lowCmp := .{mask.get("low", "ge")}, highCmp := .{mask.get("high", "lt")}, zeroCmp := .{mask.get("zero", "eq")}, scope := .{mask.get("scope", "byTomoAndId")} }}
def binarizeCfg : BinarizeCfg := {{ cmp := .{binz.get("cmp", "gt")}, thrNum := {thr[0]}, thrDen := {thr[1]} }}
/-- the subtomo ids pass through the same bounds filter as the coordinates (`none`: the translator could not examine it) -/
def maskIdsThroughFilter : Option Bool := {("some true" if mask["ids_through"] else "some false") if "ids_through" in mask else "none"}
/-- `clean_by_tomo_mask` loads `tomo_list` with an effective `sort_angles` of this value: a list read from a FILE is sorted before it is paired with the masks -/
def maskTomoFileSorted : Bool := {"true" if (eff if eff is not None else False) else "false"}
/-- tomogram numbers read from a text FILE arrive exactly (64-bit reader); `false`: they pass a float32 reader, which rounds numbers above 2^24 -/
def maskTomoFileExact : Bool := {"true" if file_exact else "false"}
def tltLoadSortDefault : Bool := {"true" if tlt.get("default", True) else "false"}
def readTransposeAxes : List Nat := {rd.get("axes", [2, 1, 0])}
def pointsBallQueryPerTomogram : Bool := {"true" if pp else "false"}
def coordColumns : List String := {core.lean_str_list(cc[0])}
def shiftColumns : List String := {core.lean_str_list(cc[1])}
def dimColumns : List String := {core.lean_str_list([str(c) for c in dc])}
/-! signature defaults (parameter, default as written in the source) -/
def oobDefaults : List (String × String) := {dl("oob")}
def pointsDefaults : List (String × String) := {dl("points")}
def maskDefaults : List (String × String) := {dl("mask")}
def binarizeDefaults : List (String × String) := {dl("binarize")}
def dimsLoadDefaults : List (String × String) := {dl("dimsload")}
def tltLoadDefaults : List (String × String) := {dl("tltload")}
def readDefaults : List (String × String) := {dl("read")}
/-! body skeletons: the function without docstring, locals renamed v1, v2, ... in order of first binding, the
operators/constants extracted above replaced by named holes (CMP_..., LOWER_FACES_OK, HALF_BOX, OFFSET, LOW_BOUND, DROP_ROWS) -/
def oobSkeleton : List String := {skl("oob")}
def trimSkeleton : List String := {skl("trim")}
def maskSkeleton : List String := {skl("mask")}
def pointsSkeleton : List String := {skl("points")}
def coordsSkeleton : List String := {skl("coords")}
def dimsLoadSkeleton : List String := {skl("dimsload")}
def binarizeSkeleton : List String := {skl("binarize")}
def subsetSkeleton : List String := {skl("subset")}
def uniqueValuesSkeleton : List String := {skl("uniq")}
def motlLoadSkeleton : List String := {skl("motlload")}
def tltLoadSkeleton : List String := {skl("tltload")}
def oneValuePerLineSkeleton : List String := {skl("ovpl")}
def readSkeleton : List String := {skl("read")}
end CryoCat.Gen.C09
"""


# =============================================================================== generators
def _i(v):
    """value (Fraction / int / float on the grid) -> wire integer"""
    f = Fraction(v) * SCALE
    assert f.denominator == 1, v
    return int(f)


def _fr(n):
    return Fraction(n, SCALE)


DELTAS = [Fraction(1), Fraction(1, 2), Fraction(1, 4), Fraction(1, SCALE)]
TOMO_POOL = [0, 1, 2, 3, 4, 5, 7, 12, 17, 204]
# date-style / serial tomogram numbers (1e6..1e9), adjacent ones included, odd ones above 2^24 (not representable in float32) included
BIG_TOMOS = [1000000, 1000001, 16777215, 16777216, 16777217, 20230115, 20230116, 20230117, 20241231, 100000001, 100000002, 999999999, 1000000000]


def _pick_tomos(rng, k):
    """k distinct tomogram numbers: mostly small ones; ~25 % of the cases use large numbers, preferably neighbours"""
    if rng.random() < 0.25:
        i = rng.randrange(len(BIG_TOMOS))
        near = [BIG_TOMOS[(i + d) % len(BIG_TOMOS)] for d in range(k)]
        return near if rng.random() < 0.7 else rng.sample(BIG_TOMOS, k)
    return rng.sample(TOMO_POOL, k)



def _filler(rng, k):
    """values of the 17 fields that are not identifiers/positions: anything on the grid"""
    r = rng.random()
    if r < 0.4:
        return Fraction(rng.randint(-20, 400))
    if r < 0.8:
        return Fraction(rng.randint(-180 * 4, 360 * 4), 4)
    return Fraction(rng.randint(-2048, 2048), SCALE)


def _split(rng, c):
    """complete coordinate c -> (x, shift) with x + shift = c"""
    if rng.random() < 0.35:
        return c, Fraction(0)
    s = Fraction(rng.randint(-2 * 64, 2 * 64), 64)
    return c - s, s


def _row(rng, sid, tomo, cpos, split=True):
    row = [_filler(rng, k) for k in range(20)]
    row[I_ID] = Fraction(sid)
    row[I_TOMO] = Fraction(tomo)
    row[5] = Fraction(rng.randint(1, 6))
    row[19] = Fraction(rng.randint(1, 3))
    for a in range(3):
        x, s = _split(rng, cpos[a]) if split else (cpos[a], Fraction(rng.randint(-128, 128), 64) if rng.random() < 0.6 else Fraction(0))
        row[I_X + a] = x
        row[I_SX + a] = s
    return [_i(v) for v in row]


def _axis_oob(rng, b, dim, kind):
    """a complete coordinate c of the given kind relative to [b, dim - b)"""
    d = rng.choice(DELTAS)
    if kind == "in":
        lo, hi = b, dim - b
        if hi - lo <= 1:
            return b if hi > lo else b  # degenerate tomogram: nothing fits
        return Fraction(rng.randint(int(lo * 4), int(hi * 4) - 1), 4)
    return {"lo_face": b, "lo_below": b - d, "neg": -Fraction(rng.randint(1, 40), 4), "zero": Fraction(0),
            "hi_in": dim - b - d, "hi_face": dim - b, "hi_beyond": dim - b + d, "far": dim + rng.randint(1, 50)}[kind]


OOB_KINDS_OFF = ["lo_below", "neg", "zero", "hi_face", "hi_beyond", "far"]
OOB_KINDS_ON = ["in", "in", "in", "lo_face", "hi_in"]


def _ids(rng, n):
    ids = list(range(1, n + 1))
    if rng.random() < 0.5:
        rng.shuffle(ids)
    if rng.random() < 0.3:
        ids = [i * 3 + 5 for i in ids]
    return ids


def _restamp_ids(rng, rows, mode=None):
    """subtomo ids are data like any other: 'unique' (as generated), 'per-tomogram' (numbering restarts in every tomogram, so
    the same id occurs in several tomograms), 'random-repeats' (ids drawn from a small pool). Returns the mode."""
    mode = mode or rng.choice(["unique"] * 5 + ["per-tomogram"] * 3 + ["random-repeats"] * 2)
    if mode == "per-tomogram":
        nxt = {}
        for r in rows:
            nxt[r[I_TOMO]] = nxt.get(r[I_TOMO], 0) + 1
            r[I_ID] = nxt[r[I_TOMO]] * SCALE
    elif mode == "random-repeats":
        pool = max(1, len(rows) // 2)
        for r in rows:
            r[I_ID] = rng.randint(1, pool) * SCALE
    return mode


def _history(rng, tier, case, regen):
    """G1/G2 decoration of a generated case: omitted default keywords and further calls that re-use the caller's objects"""
    if rng.random() < 0.15:
        more = []
        for _ in range(rng.choice([1, 1, 2])):
            more.append(regen(rng, case))
        case["more"] = more
    return case


def _nrows(rng, tier):
    r = rng.random()
    if tier == "search":
        return rng.randint(1, 12)
    if r < 0.1:
        return rng.randint(1, 3)
    if tier == "thorough" and r > 0.97:
        return rng.randint(100, 400)
    return rng.randint(4, 60 if r > 0.8 else 25)


def _oob_rows(rng, n, tomos, dims, b, missing, style):
    ids = _ids(rng, n)
    rows = []
    for k in range(n):
        t = rng.choice(tomos)
        dim = dims[t]
        pr = rng.random()
        if t == missing:
            rows.append(_row(rng, ids[k], t, [b + rng.choice([Fraction(0), Fraction(rng.randint(0, 600), 4)]) for _ in range(3)]))
            continue
        if style < 0.1:
            kinds = [rng.choice(OOB_KINDS_ON) for _ in range(3)]  # everything fits
        elif pr < 0.4:
            kinds = [rng.choice(OOB_KINDS_ON) for _ in range(3)]
        elif pr < 0.85:
            kinds = [rng.choice(OOB_KINDS_ON) for _ in range(3)]
            kinds[rng.randrange(3)] = rng.choice(OOB_KINDS_OFF)
        else:
            kinds = [rng.choice(OOB_KINDS_ON + OOB_KINDS_OFF) for _ in range(3)]
        c = [_axis_oob(rng, b, Fraction(dim[a]), kinds[a]) for a in range(3)]
        rows.append(_row(rng, ids[k], t, c))
    _restamp_ids(rng, rows)
    return rows


BIG_BOXES = [65, 66, 67, 71, 96, 97, 99, 127, 128, 129, 161, 200, 201, 255, 256, 257]


def _rand_dims(rng, b=0):
    """dimensions of one tomogram: small volumes, realistic ones (up to 4096) and - for a box of half-width b - volumes around 2b"""
    b = int(b)
    out = []
    for _ in range(3):
        r = rng.random()
        if b > 20 and r < 0.75:
            d = 2 * b + rng.choice([rng.randint(1, 12), rng.randint(1, 200), rng.randint(200, 3000)])
        elif r < 0.12:
            d = rng.choice([rng.randint(200, 1024), rng.choice([464, 928, 960, 1024, 2048, 3708, 3838, 4096])])
        else:
            d = rng.choice([rng.randint(8, 40), rng.randint(40, 128), rng.randint(8, 128)])
        out.append(d)
    if rng.random() < 0.04:  # not every reconstruction has whole-voxel extents on record (binned dimensions)
        a = rng.randrange(3)
        out[a] = Fraction(2 * out[a] + 1, 2)
    return out


def gen_oob(rng, tier):
    T = rng.randint(1, 4)
    tomos = _pick_tomos(rng, T)
    r = rng.random()
    if r < 0.42:
        bt, box = "center", (None if rng.random() < 0.7 else rng.choice([rng.randint(1, 64), rng.choice(BIG_BOXES)]))
    elif r < 0.93:
        bt, box = "whole", rng.choice([rng.randint(1, 8), rng.randint(1, 64), rng.randint(1, 64), 4 * rng.randint(0, 15) + rng.choice([1, 1, 2, 3, 4]),
                                       rng.choice(BIG_BOXES), rng.randint(65, 260)])
    elif r < 0.96:
        bt, box = "whole", rng.choice([None, 0])
    else:
        bt, box = rng.choice(["centre", "Whole", "box", ""]), rng.choice([None, 10])
    b = Fraction((box + 1) // 2) if (bt == "whole" and box) else Fraction(0)
    dims = {t: _rand_dims(rng, b) for t in tomos}
    n = _nrows(rng, tier)
    style = rng.random()
    # a tomogram with particles but without dimensions (KeyError in the real code): its particles all respect the
    # lower faces, so that the outcome does not depend on whether a (repaired) lower test short-circuits the lookup
    missing = rng.choice(tomos) if (len(tomos) > 1 and rng.random() < 0.05) else None
    rows = _oob_rows(rng, n, tomos, dims, b, missing, style)
    order = list(tomos)
    rng.shuffle(order)
    extra_rows = []
    variant = "plain"
    v = rng.random()
    if v < 0.15:  # a tomogram that has dimensions but no particles
        extra = rng.choice([t for t in (TOMO_POOL + [u + d for u in tomos if u > 1000 for d in (-1, 1)]) if t not in tomos])
        extra_rows.append((rng.randrange(len(order) + 1), [_i(extra)] + [_i(x) for x in _rand_dims(rng, b)]))
        variant = "extra-tomogram"
    elif v < 0.22:  # a second, different row for a tomogram: the first one counts
        t = rng.choice(tomos)
        extra_rows.append((len(order), [_i(t)] + [_i(x) for x in _rand_dims(rng, b)]))
        variant = "duplicate-row"
    if missing is not None:
        variant = "missing-tomogram"

    def table(dims):
        dr = [[_i(t)] + [_i(x) for x in dims[t]] for t in order]
        for pos, row in extra_rows:
            dr.insert(pos, row)
        return [d for d in dr if missing is None or d[0] != _i(missing)]

    dim_rows = table(dims)
    forms = ["ndarray", "dataframe", "ndarray", "dataframe", "file", "dataframe-unlabelled", "ndarray-int", "nested-list", "nested-tuple"] \
        + (["list", "ndarray1d", "tuple"] if len(dim_rows) == 1 else [])
    case = dict(op="oob", scale=SCALE, rows=rows, dims=dim_rows, bt=bt, box=box, variant=variant, dims_as=rng.choice(forms))
    if bt == "center" and rng.random() < 0.6:
        case["omit"] = ["boundary_type"]

    def again(rng, case):
        nxt = dict(rows=None)
        d2 = dims
        if rng.random() < 0.5:  # the caller edits the same table in place / rewrites the same file: other dimensions, same tomograms
            d2 = {t: _rand_dims(rng, b) for t in tomos}
            nxt["dims"] = table(d2)
        nxt["rows"] = _oob_rows(rng, rng.randint(1, 12), tomos, d2, b, missing, rng.random())
        return nxt
    case = _history(rng, tier, case, again)
    if case.get("more") and rng.random() < 0.4:
        case["dims_as"] = "file"  # the same path read again (and, where the table was edited, rewritten) by every call
    return case


def _axis_trim(rng, s, e, kind):
    d = rng.choice(DELTAS)
    if kind == "in":
        return Fraction(rng.randint(int(s * 4), int(e * 4)), 4) if e >= s else s
    return {"s": s, "s_below": s - d, "e": e, "e_above": e + d, "far_lo": s - rng.randint(1, 30), "far_hi": e + rng.randint(1, 30),
            "neg": -Fraction(rng.randint(0, 20), 2)}[kind]


def _trim_rows(rng, n, s, e):
    ids = _ids(rng, n)
    tomos = _pick_tomos(rng, rng.randint(1, 4))
    rows = []
    on, off = ["in", "in", "in", "s", "e"], ["s_below", "e_above", "far_lo", "far_hi", "neg"]
    for k in range(n):
        pr = rng.random()
        kinds = [rng.choice(on) for _ in range(3)]
        if 0.45 <= pr < 0.9:
            kinds[rng.randrange(3)] = rng.choice(off)
        elif pr >= 0.9:
            kinds = [rng.choice(on + off) for _ in range(3)]
        x = [_axis_trim(rng, s[a], e[a], kinds[a]) for a in range(3)]
        rows.append(_row(rng, ids[k], rng.choice(tomos), x, split=False))
    _restamp_ids(rng, rows)
    return rows


def _trim_box(rng):
    s = [Fraction(rng.randint(1, 40)) for _ in range(3)]
    size = [rng.choice([1, 2, rng.randint(1, 64), rng.randint(8, 64)]) for _ in range(3)]
    e = [s[a] + size[a] - 1 for a in range(3)]
    return s, e


def gen_trim(rng, tier):
    s, e = _trim_box(rng)
    variant = "plain"
    v = rng.random()
    if v < 0.05:
        a = rng.randrange(3)
        e[a] = s[a] - rng.randint(1, 3)  # empty trimmed volume
        variant = "empty-volume"
    elif v < 0.12:
        a = rng.randrange(3)
        s[a] += Fraction(1, 2)
        variant = "half-voxel-start"
    rows = _trim_rows(rng, _nrows(rng, tier), s, e)
    forms = ["list", "ndarray", "ndarray"] + (["ndarray-int", "tuple"] if variant != "half-voxel-start" else [])
    case = dict(op="trim", scale=SCALE, rows=rows, start=[_i(v) for v in s], end=[_i(v) for v in e], variant=variant, args_as=rng.choice(forms))

    def again(rng, case):
        s2, e2 = s, e
        nxt = {}
        if rng.random() < 0.35:  # the caller writes another (integer) trim box into the same arrays
            s2, e2 = _trim_box(rng)
            nxt.update(start=[_i(v) for v in s2], end=[_i(v) for v in e2])
        nxt["rows"] = _trim_rows(rng, rng.randint(1, 12), s2, e2)
        return nxt
    if rng.random() < 0.12 and "more" not in case:  # the history stream proper: same box for the lists of several tomograms
        case["more"] = [again(rng, case) for _ in range(rng.choice([1, 2]))]
        return case
    return _history(rng, tier, case, again)


TRIPLES = [(3, 4, 0), (0, 3, 4), (4, 0, 3), (1, 2, 2), (2, 3, 6), (6, 2, 3), (5, 12, 0), (0, 0, 1), (1, 0, 0), (8, 9, 12), (2, 6, 9)]
NORMS = {t: int(math.isqrt(sum(c * c for c in t))) for t in TRIPLES}


def _points_rows(rng, n, tomos, ext, g):
    ids = _ids(rng, n)
    rows, cs = [], []
    for k in range(n):
        t = tomos[0] if rng.random() < 0.5 else rng.choice(tomos)
        c = [Fraction(rng.randint(0, ext * g), g) for _ in range(3)]
        cs.append((t, c))
        rows.append(_row(rng, ids[k], t, c))
    _restamp_ids(rng, rows)
    return rows, cs


def _points_pts(rng, m, tomos, cs, r, ext, g):
    """m reference points (wire rows) around the particles cs; returns (pts, r, variant) - r may be replaced by a tie radius"""
    variant = "plain"
    pts = []
    foreign = [t for t in (TOMO_POOL + [u + d for u in tomos if u > 1000 for d in (-1, 1)]) if t not in tomos]
    for _ in range(m):
        pr = rng.random()
        if pr < 0.35 and r > 0:  # exact tie: a point at distance exactly r (or r +- one grid step) from a particle
            t, c = rng.choice(cs)
            tr = rng.choice(TRIPLES)
            k = Fraction(rng.randint(1, 6), 4) if rng.random() < 0.6 else Fraction(rng.randint(1, 3))  # 1/4 grid or integer multiples (3-4-5)
            sg = [rng.choice([-1, 1]) for _ in range(3)]
            p = [c[a] + sg[a] * tr[a] * k for a in range(3)]
            mode = rng.random()
            if mode < 0.6:
                r = NORMS[tr] * k
                variant = "tie"
            if rng.random() < 0.25:
                t = rng.choice(foreign)  # same place, other tomogram: must not remove
                variant = "foreign-tomogram-point"
            pts.append([_i(t)] + [_i(v) for v in p])
        elif pr < 0.5:  # a point of a tomogram the list does not contain / another tomogram of the list
            t = rng.choice(foreign)
            _, c = rng.choice(cs)
            pts.append([_i(t)] + [_i(v) for v in c])
            variant = "foreign-tomogram-point" if variant == "plain" else variant
        elif pr < 0.8:  # a point close to a particle of the same tomogram (some axes within r, some not)
            t, c = rng.choice(cs)
            w = max(1, int(r * 4))
            pts.append([_i(t)] + [_i(c[a] + Fraction(rng.randint(-w, w), 4) * rng.choice([1, 1, 1, 0])) for a in range(3)])
        else:
            t = rng.choice(tomos)
            pts.append([_i(t)] + [_i(Fraction(rng.randint(-2 * g, (ext + 2) * g), g)) for _ in range(3)])
    return pts, r, variant


def gen_points(rng, tier):
    T = rng.randint(1, 4)
    tomos = _pick_tomos(rng, T)
    n = _nrows(rng, tier)
    if rng.random() < 0.2:
        n = max(n, rng.randint(25, 60))  # enough rows in one tomogram for the KD-tree to split (leafsize 10)
    ext = rng.choice([8, 16, 32])
    g = rng.choice([1, 1, 2, 4])
    rows, cs = _points_rows(rng, n, tomos, ext, g)
    r = rng.choice([Fraction(0), Fraction(rng.randint(1, 12 * 4), 4), Fraction(rng.randint(1, ext * 2), 2), Fraction(rng.randint(4, 40), 4),
                    Fraction(rng.choice([5, 10, 13, 3, 7]))])
    m = rng.choice([0, 1, 2, 3, rng.randint(1, 8), rng.randint(1, 8), rng.randint(9, 40)])
    pts, r, variant = _points_pts(rng, m, tomos, cs, r, ext, g)
    inplace = rng.random() < 0.5
    case = dict(op="points", scale=SCALE, rows=rows, pts=pts, r=_i(r), variant=variant, inplace=inplace, pts_int_dtype=rng.random() < 0.3)
    if inplace and rng.random() < 0.6:
        case["omit"] = ["inplace"]

    def again(rng, case):
        rows2, cs2 = _points_rows(rng, rng.randint(1, 14), tomos, ext, g)
        nxt = dict(rows=rows2)
        if m and rng.random() < 0.4:  # the caller overwrites the coordinates in the same points table (same number of points)
            pts2, r2, _ = _points_pts(rng, m, tomos, cs2, r, ext, g)
            nxt.update(pts=pts2, r=_i(r2))
        return nxt
    return _history(rng, tier, case, again)


MASK_ZERO_VALUES = [Fraction(0), Fraction(0), Fraction(1, 4), Fraction(1, 2), Fraction(1, 2), Fraction(-1), Fraction(511, 1024)]
MASK_ONE_VALUES = [Fraction(1), Fraction(1), Fraction(3, 4), Fraction(2), Fraction(513, 1024), Fraction(255)]


def _mask_data(rng, shape, raw):
    p0 = rng.choice([0.0, 0.3, 0.5, 0.7, 1.0]) if rng.random() < 0.25 else rng.choice([0.3, 0.5, 0.7])
    data = [0 if rng.random() < p0 else 1 for _ in range(shape[0] * shape[1] * shape[2])]
    m = dict(shape=shape, data=data)
    if raw:  # values around the documented binarisation threshold: zero voxel <=> value <= 0.5
        m["raw"] = [_i(rng.choice(MASK_ONE_VALUES if d else MASK_ZERO_VALUES)) for d in data]
    return m


def _same_voxel(rng, cj):
    """another position with the same truncated index as cj"""
    v, f = _trunc(cj), Fraction(rng.randint(0, 3), 4)
    return v + f if v > 0 else (v - f if v < 0 else rng.choice([f, -f]))


def _mask_rows(rng, n, tomos, shape_of, ids_mode):
    ids = _ids(rng, n)
    rows = []
    cpos = []
    for k in range(n):
        t = rng.choice(tomos)
        sh = shape_of.get(t, [6, 6, 6])
        pr = rng.random()
        c = []
        off_axis = rng.randrange(3) if 0.45 <= pr < 0.8 else None
        for a in range(3):
            if pr >= 0.8 or a == off_axis:
                kind = rng.choice(["frac_neg", "neg1", "neg", "shape", "beyond", "top", "zero"])
            else:
                kind = rng.choice(["in", "in", "in", "zero", "top", "frac_neg"])
            S = sh[a]
            c.append({"in": Fraction(rng.randint(0, S * 4 - 1), 4), "zero": Fraction(0), "top": S - Fraction(1, rng.choice([4, 2, SCALE])),
                      "frac_neg": -Fraction(rng.randint(1, 3), 4), "neg1": Fraction(-1), "neg": -Fraction(rng.randint(5, 40), 4),
                      "shape": Fraction(S), "beyond": S + Fraction(rng.randint(1, 40), 4)}[kind])
        rows.append(_row(rng, ids[k], t, c))
        cpos.append(c)
    if ids_mode == "per-tomogram":
        _restamp_ids(rng, rows, "per-tomogram")
    elif ids_mode == "repeat-within-tomogram":
        # some rows of a tomogram take the id of an earlier row of that tomogram AND its voxel (a re-picked particle: other shifts,
        # other angles/scores, same voxel; or the row verbatim) - the lists on which the statement still holds (MaskWellFormed)
        first = {}
        for k, r in enumerate(rows):
            t = r[I_TOMO]
            if t in first and rng.random() < 0.4:
                j = rng.choice(first[t])
                if rng.random() < 0.3:
                    rows[k] = list(rows[j])
                else:
                    c = [_same_voxel(rng, cpos[j][a]) for a in range(3)]
                    rows[k] = _row(rng, Fraction(rows[j][I_ID], SCALE), Fraction(t, SCALE), c)
                    cpos[k] = c
            else:
                first.setdefault(t, []).append(k)
    elif ids_mode == "repeat-any-voxel":
        # an id repeated inside a tomogram with NOTHING said about the voxels (two picks merged with pd.concat, ids restarting per pick):
        # inside the quantifier ("all particle lists"); where one of the rows sits on a zero voxel and the other does not, the code removes
        # both (open finding C09-K2)
        first = {}
        for k, r in enumerate(rows):
            t = r[I_TOMO]
            if t in first and rng.random() < 0.5:
                r[I_ID] = rows[rng.choice(first[t])][I_ID]
            else:
                first.setdefault(t, []).append(k)
    return rows


def gen_mask(rng, tier):
    T = rng.randint(1, 4)
    tomos = _pick_tomos(rng, T)
    single = rng.random() < 0.2
    listed = [t for t in tomos if rng.random() < 0.8] or [tomos[0]]
    rng.shuffle(listed)
    variant = "single-mask" if single else "plain"
    if rng.random() < 0.15:
        listed.insert(rng.randrange(len(listed) + 1), rng.choice([t for t in (TOMO_POOL + [u + d for u in tomos if u > 1000 for d in (-1, 1)]) if t not in tomos]))
    raw = rng.random() < 0.3
    masks_as = rng.choice(["arrays"] * 4 + ["files"])

    def shape():
        if masks_as == "files" or rng.random() < 0.3:
            return rng.sample(range(2, 10), 3)  # three DISTINCT axis lengths: any confusion of the axes shows
        if rng.random() < 0.06:
            return [rng.randint(2, 9), rng.randint(10, 24), rng.randint(2, 16)]
        return [rng.randint(2, 9) for _ in range(3)]
    masks = [_mask_data(rng, shape(), raw) for _ in range(1 if single else len(listed))]
    if not single and rng.random() < 0.03:
        if rng.random() < 0.5 and len(masks) > 1:
            masks.pop()
        else:
            masks.append(masks[0])
        variant = "list-length-mismatch"
    shape_of = {}
    for i, t in enumerate(listed):
        shape_of.setdefault(t, masks[0]["shape"] if single else masks[min(i, len(masks) - 1)]["shape"])
    ids_mode = rng.choice(["unique"] * 4 + ["per-tomogram"] * 4 + ["repeat-within-tomogram"] * 2 + ["repeat-any-voxel"] * 2)
    rows = _mask_rows(rng, _nrows(rng, tier), tomos, shape_of, ids_mode)
    inplace = rng.random() < 0.5
    case = dict(op="mask", scale=SCALE, rows=rows, tomos=[_i(t) for t in listed], masks=masks, single=single, variant=variant,
                inplace=inplace, ids=ids_mode, mask_dtype=("float" if raw else rng.choice(["float", "float", "int8", "int64"])),
                tomos_as=rng.choice(["list", "list", "ndarray", "ndarray-int", "file", "file", "tuple"] + (["int", "int"] if len(listed) == 1 else [])),
                masks_as=masks_as)
    if variant == "list-length-mismatch":
        case["tomos_as"] = rng.choice(["list", "ndarray", "file"])
    if inplace and rng.random() < 0.6:
        case["omit"] = ["inplace"]

    def again(rng, case):
        nxt = dict(rows=_mask_rows(rng, rng.randint(1, 14), tomos, shape_of, ids_mode))
        if rng.random() < 0.4:  # the caller repaints the same mask arrays (same shapes)
            nxt["masks"] = [_mask_data(rng, m["shape"], raw) for m in masks]
        return nxt
    return _history(rng, tier, case, again)


GENS = [("oob", gen_oob, 0.40), ("trim", gen_trim, 0.18), ("points", gen_points, 0.20), ("mask", gen_mask, 0.22)]


def _floor_rows(rows):
    return [[v - v % SCALE for v in r] for r in rows]


def _duplicates(rng, rows):
    """a particle list as `pd.concat` of overlapping picks leaves it: some rows occur twice VERBATIM, some particles were picked again
    (same id, tomogram and position; other scores / angles). Every filter must treat such rows one by one."""
    out = list(rows)
    for _ in range(rng.choice([1, 1, 2, 3])):
        j = rng.randrange(len(out))
        r = list(out[j])
        if rng.random() < 0.4:  # re-picked: the identifying fields and the position stay, the rest differs
            for k in (0, 1, 2, 13, 14, 15, 16, 17, 18):
                r[k] = _i(_filler(rng, k))
        out.insert(rng.randrange(len(out) + 1), r)
    return out


def _table_forms(rng, case):
    """H3: how the particle table itself arrives. ~12 % of the cases are INTEGER lists (every field a whole number; the frame is
    int64, as a STAR file holding only integers is read) and ~20 % carry row labels other than 0..n-1 (gaps as `remove_feature`
    leaves them, shuffled, duplicated labels as `pd.concat` of two lists leaves them)."""
    if case["op"] != "mask" and rng.random() < 0.15:
        case["rows"] = _duplicates(rng, case["rows"])
        for nxt in case.get("more") or []:
            if rng.random() < 0.5:
                nxt["rows"] = _duplicates(rng, nxt["rows"])
        case["copies"] = True
    if rng.random() < 0.12 and not (case["op"] == "mask" and case.get("ids") in ("repeat-within-tomogram", "repeat-any-voxel")):
        case["rows"] = _floor_rows(case["rows"])
        for nxt in case.get("more") or []:
            nxt["rows"] = _floor_rows(nxt["rows"])
        case["motl_dtype"] = "int"
    if rng.random() < 0.2:
        case["index_as"] = rng.choice(["gaps", "shuffled", "duplicated"])
    return case


def generate(rng, tier, n):
    for _ in range(n):
        r, acc = rng.random(), 0.0
        for name, g, w in GENS:
            acc += w
            if r < acc or name == "mask":
                yield _table_forms(rng, g(rng, tier))
                break


# =============================================================================== implementation
def _motl_of(rows, scale, dtype="float", index_as=None):
    import numpy as np, pandas as pd
    from cryocat import cryomotl
    data = np.array([[n / scale for n in row] for row in rows], dtype=float).reshape(-1, 20)
    df = pd.DataFrame(data, columns=COLS)
    if dtype == "int" and bool(np.all(data == np.round(data))):
        df = df.astype("int64")
    n = len(df)
    if index_as == "gaps":
        df.index = [3 * k + 2 for k in range(n)]
    elif index_as == "shuffled":
        df.index = [(7 * k + 3) % n for k in range(n)] if n % 7 else list(range(n))[::-1]
    elif index_as == "duplicated":
        df.index = [k // 2 for k in range(n)]
    return cryomotl.Motl(df)


def _cell(v):
    """one returned cell with its python type kept: numbers exactly, anything else as text"""
    import numpy as np
    if isinstance(v, (bool, np.bool_)):
        return ["text", "bool:" + str(v)]
    if isinstance(v, (int, np.integer)):
        return [int(v), 1]
    if isinstance(v, (float, np.floating)):
        v = float(v)
        if math.isnan(v) or math.isinf(v):
            return ["nan", 0]
        f = Fraction(v)
        return [f.numerator, f.denominator]
    return ["text", type(v).__name__ + ":" + str(v)[:40]]


def _obs_table(df):
    """rows of the 20 particle fields as returned (no coercion) + the dtype kind of every column"""
    cols = [df[c].tolist() if c in df.columns else [None] * len(df) for c in COLS]
    rows = [[_cell(col[i]) for col in cols] for i in range(len(df))]
    kinds = [df[c].dtype.kind if c in df.columns else "-" for c in COLS]
    return rows, kinds


def _exc_obs(e):
    """the framework's attribution rule: the innermost frame inside /cryocat/ ('' = raised by the harness or a third-party library
    without cryoCAT on the stack)"""
    import traceback
    where = ""
    for fr in reversed(traceback.extract_tb(e.__traceback__)):
        if "/cryocat/" in fr.filename:
            where = f"{os.path.basename(fr.filename)}:{fr.lineno}"
            break
    return {"error": f"{type(e).__name__}: {str(e)[:300]}", "where": where}


class _Args:
    """the caller-owned arguments of one history: built ONCE, handed to every call, edited in place between calls where the case
    says so, and compared with a private snapshot after every call"""

    def __init__(self, case):
        import numpy as np, pandas as pd
        self.np, self.pd = np, pd
        self.op, self.sc = case["op"], case["scale"]
        self.tmp = None
        op, sc = self.op, self.sc
        if op == "oob":
            arr = np.array([[v / sc for v in d] for d in case["dims"]], dtype=float).reshape(-1, 4)
            form = case.get("dims_as", "ndarray")
            self.form = form
            if form == "ndarray-int" and not bool(np.all(arr == np.round(arr))):
                form = self.form = "ndarray"
            if form == "dataframe":
                self.dims = pd.DataFrame(arr, columns=["tomo_id", "x", "y", "z"])
            elif form == "dataframe-unlabelled":
                self.dims = pd.DataFrame(arr)  # columns 0..3, as `pd.DataFrame(array)` / `read_csv(header=None)` give them
            elif form == "ndarray-int":
                self.dims = arr.astype(int)
            elif form == "file":
                self.tmp = tempfile.mkdtemp(prefix="c09_")
                self.dims = os.path.join(self.tmp, "dims.txt")
                self._write_dims(arr)
            elif form == "list":
                self.dims = arr[0].tolist()
            elif form == "tuple":
                self.dims = tuple(arr[0].tolist())
            elif form == "nested-list":  # the N x 4 table as a list of rows
                self.dims = arr.tolist()
            elif form == "nested-tuple":
                self.dims = tuple(tuple(r) for r in arr.tolist())
            elif form == "ndarray1d":
                self.dims = arr[0].copy()
            else:
                self.dims = arr
        elif op == "trim":
            form = case.get("args_as", "list")
            s, e = [v / sc for v in case["start"]], [v / sc for v in case["end"]]
            if form == "ndarray":
                s, e = np.array(s), np.array(e)
            elif form == "ndarray-int":
                s, e = np.array(s).astype(int), np.array(e).astype(int)
            elif form == "tuple":
                s, e = tuple(s), tuple(e)
            self.start, self.end = s, e
        elif op == "points":
            pa = np.array([[v / sc for v in q] for q in case["pts"]], dtype=float).reshape(-1, 4)
            self.pts = pd.DataFrame(pa, columns=["tomo_id", "x", "y", "z"])
            if case.get("pts_int_dtype") and len(pa) and np.all(pa == np.round(pa)):
                self.pts = self.pts.astype(int)
            self.r = case["r"] / sc
        elif op == "mask":
            self.masks = [self._mask_array(k, case) for k in case["masks"]]
            self.tomos = [v / sc for v in case["tomos"]]
            tas = case.get("tomos_as", "list")
            integral = all(float(t).is_integer() for t in self.tomos)
            if tas == "ndarray":
                self.tomos = np.array(self.tomos)
            elif tas == "ndarray-int" and integral:
                self.tomos = np.array(self.tomos).astype(int)
            elif tas == "tuple":
                self.tomos = tuple(int(t) if integral else t for t in self.tomos)
            elif tas == "int" and len(self.tomos) == 1 and integral:
                self.tomos = int(self.tomos[0])
            elif tas == "file":
                # one tomogram number per line, IN THE ORDER OF THE LIST (the masks are given in that order)
                self.tmp = self.tmp or tempfile.mkdtemp(prefix="c09_")
                path = os.path.join(self.tmp, "tomo_list.txt")
                with open(path, "w") as f:
                    for t in self.tomos:
                        f.write((str(int(t)) if float(t).is_integer() else repr(t)) + "\n")
                self.tomos = path
            if case.get("masks_as") == "files":
                # the masks as MRC files written with mrcfile alone (not with cryomap.write): MRC data is indexed [z, y, x], a voxel
                # (x, y, z) of the mask is data[z, y, x]
                import mrcfile
                self.tmp = self.tmp or tempfile.mkdtemp(prefix="c09_")
                self.mask_paths = [os.path.join(self.tmp, f"mask_{i}.mrc") for i in range(len(self.masks))]
                self._write_masks()
                self.marg = self.mask_paths[0] if case.get("single") else list(self.mask_paths)
            else:
                self.marg = self.masks[0] if case.get("single") else self.masks
        else:
            raise ValueError("unknown op " + str(op))

    def _mask_array(self, k, case):
        np = self.np
        vals = [v / self.sc for v in k["raw"]] if "raw" in k else k["data"]
        dt = {"int8": np.int8, "int64": np.int64}.get(case.get("mask_dtype", "float"), float)
        return np.array(vals, dtype=float if "raw" in k else dt).reshape(k["shape"])

    def _write_masks(self):
        import mrcfile
        np = self.np
        for path, arr in zip(self.mask_paths, self.masks):
            with mrcfile.new(path, overwrite=True) as f:
                f.set_data(np.ascontiguousarray(arr.astype(np.float32).transpose(2, 1, 0)))

    def _write_dims(self, arr):
        with open(self.dims, "w") as f:
            for row in arr.tolist():
                f.write(" ".join(str(int(v)) if float(v).is_integer() else repr(v) for v in row) + "\n")

    def edit(self, nxt, case):
        """the caller's legitimate edits between two calls: same objects, new content"""
        np, sc = self.np, self.sc
        if self.op == "oob" and "dims" in nxt:
            arr = np.array([[v / sc for v in d] for d in nxt["dims"]], dtype=float).reshape(-1, 4)
            if self.form in ("dataframe", "dataframe-unlabelled"):
                self.dims.iloc[:, :] = arr
            elif self.form == "file":
                self._write_dims(arr)
            elif self.form == "list":
                self.dims[:] = arr[0].tolist()
            elif self.form == "tuple":
                self.dims = tuple(arr[0].tolist())  # immutable: the caller builds a new one
            elif self.form == "nested-list":
                self.dims[:] = arr.tolist()
            elif self.form == "nested-tuple":
                self.dims = tuple(tuple(r) for r in arr.tolist())
            elif self.form == "ndarray1d":
                self.dims[:] = arr[0]
            elif self.form == "ndarray-int" and not bool(np.all(arr == np.round(arr))):
                self.dims = arr  # the caller's integer table cannot hold the new extents: a new array
            else:
                self.dims[:, :] = arr
        elif self.op == "trim" and "start" in nxt:
            s, e = [v / sc for v in nxt["start"]], [v / sc for v in nxt["end"]]
            if isinstance(self.start, np.ndarray):
                self.start[:] = s
                self.end[:] = e
            elif isinstance(self.start, list):
                self.start[:] = s
                self.end[:] = e
            else:
                self.start, self.end = tuple(s), tuple(e)
        elif self.op == "points" and "pts" in nxt:
            pa = np.array([[v / sc for v in q] for q in nxt["pts"]], dtype=float).reshape(-1, 4)
            as_int = self.pts.dtypes.iloc[0].kind == "i" and bool(np.all(pa == np.round(pa)))
            for i, c in enumerate(["tomo_id", "x", "y", "z"]):  # the same table object, columns overwritten
                self.pts[c] = pa[:, i].astype(int) if as_int else pa[:, i]
            self.r = nxt["r"] / sc
        elif self.op == "mask" and "masks" in nxt:
            for arr, k in zip(self.masks, nxt["masks"]):
                arr[...] = self._mask_array(k, case)
            if hasattr(self, "mask_paths"):
                self._write_masks()  # the caller rewrites the same files

    def snapshot(self):
        np, pd = self.np, self.pd
        out = {}
        for name in ("dims", "start", "end", "pts", "tomos"):
            if hasattr(self, name):
                v = getattr(self, name)
                if isinstance(v, str):
                    out[name] = ("file", open(v).read())
                elif isinstance(v, pd.DataFrame):
                    out[name] = ("frame", v.copy(deep=True), list(v.columns), [str(t) for t in v.dtypes])
                elif isinstance(v, np.ndarray):
                    out[name] = ("array", v.copy(), str(v.dtype))
                else:
                    out[name] = ("plain", copy.deepcopy(v))
        if hasattr(self, "mask_paths"):
            out["masks"] = ("files", [open(q, "rb").read() for q in self.mask_paths])
        elif hasattr(self, "masks"):
            out["masks"] = ("arrays", [m.copy() for m in self.masks], [str(m.dtype) for m in self.masks])
        return out

    def changed(self, snap):
        """names of the caller-owned arguments whose content / dtype / labels differ from the snapshot"""
        np = self.np
        bad = []
        for name, rec in snap.items():
            v = self.masks if name == "masks" else getattr(self, name)
            kind = rec[0]
            if kind == "file":
                same = open(v).read() == rec[1]
            elif kind == "files":
                same = [open(q, "rb").read() for q in self.mask_paths] == rec[1]
            elif kind == "frame":
                # ioutils.dimensions_load names the columns of an UNLABELLED N x 4 frame in place (tests/test_ioutils.py records this as
                # the behaviour today); that relabelling - and only that - is tolerated and counted (`relabelled`), see ASSUMPTIONS
                cols_ok = list(v.columns) == rec[2]
                if not cols_ok and name == "dims" and rec[2] == list(range(4)) and list(v.columns) == ["tomo_id", "x", "y", "z"]:
                    cols_ok = True
                    self.relabelled = True
                same = cols_ok and [str(t) for t in v.dtypes] == rec[3] and v.shape == rec[1].shape \
                    and bool(np.array_equal(v.to_numpy(), rec[1].to_numpy())) and list(v.index) == list(rec[1].index)
            elif kind == "array":
                same = str(v.dtype) == rec[2] and v.shape == rec[1].shape and bool(np.array_equal(v, rec[1]))
            elif kind == "arrays":
                same = len(v) == len(rec[1]) and all(str(a.dtype) == d and a.shape == b.shape and bool(np.array_equal(a, b))
                                                     for a, b, d in zip(v, rec[1], rec[2]))
            else:
                same = type(v) is type(rec[1]) and v == rec[1]
            if not same:
                bad.append(name)
        return bad

    def call(self, m, case):
        omit = set(case.get("omit") or [])
        op = self.op
        if op == "oob":
            kw = {}
            if "boundary_type" not in omit:
                kw["boundary_type"] = case["bt"]
            if case["box"] is not None:
                kw["box_size"] = case["box"]
            m.remove_out_of_bounds_particles(self.dims, **kw)
            return m
        if op == "trim":
            m.adapt_to_trimming(self.start, self.end)
            return m
        inplace = case.get("inplace", True)
        kw = {} if ("inplace" in omit and inplace) else {"inplace": inplace}
        if op == "points":
            r = m.clean_by_distance_to_points(self.pts, self.r, **kw)
        else:
            r = m.clean_by_tomo_mask(self.tomos, self.marg, **kw)
        return m if inplace else r

    def close(self):
        if self.tmp:
            import shutil
            shutil.rmtree(self.tmp, ignore_errors=True)


def _sub_case(case, k):
    """the k-th call of a history as a single-call case (k = 0: the case itself without its history)"""
    c = {key: v for key, v in case.items() if key != "more"}
    for nxt in (case.get("more") or [])[:k]:
        c.update({key: v for key, v in nxt.items() if key != "rows"})  # edits accumulate: the objects keep their last content
    if k > 0:
        c["rows"] = case["more"][k - 1]["rows"]
    return c


def _n_calls(case):
    return 1 + len(case.get("more") or [])


def run_impl(case):
    args = _Args(case)  # a failure here is the harness's own: it propagates without a cryocat frame
    sink = io.StringIO()
    out = []
    try:
        for k in range(_n_calls(case)):
            sub = _sub_case(case, k)
            if k > 0:
                args.edit(case["more"][k - 1], sub)
            m = _motl_of(sub["rows"], sub["scale"], case.get("motl_dtype", "float"), case.get("index_as"))
            before = m.df.copy(deep=True)
            snap = args.snapshot()
            try:
                with contextlib.redirect_stdout(sink):
                    res = args.call(m, sub)
                rows, kinds = _obs_table(res.df)
                o = dict(rows=rows, kinds=kinds, n_cols=int(res.df.shape[1]))
                if sub["op"] in ("points", "mask") and not sub.get("inplace", True):
                    o["original_changed"] = not (list(m.df.columns) == list(before.columns) and m.df.shape == before.shape
                                                 and bool((m.df.to_numpy() == before.to_numpy()).all()))
            except Exception as e:
                o = _exc_obs(e)
            o["args_changed"] = args.changed(snap)
            if getattr(args, "relabelled", False):
                o["dims_relabelled"] = True
            out.append(o)
    finally:
        args.close()
    obs = dict(out[0])
    if len(out) > 1:
        obs["more"] = out[1:]
    return obs


def _sub_obs(obs, k):
    return obs if k == 0 else (obs.get("more") or [])[k - 1] if k - 1 < len(obs.get("more") or []) else {"error": "HarnessError: no observation of this call", "where": ""}


def _request_of(case):
    q = {k: case[k] for k in ("op", "scale", "rows")}
    op = case["op"]
    if op == "oob":
        q.update(dims=case["dims"], bt=case["bt"])
        if case["box"] is not None:
            q["box"] = case["box"]
    elif op == "trim":
        q.update(start=case["start"], end=case["end"])
    elif op == "points":
        q.update(pts=case["pts"], r=case["r"])
    elif op == "mask":
        q.update(tomos=case["tomos"], masks=case["masks"], single=bool(case.get("single")), from_file=(case.get("tomos_as") == "file"))
    return q


def requests(case, obs):
    return [_request_of(_sub_case(case, k)) for k in range(_n_calls(case))]


# =============================================================================== independent oracle
def _pos(row):
    return [_fr(row[I_X + a]) + _fr(row[I_SX + a]) for a in range(3)]


def _oob_parts(case, row):
    """(has_dims, lower_ok, upper_ok) of one particle, straight from the statement"""
    b = Fraction((case["box"] + 1) // 2) if (case["bt"] == "whole" and case["box"]) else Fraction(0)
    d = next((d for d in case["dims"] if d[0] == row[I_TOMO]), None)
    if d is None:
        return False, False, False
    c = _pos(row)
    return True, all(c[a] - b >= 0 for a in range(3)), all(c[a] + b < _fr(d[1 + a]) for a in range(3))


def _trunc(fr):
    return int(fr) if fr >= 0 else -int(-fr)


def expected(case):
    """the statement of C09 evaluated directly: dict(rows=[wire rows]) or dict(error=kind)"""
    rows, op = case["rows"], case["op"]
    if op == "oob":
        if case["bt"] not in ("center", "whole"):
            return dict(error="reject:boundary-type")
        if case["bt"] == "whole" and not case["box"]:
            return dict(error="reject:box-size")
        parts = [_oob_parts(case, r) for r in rows]
        if not all(p[0] for p in parts):
            return dict(error="reject:no-dimensions")
        return dict(rows=[r for r, p in zip(rows, parts) if p[1] and p[2]])
    if op == "trim":
        s, e = case["start"], case["end"]
        out = []
        for r in rows:
            if all(s[a] <= r[I_X + a] <= e[a] for a in range(3)):
                r2 = list(r)
                for a in range(3):
                    r2[I_X + a] = r[I_X + a] - (s[a] - SCALE)
                out.append(r2)
        return dict(rows=out)
    if op == "points":
        rad = case["r"]
        def near(r):
            c = [r[I_X + a] + r[I_SX + a] for a in range(3)]
            return any(q[0] == r[I_TOMO] and sum((c[a] - q[1 + a]) ** 2 for a in range(3)) <= rad * rad for q in case["pts"])
        return dict(rows=[r for r in rows if not near(r)])  # the statement: the input without the particles near a point
    if op == "mask":
        masks, tomos = case["masks"], case["tomos"]
        if case.get("single"):
            pairs = [(t, masks[0]) for t in tomos]
        elif len(masks) != len(tomos):
            return dict(error="reject:mask-list-length")
        else:
            pairs = list(zip(tomos, masks))
        def hit(r):
            v = [_trunc(c) for c in _pos(r)]
            for t, m in pairs:
                sh = m["shape"]
                if t == r[I_TOMO] and all(0 <= v[a] < sh[a] for a in range(3)) and m["data"][(v[0] * sh[1] + v[1]) * sh[2] + v[2]] == 0:
                    return True
            return False
        return dict(rows=[r for r in rows if not hit(r)])
    raise ValueError(op)


# =============================================================================== judge
def _wire_of_resp(rows):
    """driver rows ([num, den] pairs) -> list of tuples of Fractions"""
    return [tuple(Fraction(c[0], c[1]) for c in r) for r in rows]


def _wire_of_case(rows):
    return [tuple(_fr(c) for c in r) for r in rows]


# the documented refusals: which exception TYPE the code raises when WHICH precondition is violated (never the wording of the message)
DOC_EXC = {"reject:boundary-type": ("UserInputError", None), "reject:box-size": ("UserInputError", None),
           "reject:no-dimensions": ("KeyError", "cryomotl.py"), "reject:mask-list-length": ("ValueError", "cryomotl.py")}


def _exc_type(obs):
    return obs["error"].split(":", 1)[0].strip()


def _impl_kind(obs, want=None):
    """`want` = the refusal the statement (or a model) expects for this input, if any: the implementation's exception counts as that
    refusal when it has the documented TYPE (and, where recorded, is raised from the documented file); any other exception is
    `raises:<Type>`"""
    et = _exc_type(obs)
    if want in DOC_EXC:
        typ, where = DOC_EXC[want]
        if et == typ and (where is None or obs.get("where", "").startswith(where)):
            return want
    return "raises:" + et


def _impl_cell(c):
    if c[0] == "nan":
        return None
    if c[0] == "text":
        return ("text", c[1])
    return Fraction(c[0], c[1])


def _impl_result(obs, want=None):
    if "error" in obs:
        return dict(error=_impl_kind(obs, want))
    return dict(rows=[tuple(_impl_cell(c) for c in r) for r in obs["rows"]])


def _to_wire(row):
    """a row of Fractions -> wire integers, None when a cell is not a grid number"""
    out = []
    for v in row:
        if not isinstance(v, Fraction) or (v * SCALE).denominator != 1:
            return None
        out.append(int(v * SCALE))
    return out


def _k1_rows(case, obs):
    """rows the implementation kept although min(pos - boundary) < 0 while every upper bound holds (class of the open finding
    C09-K1). A kept row counts only when it is, field by field, a row of the input (keyed on the FULL row, so that repeated
    subtomo ids cannot make another row's geometry stand in); evaluated from the single-call case and the observation only."""
    if case.get("op") != "oob" or "rows" not in obs:
        return []
    inputs = {tuple(r) for r in case["rows"]}
    out = []
    for r in _impl_result(obs)["rows"]:
        w = _to_wire(r)
        if w is None or tuple(w) not in inputs:
            continue
        has, lo, up = _oob_parts(case, w)
        if has and (not lo) and up:
            out.append(w)
    return out


def _mask_pairs(case):
    masks, tomos = case["masks"], case["tomos"]
    if case.get("single"):
        return [(t, masks[0]) for t in tomos]
    return list(zip(tomos, masks)) if len(masks) == len(tomos) else None


def _mask_hit(pairs, r):
    v = [_trunc(c) for c in _pos(r)]
    for t, m in pairs:
        sh = m["shape"]
        if t == r[I_TOMO] and all(0 <= v[a] < sh[a] for a in range(3)) and m["data"][(v[0] * sh[1] + v[1]) * sh[2] + v[2]] == 0:
            return True
    return False


def _k2_rows(case, obs):
    """class of the open finding C09-K2: input rows of a clean_by_tomo_mask call that are NOT on a zero voxel of a mask listed for their
    tomogram, MISSING from the result (as full rows, counted with multiplicity), while another input row of the SAME tomogram with the
    SAME subtomo_id is on a zero voxel. From the single-call case and the observation only."""
    if case.get("op") != "mask" or "rows" not in obs:
        return []
    pairs = _mask_pairs(case)
    if pairs is None:
        return []
    got = Counter()
    for r in _impl_result(obs)["rows"]:
        w = _to_wire(r)
        if w is not None:
            got[tuple(w)] += 1
    hit_keys = {(r[I_TOMO], r[I_ID]) for r in case["rows"] if _mask_hit(pairs, r)}
    want = Counter(tuple(r) for r in case["rows"] if not _mask_hit(pairs, r))
    out = []
    for r, n in want.items():
        if got[r] < n and (r[I_TOMO], r[I_ID]) in hit_keys:
            out.append(list(r))
    return out


def _mask_wellformed(case):
    pairs = _mask_pairs(case)
    if pairs is None:
        return True
    hit_keys = {(r[I_TOMO], r[I_ID]) for r in case["rows"] if _mask_hit(pairs, r)}
    return not any((r[I_TOMO], r[I_ID]) in hit_keys and not _mask_hit(pairs, r) for r in case["rows"])


def judge_one(case, obs, resp):
    """findings of ONE call. kind 'spec' only where a clause of the statement fails on the real output: decided against the
    answer `spec` of the Lean driver - the executable statement (oob_spec / trim_spec / cleanPoints_perm / cleanMaskStmt_spec) -
    or by looking at input and output alone (survivor unaltered, caller's arguments untouched). Everything that compares with a
    MODEL of the code ('code', 'model') or with the Python oracle is 'corr'."""
    out = []
    op = case["op"]
    if "error" in resp and "spec" not in resp:
        return [dict(kind="corr", clause="driver-refused-request", detail=str(resp))]
    if "error" in obs and not obs.get("where"):
        # no frame of /cryocat/ on the traceback: the harness or a library failed, cryoCAT was not even running (G4)
        return [dict(kind="corr", clause="harness-or-library-raised", detail=f"{op}: {obs['error']}")]
    def norm(r):
        return dict(error=r["error"]) if "error" in r else dict(rows=_wire_of_resp(r["rows"]))

    spec, code = norm(resp["spec"]), norm(resp["code"])
    impl = _impl_result(obs, spec.get("error"))
    exp = expected(case)
    exp_n = dict(error=exp["error"]) if "error" in exp else dict(rows=_wire_of_case(exp["rows"]))
    if exp_n != spec:
        out.append(dict(kind="corr", clause="lean-spec-vs-python-oracle", detail=f"{op}: the Lean verdict and the direct evaluation of the statement differ"))
    if "model" in resp and (norm(resp["model"]) != spec) == (op != "mask" or _mask_wellformed(case)):
        # cleanMask_spec_iff: the documented code model and the statement agree EXACTLY on the MaskWellFormed lists
        out.append(dict(kind="corr", clause="lean-model-vs-statement", detail=f"{op}: the documented code model and the statement " +
                        ("differ on a well-formed list" if norm(resp["model"]) != spec else "agree on a list that is not well-formed") + " (cleanMask_spec_iff says otherwise)"))
    spec_clauses = []
    # the statement is silent about the caller's arguments and about inplace=False: deviations there are correspondence findings
    if obs.get("args_changed"):
        out.append(dict(kind="corr", clause="caller-argument-modified", detail=f"{op}: the call changed the caller's own argument(s) {obs['args_changed']} (content, dtype or labels)"))
    if obs.get("original_changed"):
        out.append(dict(kind="corr", clause=f"{op}-original-altered", detail=f"{op}: inplace=False but the list the method was called on changed"))
    if "error" in spec or "error" in impl:
        if spec != impl:
            if "error" in impl and "rows" in spec:
                spec_clauses.append(("raises-on-valid-input", f"{op}: {impl['error']} ({obs['error'][:160]} at {obs.get('where')}) where the property demands {len(spec['rows'])} survivors"))
            else:
                out.append(dict(kind="corr", clause="rejection-differs", detail=f"{op}: implementation {('returned %d rows' % len(impl['rows'])) if 'rows' in impl else impl['error']}, model {spec.get('error')}"))
    else:
        kinds = obs.get("kinds") or []
        texty = [COLS[k] for k, kd in enumerate(kinds) if kd not in "iufb-"] + sorted({COLS[k] for r in impl["rows"] for k, c in enumerate(r) if isinstance(c, tuple)})
        if texty:
            spec_clauses.append((f"{op}-survivor-altered", f"numeric field(s) {sorted(set(texty))} come back as text/object (column dtype kinds {''.join(kinds)})"))
        elif case.get("motl_dtype", "float") == "float" and any(kd != "f" for kd in kinds):
            out.append(dict(kind="corr", clause="dtype-changed", detail=f"{op}: float64 columns went in, column dtype kinds {''.join(kinds)} came out"))
        if obs.get("n_cols") != 20:
            spec_clauses.append((f"{op}-survivor-altered", f"result has {obs.get('n_cols')} columns"))
    def by_tomo(rows):
        g = {}
        for r in rows:
            g.setdefault(r[I_TOMO], []).append(r)
        return g

    # points: the statement (and cleanPoints_perm) fix the survivors up to a permutation; what the model of the code adds
    # (cleanPoints_tomogram_order) is the order INSIDE every tomogram - the order of the tomogram groups is nobody's claim
    same = (lambda a, b: by_tomo(a) == by_tomo(b)) if op == "points" else (lambda a, b: a == b)
    if "rows" in spec and "rows" in impl and not same(impl["rows"], spec["rows"]):
        inputs = _wire_of_case(case["rows"])
        off = [Fraction(0)] * 3
        if op == "trim":
            off = [_fr(case["start"][a]) - 1 for a in range(3)]

        def documented(r):
            r2 = list(r)
            for a in range(3):
                r2[I_X + a] = r[I_X + a] - off[a]
            return tuple(r2)

        # everything is keyed on the FULL row (a subtomo id may occur any number of times)
        c_in = Counter(documented(r) for r in inputs)
        c_impl, c_spec = Counter(impl["rows"]), Counter(spec["rows"])
        altered = [r for r in c_impl if r not in c_in]
        multiplied = [r for r in c_impl if r in c_in and c_impl[r] > c_in[r]]
        kept_wrong = [r for r in c_impl if r in c_in and c_impl[r] > c_spec[r] and r not in multiplied]
        removed_wrong = [r for r in c_spec if c_spec[r] > c_impl[r]]
        if altered:  # an altered survivor is reported once, not again as "its original is missing"
            gone = {(a[I_TOMO], a[I_ID]) for a in altered}
            removed_wrong = [r for r in removed_wrong if (r[I_TOMO], r[I_ID]) not in gone]
            a0 = altered[0]
            near = [r for r in c_in if (r[I_TOMO], r[I_ID]) == (a0[I_TOMO], a0[I_ID])]
            diff = [COLS[k] for k in range(20) if near and near[0][k] != a0[k]]
            spec_clauses.append((f"{op}-survivor-altered", f"{len(altered)} survivor(s) are no input row (beyond the documented offset), e.g. subtomo_id {a0[I_ID]} of tomogram {a0[I_TOMO]}, fields {diff}"))
        if multiplied:
            spec_clauses.append((f"{op}-survivor-altered", f"{len(multiplied)} row(s) occur more often in the result than in the input, e.g. subtomo_id {multiplied[0][I_ID]}"))
        if op == "oob":
            k1_set = {tuple(_fr(v) for v in w) for w in _k1_rows(case, obs)}
            k1 = [r for r in kept_wrong if r in k1_set]
            kept_wrong = [r for r in kept_wrong if r not in k1_set]
            if k1:
                spec_clauses.append(("oob-lower-face-kept", f"{len(k1)} particle(s) kept although min(pos - boundary) < 0 (upper bounds hold), e.g. subtomo_id {k1[0][I_ID]} of tomogram {k1[0][I_TOMO]}"))
        k2 = []
        if op == "mask":
            k2_set = {tuple(_fr(v) for v in w) for w in _k2_rows(case, obs)}
            k2 = [r for r in removed_wrong if r in k2_set]
            removed_wrong = [r for r in removed_wrong if r not in k2_set]
            if k2:
                spec_clauses.append(("mask-same-id-removed", f"{len(k2)} particle(s) on non-zero voxels removed because another particle of the same tomogram with the same subtomo_id sits on a zero voxel, e.g. subtomo_id {k2[0][I_ID]} of tomogram {k2[0][I_TOMO]}"))
        if kept_wrong:
            spec_clauses.append((f"{op}-keeps-outside", f"{len(kept_wrong)} particle(s) kept that the property removes, e.g. subtomo_id {kept_wrong[0][I_ID]} of tomogram {kept_wrong[0][I_TOMO]}"))
        if removed_wrong:
            spec_clauses.append((f"{op}-removes-inside", f"{len(removed_wrong)} particle(s) removed that the property keeps, e.g. subtomo_id {removed_wrong[0][I_ID]} of tomogram {removed_wrong[0][I_TOMO]}"))
        if not (altered or multiplied or kept_wrong or removed_wrong or (op == "oob" and k1) or k2):
            out.append(dict(kind="corr", clause="order-or-multiplicity", detail=f"{op}: same particles, different order" + (" inside a tomogram" if op == "points" else "") + " than the model"))
    for cl, det in spec_clauses:
        out.append(dict(kind="spec", clause=cl, detail=det))
    # correspondence with the model of the code as it is today
    only_k1 = all(c in ("oob-lower-face-kept", "mask-same-id-removed") for c, _ in spec_clauses)
    impl_c = _impl_result(obs, code.get("error"))
    if only_k1 and not (same(impl_c["rows"], code["rows"]) if ("rows" in impl_c and "rows" in code) else impl_c == code):
        impl = impl_c
        what = "rows" if ("rows" in impl and "rows" in code) else f"{impl.get('error')} vs {code.get('error')}"
        if not any(f["kind"] == "corr" for f in out):
            out.append(dict(kind="corr", clause=f"{op}-impl-vs-code-model", detail=f"{op}: implementation and the model of today's source differ ({what})"))
    return out


def _call_of_clause(clause):
    m = re.search(r"@call(\d+)$", clause or "")
    return (int(m.group(1)) - 1) if m else 0


def judge(case, obs, resps):
    """every call of a history is judged as strictly as a single call; findings of later calls carry `@call<k>`"""
    out = []
    n = _n_calls(case)
    if len(resps) != n:
        return [dict(kind="corr", clause="driver-refused-request", detail=f"{len(resps)} answers for {n} calls")]
    for k in range(n):
        for f in judge_one(_sub_case(case, k), _sub_obs(obs, k), resps[k]):
            if k > 0:
                f = dict(f, clause=f"{f['clause']}@call{k + 1}", detail=f"call {k + 1} of a history re-using the caller's arguments: {f['detail']}")
            out.append(f)
    return out


def classify(case, obs, finding):
    cl = finding.get("clause") or ""
    k = _call_of_clause(cl)
    if finding.get("kind") == "spec" and cl.split("@")[0] == "oob-lower-face-kept" and k < _n_calls(case) \
            and _k1_rows(_sub_case(case, k), _sub_obs(obs, k)):
        return "C09-K1"
    if finding.get("kind") == "spec" and cl.split("@")[0] == "mask-same-id-removed" and k < _n_calls(case) \
            and _k2_rows(_sub_case(case, k), _sub_obs(obs, k)):
        return "C09-K2"
    return None


# =============================================================================== evidence helpers
def _case_kinds(case):
    """which face situations occur in the case (for the non-triviality rule)"""
    op = case["op"]
    tags = set()
    if op == "oob" and case["bt"] in ("center", "whole") and not (case["bt"] == "whole" and not case["box"]):
        b = Fraction((case["box"] + 1) // 2) if case["bt"] == "whole" else Fraction(0)
        for r in case["rows"]:
            d = next((d for d in case["dims"] if d[0] == r[I_TOMO]), None)
            if d is None:
                continue
            c = _pos(r)
            for a in range(3):
                lo, hi = c[a] - b, _fr(d[1 + a]) - (c[a] + b)
                if lo == 0: tags.add("on-lower-face")
                if -1 <= lo < 0: tags.add("just-below-lower")
                if lo < -1: tags.add("far-below-lower")
                if hi == 0: tags.add("on-upper-face")
                if 0 < hi <= 1: tags.add("just-inside-upper")
                if hi < 0: tags.add("beyond-upper")
    elif op == "trim":
        for r in case["rows"]:
            for a in range(3):
                x = r[I_X + a]
                if x == case["start"][a]: tags.add("on-start")
                if x == case["end"][a]: tags.add("on-end")
                if 0 < case["start"][a] - x <= SCALE: tags.add("just-below-start")
                if 0 < x - case["end"][a] <= SCALE: tags.add("just-above-end")
    elif op == "points":
        rad = case["r"]
        for r in case["rows"]:
            c = [r[I_X + a] + r[I_SX + a] for a in range(3)]
            for q in case["pts"]:
                d2 = sum((c[a] - q[1 + a]) ** 2 for a in range(3))
                if q[0] == r[I_TOMO]:
                    if d2 == rad * rad: tags.add("tie")
                    elif d2 < rad * rad: tags.add("inside-ball")
                elif d2 <= rad * rad:
                    tags.add("in-ball-of-foreign-point")
    elif op == "mask" and (case.get("single") or len(case["masks"]) == len(case["tomos"])):
        listed = set(case["tomos"])
        for r in case["rows"]:
            if r[I_TOMO] not in listed:
                tags.add("unlisted-tomogram"); continue
            i = case["tomos"].index(r[I_TOMO])
            sh = case["masks"][0 if case.get("single") else i]["shape"]
            c = _pos(r)
            for a in range(3):
                if -1 < c[a] < 0: tags.add("in(-1,0)")
                if c[a] <= -1: tags.add("negative-index")
                if c[a] == sh[a]: tags.add("on-shape")
                if sh[a] - 1 < c[a] < sh[a]: tags.add("last-voxel")
                if c[a] > sh[a]: tags.add("beyond-shape")
    return tags


def nontrivial(case, obs):
    exp = expected(case)
    if "error" in exp:
        return False
    if not (0 < len(exp["rows"]) < len(case["rows"])):
        return False
    tags = _case_kinds(case)
    if case["op"] == "points":
        return bool(tags & {"tie", "in-ball-of-foreign-point"}) or "inside-ball" in tags
    return bool(tags)


def stats(case, obs, resps):
    op = case["op"]
    exp = expected(case)
    n = len(case["rows"])
    st = {"op": op, "variant": f"{op}:{case.get('variant', 'plain')}",
          "N": "1-3" if n <= 3 else ("4-25" if n <= 25 else ("26-60" if n <= 60 else ">60")),
          "tomograms": len({r[I_TOMO] for r in case["rows"]}),
          "situations": [f"{op}:{t}" for t in sorted(_case_kinds(case))] or [f"{op}:none"]}
    if "error" in exp:
        st["outcome"] = f"{op}:{exp['error']}"
    else:
        k = len(exp["rows"])
        st["outcome"] = f"{op}:" + ("all kept" if k == n else ("none kept" if k == 0 else "some kept"))
    if op == "oob":
        st["boundary"] = case["bt"] if case["bt"] in ("center", "whole") else "other"
        if case["bt"] == "whole" and case["box"]:
            st["box"] = "1-8" if case["box"] <= 8 else ("9-32" if case["box"] <= 32 else ("33-64" if case["box"] <= 64 else ("65-128" if case["box"] <= 128 else "129-260")))
            st["largest dimension"] = (lambda d: "<=128" if d <= 128 else ("129-1024" if d <= 1024 else "1025-4200"))(max([max(d[1:]) for d in case["dims"]] or [0]) / SCALE)
        st["K1-class particles"] = "yes" if _k1_rows(case, obs) else "no"
        st["largest tomogram number"] = (lambda t: "<=204" if t <= 204 else ("<2^24" if t < 2 ** 24 else ">=2^24"))(max([r[I_TOMO] for r in case["rows"]] or [0]) // SCALE)
        st["box mod 4"] = str(case["box"] % 4) if (case["bt"] == "whole" and case["box"]) else "-"
        st["dims handed over as"] = case.get("dims_as", "ndarray")
        d = [x[0] for x in case["dims"]]
        st["dims table"] = "sorted" if d == sorted(d) else "unsorted"
    if op == "trim":
        st["trim box handed over as"] = case.get("args_as", "list")
    if op == "mask":
        st["K2-class particles"] = "yes" if _k2_rows(case, obs) else "no"
        st["mask list well-formed (cleanMask_spec_iff)"] = str(_mask_wellformed(case))
        st["largest listed tomogram number"] = (lambda t: "<=204" if t <= 204 else ("<2^24" if t < 2 ** 24 else ">=2^24"))(max(case["tomos"] or [0]) // SCALE) + \
            (" in a file" if case.get("tomos_as") == "file" else "")
        st["mask form"] = ("single " if case.get("single") else "list of ") + case.get("masks_as", "arrays")
        st["tomogram list handed over as"] = case.get("tomos_as", "list") + (" (unsorted)" if case["tomos"] != sorted(case["tomos"]) else "")
        st["mask axis lengths"] = "three distinct" if any(len(set(m["shape"])) == 3 for m in case["masks"]) else "some equal"
        st["mask values"] = "around-threshold" if any("raw" in m for m in case["masks"]) else "0/1 " + case.get("mask_dtype", "float")
    if op in ("mask", "points"):
        st["inplace"] = str(bool(case.get("inplace", True)))
    keys = [(r[I_TOMO], r[I_ID]) for r in case["rows"]]
    ids = [r[I_ID] for r in case["rows"]]
    st["subtomo ids"] = f"{op}:" + ("repeat inside a tomogram" if len(set(keys)) < len(keys) else
                                    ("repeat across tomograms" if len(set(ids)) < len(ids) else "unique"))
    st["particle table"] = f"{op}:" + case.get("motl_dtype", "float") + "64, row labels " + case.get("index_as", "0..n-1")
    if obs.get("dims_relabelled"):
        st["dims frame relabelled in place"] = "yes"
    st["verbatim / re-picked copies of rows"] = f"{op}:" + ("yes" if len({tuple(r[3:13]) for r in case["rows"]}) < len(case["rows"]) else "no")
    st["calls in the history"] = f"{op}:{_n_calls(case)}"
    if case.get("more"):
        st["edited between calls"] = [f"{op}:{k}" for nxt in case["more"] for k in nxt if k != "rows"] or [f"{op}:nothing (same arguments)"]
    st["default keywords"] = f"{op}:" + ("omitted " + ",".join(case["omit"]) if case.get("omit") else
                                         ("n/a" if op == "trim" else "passed explicitly"))
    if "error" in obs:
        st["impl error"] = _impl_kind(obs, exp.get("error"))[:60]
    if "kinds" in obs:
        st["returned dtype kinds"] = "".join(sorted(set(obs["kinds"])))
    return st


def shrink(case):
    rows = case["rows"]
    n = len(rows)
    more = case.get("more") or []
    if more:
        yield {k: v for k, v in case.items() if k != "more"}  # the first call alone
        for k in range(len(more)):
            if len(more) > 1:
                yield dict(case, more=more[:k] + more[k + 1:])
            mr = more[k]["rows"]
            if len(mr) > 1:
                yield dict(case, more=more[:k] + [dict(more[k], rows=mr[: len(mr) // 2])] + more[k + 1:])
                yield dict(case, more=more[:k] + [dict(more[k], rows=mr[len(mr) // 2:])] + more[k + 1:])
                for j in range(min(len(mr), 8)):
                    yield dict(case, more=more[:k] + [dict(more[k], rows=mr[:j] + mr[j + 1:])] + more[k + 1:])
            edits = [key for key in more[k] if key != "rows"]
            if edits:
                yield dict(case, more=more[:k] + [dict(rows=mr)] + more[k + 1:])
        if n > 1:
            yield dict(case, rows=rows[:1])
    if case.get("omit"):
        yield {k: v for k, v in case.items() if k != "omit"}
    if n > 1:
        yield dict(case, rows=rows[: n // 2])
        yield dict(case, rows=rows[n // 2:])
        for k in range(min(n, 12)):
            yield dict(case, rows=rows[:k] + rows[k + 1:])
    op = case["op"]
    if op == "points" and len(case["pts"]) > 1:
        for k in range(len(case["pts"])):
            yield dict(case, pts=case["pts"][:k] + case["pts"][k + 1:])
    if op == "oob":
        used = {r[I_TOMO] for r in rows}
        d2 = [d for d in case["dims"] if d[0] in used]
        if 0 < len(d2) < len(case["dims"]):
            yield dict(case, dims=d2)
    if op == "mask" and not case.get("single") and len(case["tomos"]) > 1 and len(case["tomos"]) == len(case["masks"]):
        for k in range(len(case["tomos"])):
            yield dict(case, tomos=case["tomos"][:k] + case["tomos"][k + 1:], masks=case["masks"][:k] + case["masks"][k + 1:])
    # plain filler values
    simple = []
    for r in rows:
        r2 = [0] * 20
        for k in (I_ID, I_TOMO, I_X, I_X + 1, I_X + 2, I_SX, I_SX + 1, I_SX + 2):
            r2[k] = r[k]
        simple.append(r2)
    if simple != rows:
        yield dict(case, rows=simple)
    # zero shifts (keeping the complete position)
    if op != "trim":
        z = []
        for r in rows:
            r2 = list(r)
            for a in range(3):
                r2[I_X + a] = r[I_X + a] + r[I_SX + a]
                r2[I_SX + a] = 0
            z.append(r2)
        if z != rows:
            yield dict(case, rows=z)


def sample_view(case):
    v = {k: case[k] for k in case if k not in ("rows", "masks", "more")}
    if case.get("more"):
        v["later_calls(same caller-owned arguments)"] = [dict(n_rows=len(nx["rows"]), edited=[k for k in nx if k != "rows"]) for nx in case["more"]]
    v["n_rows"] = len(case["rows"])
    v["first_rows(x,y,z,shift,tomo,id)"] = [[r[I_X] / SCALE, r[I_X + 1] / SCALE, r[I_X + 2] / SCALE, r[I_SX] / SCALE, r[I_SX + 1] / SCALE,
                                             r[I_SX + 2] / SCALE, r[I_TOMO] / SCALE, r[I_ID] / SCALE] for r in case["rows"][:4]]
    if "masks" in case:
        v["mask_shapes"] = [m["shape"] for m in case["masks"]]
    for k in ("dims", "pts"):
        if k in v:
            v[k] = [[c / SCALE for c in d] for d in v[k][:6]]
    return v


# =============================================================================== probes of the library assumptions
def probes(rng):
    import numpy as np
    from scipy.spatial import KDTree
    out = []
    # KD-tree ball query = brute-force closed ball, on the grid, with exact ties
    bad = 0
    ties = 0
    for _ in range(40):
        n = rng.randint(1, 80)
        g = rng.choice([1, 2, 4])
        P = np.array([[rng.randint(0, 16 * g) / g for _ in range(3)] for _ in range(n)])
        tree = KDTree(P)
        for _ in range(5):
            tr = rng.choice(TRIPLES)
            k = rng.randint(1, 6) / 4
            base = P[rng.randrange(n)]
            q = base + np.array(tr) * k
            r = NORMS[tr] * k
            got = sorted(tree.query_ball_point(q, r=r))
            d2 = ((P - q) ** 2).sum(axis=1)
            want = sorted(np.nonzero(d2 <= r * r)[0].tolist())
            ties += int((d2 == r * r).sum())
            bad += got != want
    out.append(dict(name="scipy KDTree.query_ball_point = brute-force closed ball (incl. exact ties)", ok=bad == 0,
                    detail=f"200 queries, {ties} exact ties, {bad} disagreements"))
    P = np.array([[0.0, 0, 0], [1, 0, 0], [3, 0, 0], [0, 2, 0]])
    tree = KDTree(P)
    neg = all(sorted(tree.query_ball_point([0, 0, 0], r=-r)) == sorted(tree.query_ball_point([0, 0, 0], r=r)) for r in (0.5, 1.0, 2.0, 2.5, 3.0))
    out.append(dict(name="scipy KDTree.query_ball_point with a negative radius selects what |r| selects (inBall_neg)", ok=neg, detail="r in {0.5, 1, 2, 2.5, 3}"))
    xs = [-2.5, -1.0, -0.75, -0.0009765625, 0.0, 0.25, 0.9990234375, 1.0, 7.75]
    got = np.array(xs).astype(int).tolist()
    out.append(dict(name="numpy astype(int) truncates toward zero", ok=got == [_trunc(Fraction(x)) for x in xs], detail=str(got)))
    import pandas as pd
    u = pd.Series([3.0, 1.0, 3.0, 2.0, 1.0]).unique().tolist()
    out.append(dict(name="pandas Series.unique keeps first-appearance order", ok=u == [3.0, 1.0, 2.0], detail=str(u)))
    return out


LEVEL_TEXT = ("Lean 4 theorems about an executable model of the four spatial filters, for all particle lists, all dimension tables, all trim boxes, "
              "all point sets/radii, all masks and every form of the tomogram list (oob_spec, oob_rejects_iff, oob_partial, oob_counterexample, trim_spec, trim_survivor, "
              "trim_complete, cleanPointsStmt_spec, cleanPoints_perm_stmt, cleanPoints_tomogram_order_stmt, inBall_iff_dist_le, cleanMaskStmt_spec, cleanMask_spec_iff, "
              "cleanMask_spec, cleanMask_eq_stmt, cleanMaskArgCode_eq, cleanMaskArgCode_spec, pairMasks_perTomo_getElem, cleanMask_sorted_file_counterexample, "
              "voxel_truncation_convention); the model is tied to the source by regenerated comparison operators/constants, signature defaults and body skeletons that "
              "ignore the spelling of locals, type annotations and the wording of messages (Gen/C09.lean; the *_documented equalities are translator anchors, not clauses) "
              "and by an exact differential run of the real functions against the executable statement at Rat")
LEVEL_NOTE = ("trusted: Lean kernel; translator anchors; dyadic-grid exactness of numpy floats; scipy KDTree ball query = brute force (probed); "
              "numpy astype(int) = truncation (probed); pandas selection semantics; mrcfile axis order. Open finding C09-K1 (lower faces never tested) is modelled by oobAsIs. "
              "Mask filter: the code drops rows by (tomo_id, subtomo_id), so the statement holds exactly on lists where rows of one tomogram sharing an id "
              "share their voxel status (cleanMask_spec_iff).")
TECHNIQUE = "Lean 4 proof (filter/fold/flatMap/permutation lemmas, ordered-field algebra) + regenerated operators, defaults and body skeletons + exact differential correspondence at Rat incl. multi-call histories"
DESIGN_REF = "DESIGN.md section 4, C09"
