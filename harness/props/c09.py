"""C09 — spatial filters keep exactly the particles that lie inside (DESIGN.md section 4, C09).

Four functions of cryocat/cryomotl.py are exercised through the public API and compared with the Lean
model `CryoCat.C09` (oob / trim / cleanPoints / cleanMask) executed by the driver at `Rat`:
remove_out_of_bounds_particles, adapt_to_trimming, clean_by_distance_to_points, clean_by_tomo_mask.
All numbers are dyadic (multiples of 1/1024, small magnitude), so numpy's float arithmetic is exact
and every comparison is decided exactly on both sides.
"""
import os, io, ast, math, contextlib
from fractions import Fraction
import core

PROP = "C09"
COUNT = {"quick": 400, "thorough": 8000, "search": 3000}
PARALLEL = True
SCALE = 1024
COLS = ["score", "geom1", "geom2", "subtomo_id", "tomo_id", "object_id", "subtomo_mean", "x", "y", "z",
        "shift_x", "shift_y", "shift_z", "geom3", "geom4", "geom5", "phi", "psi", "theta", "class"]
I_ID, I_TOMO, I_X, I_SX = 3, 4, 7, 10
RULE = ("one case = one call of one filter on a particle list of 1..60 rows (thorough: up to 400) over 1..4 tomograms. "
        "oob: per-tomogram dimensions (different per tomogram, extra/duplicate/missing rows), boundary 'center'/'whole' with box 1..64 "
        "(plus refused calls: unknown type, box missing/0), every axis of every particle drawn from {deep inside, exactly on the lower face, "
        "just below it (1, 1/2, 1/1024), negative, 0, just below / exactly on / just beyond the upper face, far beyond}, non-zero shifts; "
        "trim: integer trim boxes, x,y,z on / next to both faces, shifts that must be ignored; "
        "points: 0..8 reference points in own/foreign tomograms, radii >= 0 incl. 0 and exact ties (3-4-5 triples on a 1/4 grid); "
        "mask: per-tomogram binary masks of different small shapes (or one shared mask), listed/unlisted/foreign tomograms, positions with "
        "fractional parts in (-1,0), on 0, on shape-1/4, on shape, beyond; unique subtomo ids. "
        "non-trivial = the expected result both keeps and removes a particle and the case contains a particle on or next to a face "
        "(oob/trim/mask) resp. a tie or a foreign-tomogram point (points); distinct = distinct (op, inputs) content")
ASSUMPTIONS = [
    "numpy float64 +,-,*,<,<= on dyadic inputs of magnitude < 2^10 with 10 fractional bits are exact = Rat arithmetic of the model (all outputs compared exactly)",
    "scipy.spatial.KDTree.query_ball_point(p, r) = brute-force closed ball {q : |q-p|^2 <= r^2} (probed every run against brute force incl. exact ties)",
    "numpy astype(int) of a float = truncation toward zero (probed)",
    "pandas: boolean-mask selection and iloc keep row order; Series.unique() lists values in order of first appearance; concat keeps order",
    "well-formedness of the mask filter: subtomo_id is unique within the list (the code removes BY subtomo_id; theorem cleanMask_spec has exactly this hypothesis)",
]
TRUSTED = ["harness/props/c09.py Python oracle used only to cross-check the Lean verdict and to classify finding C09-K1"]


# =============================================================================== translator
REL = "cryocat/cryomotl.py"
CMP = {ast.Lt: "lt", ast.LtE: "le", ast.Gt: "gt", ast.GtE: "ge", ast.Eq: "eq", ast.NotEq: "ne"}


def _cmp(node):
    if not (isinstance(node, ast.Compare) and len(node.ops) == 1 and type(node.ops[0]) in CMP):
        raise core.AnchorMissing("not a simple comparison: " + ast.unparse(node)[:80])
    return CMP[type(node.ops[0])]


def _num(node):
    if isinstance(node, ast.Constant) and isinstance(node.value, (int, float)) and not isinstance(node.value, bool):
        return node.value
    raise core.AnchorMissing("not a number: " + ast.unparse(node)[:60])


def _same(xs, what):
    if len(set(xs)) != 1:
        raise core.AnchorMissing(f"{what}: axes use different operators/constants {xs}")
    return xs[0]


def translate(src):
    A = src.anchor
    nrm = core.norm_expr

    def oob_fn():
        return src.find(REL, "Motl.remove_out_of_bounds_particles")

    def oob_test():
        for n in ast.walk(oob_fn()):
            if isinstance(n, ast.If) and isinstance(n.test, ast.BoolOp) and isinstance(n.test.op, ast.And) and "c_max" in ast.unparse(n.test):
                return n.test
        raise core.AnchorMissing("remove_out_of_bounds_particles: `if (lower) and (c_max[0] < ...) and ...` not found")

    def oob_lower():
        conj = [v for v in oob_test().values if "c_min" in ast.unparse(v)]
        if len(conj) == 1:
            v = conj[0]
            txt = nrm(v)
            if isinstance(v, ast.Compare) and isinstance(v.left, ast.Call) and nrm(v.left) == "all(c_min)" and _num(v.comparators[0]) == 0:
                if _cmp(v) == "ge":
                    return ".vacuousAll"  # bool >= 0 is constantly true
                raise core.AnchorMissing("lower test of unknown form: " + txt)
            if isinstance(v, ast.Call) and isinstance(v.func, ast.Name) and v.func.id == "all" and len(v.args) == 1 \
                    and isinstance(v.args[0], ast.GeneratorExp) and nrm(v.args[0].generators[0].iter) == "c_min" \
                    and not v.args[0].generators[0].ifs:
                c = v.args[0].elt
                tgt = nrm(v.args[0].generators[0].target)
                if isinstance(c, ast.Compare) and nrm(c.left) == tgt and _num(c.comparators[0]) == 0:
                    return f"(.elementwise .{_cmp(c)})"
            if isinstance(v, ast.Compare) and nrm(v.left) == "min(c_min)" and _num(v.comparators[0]) == 0 and _cmp(v) in ("ge", "gt"):
                return f"(.elementwise .{_cmp(v)})"
            raise core.AnchorMissing("lower test of unknown form: " + txt)
        if len(conj) == 3:  # c_min[0] >= 0 and c_min[1] >= 0 and c_min[2] >= 0
            ops = []
            for i, v in enumerate(conj):
                if not (isinstance(v, ast.Compare) and nrm(v.left) == f"c_min[{i}]" and _num(v.comparators[0]) == 0):
                    raise core.AnchorMissing("lower test of unknown form: " + nrm(v))
                ops.append(_cmp(v))
            return f"(.elementwise .{_same(ops, 'lower test')})"
        raise core.AnchorMissing("remove_out_of_bounds_particles: no recognisable lower-face test")

    def oob_upper():
        conj = sorted((v for v in oob_test().values if "c_max" in ast.unparse(v)), key=lambda n: (n.lineno, n.col_offset))
        if len(conj) != 3:
            raise core.AnchorMissing(f"expected three upper-face conjuncts, found {len(conj)}")
        ops = []
        for i, (v, ax) in enumerate(zip(conj, "xyz")):
            if not (isinstance(v, ast.Compare) and nrm(v.left) == f"c_max[{i}]" and nrm(v.comparators[0]) == f"tomo_dim['{ax}'][0]"):
                raise core.AnchorMissing(f"upper conjunct {i} is `{nrm(v)}`, expected c_max[{i}] <op> tomo_dim['{ax}'][0]")
            ops.append(_cmp(v))
        return _same(ops, "upper test")

    def oob_minmax():
        got = {}
        for n in ast.walk(oob_fn()):
            if isinstance(n, ast.Assign) and isinstance(n.targets[0], ast.Name) and n.targets[0].id in ("c_min", "c_max"):
                got[n.targets[0].id] = nrm(n.value)
        want = {"c_min": "[c-boundaryforcinrow['x':'z']]", "c_max": "[c+boundaryforcinrow['x':'z']]"}
        if got != want:
            raise core.AnchorMissing(f"c_min/c_max are {got}")
        return "c-boundary / c+boundary over row['x':'z']"

    def oob_boundary():
        vals = [nrm(n.value) for n in ast.walk(oob_fn()) if isinstance(n, ast.Assign) and nrm(n.targets[0]) == "boundary"]
        if len(vals) != 2 or vals[1] != "0":
            raise core.AnchorMissing(f"boundary assignments are {vals}")
        table = {"ceil(box_size/2)": ("ceil", 2), "math.ceil(box_size/2)": ("ceil", 2), "np.ceil(box_size/2)": ("ceil", 2),
                 "floor(box_size/2)": ("floor", 2), "box_size//2": ("floor", 2), "int(box_size/2)": ("floor", 2)}
        if vals[0] not in table:
            raise core.AnchorMissing(f"boundary for 'whole' is `{vals[0]}`")
        return list(table[vals[0]])

    def oob_types():
        tests = [nrm(n.test) for n in ast.walk(oob_fn()) if isinstance(n, ast.If) and "boundary_type" in ast.unparse(n.test)]
        if tests != ["boundary_type=='whole'", "boundary_type=='center'"]:
            raise core.AnchorMissing(f"boundary type tests are {tests}")
        return tests

    def oob_coords():
        txt = nrm(oob_fn())
        if "recentered=self.get_coordinates()" not in txt:
            raise core.AnchorMissing("remove_out_of_bounds_particles does not use self.get_coordinates()")
        return "recentered=self.get_coordinates()"

    lower = A("oob:lower-face test", oob_lower)
    upper = A("oob:upper-face operator", oob_upper)
    A("oob:c_min/c_max", oob_minmax)
    bnd = A("oob:boundary=ceil(box_size/2)", oob_boundary)
    A("oob:boundary types", oob_types)
    A("oob:uses complete position", oob_coords)

    # ---- adapt_to_trimming
    def trim_fn():
        return src.find(REL, "Motl.adapt_to_trimming")

    def trim_offset():
        for n in ast.walk(trim_fn()):
            if isinstance(n, ast.Assign) and nrm(n.targets[0]) == "trimvol_coord":
                v = n.value
                if isinstance(v, ast.BinOp) and isinstance(v.op, ast.Sub) and nrm(v.left) == "np.asarray(trim_coord_start)":
                    k = _num(v.right)
                    if k == int(k) and k >= 0:
                        return int(k)
                raise core.AnchorMissing("trimvol_coord is `" + nrm(v) + "`")
        raise core.AnchorMissing("trimvol_coord assignment not found")

    def trim_tdim():
        for n in ast.walk(trim_fn()):
            if isinstance(n, ast.Assign) and nrm(n.targets[0]) == "tdim":
                if nrm(n.value) == "np.asarray(trim_coord_end)-trimvol_coord":
                    return nrm(n.value)
                raise core.AnchorMissing("tdim is `" + nrm(n.value) + "`")
        raise core.AnchorMissing("tdim assignment not found")

    def trim_shift():
        for n in ast.walk(trim_fn()):
            if isinstance(n, ast.Assign) and nrm(n.targets[0]) == "self.df.loc[:,['x','y','z']]":
                want = "self.df.loc[:,['x','y','z']]-np.tile(trimvol_coord,(self.df.shape[0],1))"
                if nrm(n.value) == want:
                    return "x,y,z -= trimvol_coord"
                raise core.AnchorMissing("coordinate update is `" + nrm(n.value) + "`")
        raise core.AnchorMissing("coordinate update not found")

    def trim_cmps(which):
        def f():
            cs = sorted((n for n in ast.walk(trim_fn()) if isinstance(n, ast.Compare) and nrm(n.left).startswith("self.df['")),
                        key=lambda n: (n.lineno, n.col_offset))
            low = [c for c in cs if isinstance(c.comparators[0], ast.Constant)]
            high = [c for c in cs if not isinstance(c.comparators[0], ast.Constant)]
            if len(low) != 3 or len(high) != 3:
                raise core.AnchorMissing(f"expected 3+3 comparisons, found {len(low)}+{len(high)}")
            if which == "low":
                for c, ax in zip(low, "xyz"):
                    if nrm(c.left) != f"self.df['{ax}']":
                        raise core.AnchorMissing("low test on " + nrm(c.left))
                b = _same([_num(c.comparators[0]) for c in low], "trim low bound")
                if b != int(b) or b < 0:
                    raise core.AnchorMissing(f"low bound {b}")
                return [_same([_cmp(c) for c in low], "trim low"), int(b)]
            for i, (c, ax) in enumerate(zip(high, "xyz")):
                if nrm(c.left) != f"self.df['{ax}']" or nrm(c.comparators[0]) != f"tdim[{i}]":
                    raise core.AnchorMissing("high test `" + nrm(c) + "`")
            return _same([_cmp(c) for c in high], "trim high")
        return f

    def trim_negations():
        txt = nrm(trim_fn())
        a = "self.df.loc[~((self.df['x']" in txt
        if txt.count("self.df=self.df.loc[~(") != 2 or not a:
            raise core.AnchorMissing("the two `self.df = self.df.loc[~(... | ... | ...), :]` filters are not there")
        ors = [n for n in ast.walk(trim_fn()) if isinstance(n, ast.BinOp) and isinstance(n.op, ast.BitOr)]
        if len(ors) != 4:
            raise core.AnchorMissing(f"expected 4 `|`, found {len(ors)}")
        return "drop rows where any axis is out"

    toff = A("trim:trimvol_coord=start-1", trim_offset)
    A("trim:tdim=end-trimvol_coord", trim_tdim)
    A("trim:x,y,z shifted", trim_shift)
    tlow = A("trim:low test", trim_cmps("low"))
    thigh = A("trim:high test", trim_cmps("high"))
    A("trim:negated any-axis filters", trim_negations)

    # ---- clean_by_tomo_mask
    def mask_fn():
        return src.find(REL, "Motl.clean_by_tomo_mask")

    def mask_within():
        for n in ast.walk(mask_fn()):
            if isinstance(n, ast.Assign) and nrm(n.targets[0]) == "within_bounds":
                return n.value
        raise core.AnchorMissing("within_bounds assignment not found")

    def mask_low():
        w = mask_within()
        for n in ast.walk(w):
            if isinstance(n, ast.Call) and nrm(n.func) == "np.all" and n.args and isinstance(n.args[0], ast.Compare) \
                    and nrm(n.args[0].left) == "coords" and _num(n.args[0].comparators[0]) == 0 \
                    and any(k.arg == "axis" and _num(k.value) == 1 for k in n.keywords):
                return _cmp(n.args[0])
        raise core.AnchorMissing("no `np.all(coords >= 0, axis=1)` in within_bounds")

    def mask_high():
        cs = sorted((n for n in ast.walk(mask_within()) if isinstance(n, ast.Compare) and nrm(n.left).startswith("coords[")),
                    key=lambda n: (n.lineno, n.col_offset))
        if len(cs) != 3:
            raise core.AnchorMissing(f"expected 3 upper comparisons, found {len(cs)}")
        for i, c in enumerate(cs):
            if nrm(c.left) != f"coords[:,{i}]" or nrm(c.comparators[0]) != f"tomo_mask.shape[{i}]":
                raise core.AnchorMissing("upper comparison `" + nrm(c) + "`")
        ands = [n for n in ast.walk(mask_within()) if isinstance(n, ast.BinOp) and isinstance(n.op, ast.BitAnd)]
        if len(ands) != 3:
            raise core.AnchorMissing("within_bounds is not a conjunction of four tests")
        return _same([_cmp(c) for c in cs], "mask high")

    def mask_zero():
        for n in ast.walk(mask_fn()):
            if isinstance(n, ast.Assign) and nrm(n.targets[0]) == "idx_to_remove":
                v = n.value
                if nrm(v).startswith("np.where(mask_values") and nrm(v).endswith(")[0]"):
                    c = v.value.args[0]
                    if nrm(c.left) == "mask_values" and _num(c.comparators[0]) == 0:
                        return _cmp(c)
                raise core.AnchorMissing("idx_to_remove is `" + nrm(v) + "`")
        raise core.AnchorMissing("idx_to_remove not found")

    def mask_ids():
        txt = nrm(mask_fn())
        need = ["coords=tm.get_coordinates().astype(int)", "coords=coords[within_bounds]",
                "subtomo_ids_within=tm.df['subtomo_id'].values[within_bounds]",
                "mask_values=tomo_mask[coords[:,0],coords[:,1],coords[:,2]]",
                "subtomo_idx=subtomo_ids_within[idx_to_remove]",
                "cleaned_motl.remove_feature('subtomo_id',subtomo_idx)"]
        miss = [s for s in need if s not in txt]
        if miss:
            raise core.AnchorMissing("clean_by_tomo_mask lacks " + "; ".join(miss))
        return True

    mlow = A("mask:lower bound coords>=0", mask_low)
    mhigh = A("mask:upper bound coords<shape", mask_high)
    mzero = A("mask:mask_values==0", mask_zero)
    mids = A("mask:ids carried through the bounds filter", mask_ids)

    # ---- get_coordinates, clean_by_distance_to_points, dimensions_load
    def coords():
        fn = src.find(REL, "Motl.get_coordinates")
        found = []
        for n in ast.walk(fn):
            if isinstance(n, ast.BinOp):
                l, r = [c.value for c in ast.walk(n.left) if isinstance(c, ast.Constant) and isinstance(c.value, str)], \
                       [c.value for c in ast.walk(n.right) if isinstance(c, ast.Constant) and isinstance(c.value, str)]
                found.append((type(n.op).__name__, [s for s in l if s != "tomo_id"], [s for s in r if s != "tomo_id"]))
        if not found or any(f != found[0] for f in found) or found[0][0] != "Add":
            raise core.AnchorMissing(f"get_coordinates computes {found}")
        return [found[0][1], found[0][2]]

    def points():
        txt = nrm(src.find(REL, "Motl.clean_by_distance_to_points"))
        need = ["coord1=feature_m.get_coordinates()", "coord2=points.loc[points[feature_id]==f,['x','y','z']].values",
                "tree=KDTree(coord1)", "indices=tree.query_ball_point(point,r=radius_in_voxels)",
                "cfm=feature_m.df.drop(index=indices_to_remove)", "features=self.get_unique_values(feature_id)",
                "feature_m=self.get_motl_subset(f,feature_id=feature_id,reset_index=True)"]
        miss = [s for s in need if s not in txt]
        if miss:
            raise core.AnchorMissing("clean_by_distance_to_points lacks " + "; ".join(miss))
        imp = src.text(REL)
        if "from scipy.spatial import KDTree" not in imp:
            raise core.AnchorMissing("KDTree is not scipy.spatial.KDTree")
        return True

    def dimcols():
        fn = src.find("cryocat/ioutils.py", "dimensions_load")
        for n in ast.walk(fn):
            if isinstance(n, ast.If) and nrm(n.test) == "dimensions.shape[1]==4" or (isinstance(n, ast.If) and "shape[1]==4" in nrm(n.test)):
                st = n.body[0]
                if isinstance(st, ast.Assign) and nrm(st.targets[0]) == "dimensions.columns":
                    return src.literal(st.value)
        raise core.AnchorMissing("dimensions_load: N x 4 column naming not found")

    cc = A("get_coordinates:x+shift", coords)
    pp = A("points:KDTree ball query per tomogram", points)
    dc = A("dimensions_load:N x 4 columns", dimcols)

    lower = lower or ".vacuousAll"
    upper = upper or "lt"
    bnd = bnd or ["ceil", 2]
    tlow = tlow or ["lt", 1]
    cc = cc if (isinstance(cc, list) and len(cc) == 2) else [["x", "y", "z"], ["shift_x", "shift_y", "shift_z"]]
    dc = dc if isinstance(dc, list) else ["tomo_id", "x", "y", "z"]
    return f"""-- GENERATED by harness/props/c09.py from {REL} and cryocat/ioutils.py; do not edit
import CryoCat.Model.C09_Base
namespace CryoCat.Gen.C09
open CryoCat.C09
def anchorsOk : Bool := {"true" if src.ok else "false"}
def oobCfg : OobCfg := {{ lower := {lower}, upper := .{upper}, rounding := .{bnd[0]}, divisor := {bnd[1]} }}
def trimCfg : TrimCfg := {{ offset := {toff if toff is not None else 1}, lowCmp := .{tlow[0]}, lowBound := {tlow[1]}, highCmp := .{thigh or "gt"} }}
def maskCfg : MaskCfg := {{ lowCmp := .{mlow or "ge"}, highCmp := .{mhigh or "lt"}, zeroCmp := .{mzero or "eq"} }}
def maskIdsThroughFilter : Bool := {"true" if mids else "false"}
def pointsBallQueryPerTomogram : Bool := {"true" if pp else "false"}
def coordColumns : List String := {core.lean_str_list(cc[0])}
def shiftColumns : List String := {core.lean_str_list(cc[1])}
def dimColumns : List String := {core.lean_str_list([str(c) for c in dc])}
end CryoCat.Gen.C09
"""


# =============================================================================== generators
def _i(v):
    """value (Fraction / int / float on the grid) -> wire integer"""
    f = Fraction(v) * SCALE
    assert f.denominator == 1, v
    return int(f)


def _fr(n):
    return Fraction(n, SCALE)


DELTAS = [Fraction(1), Fraction(1, 2), Fraction(1, 4), Fraction(1, SCALE)]
TOMO_POOL = [1, 2, 3, 4, 5, 7, 12, 17, 204]


def _filler(rng, k):
    """values of the 17 fields that are not identifiers/positions: anything on the grid"""
    r = rng.random()
    if r < 0.4:
        return Fraction(rng.randint(-20, 400))
    if r < 0.8:
        return Fraction(rng.randint(-180 * 4, 360 * 4), 4)
    return Fraction(rng.randint(-2048, 2048), SCALE)


def _split(rng, c):
    """complete coordinate c -> (x, shift) with x + shift = c"""
    if rng.random() < 0.35:
        return c, Fraction(0)
    s = Fraction(rng.randint(-2 * 64, 2 * 64), 64)
    return c - s, s


def _row(rng, sid, tomo, cpos, split=True):
    row = [_filler(rng, k) for k in range(20)]
    row[I_ID] = Fraction(sid)
    row[I_TOMO] = Fraction(tomo)
    row[5] = Fraction(rng.randint(1, 6))
    row[19] = Fraction(rng.randint(1, 3))
    for a in range(3):
        x, s = _split(rng, cpos[a]) if split else (cpos[a], Fraction(rng.randint(-128, 128), 64) if rng.random() < 0.6 else Fraction(0))
        row[I_X + a] = x
        row[I_SX + a] = s
    return [_i(v) for v in row]


def _axis_oob(rng, b, dim, kind):
    """a complete coordinate c of the given kind relative to [b, dim - b)"""
    d = rng.choice(DELTAS)
    if kind == "in":
        lo, hi = b, dim - b
        if hi - lo <= 1:
            return b if hi > lo else b  # degenerate tomogram: nothing fits
        return Fraction(rng.randint(int(lo * 4), int(hi * 4) - 1), 4)
    return {"lo_face": b, "lo_below": b - d, "neg": -Fraction(rng.randint(1, 40), 4), "zero": Fraction(0),
            "hi_in": dim - b - d, "hi_face": dim - b, "hi_beyond": dim - b + d, "far": dim + rng.randint(1, 50)}[kind]


OOB_KINDS_OFF = ["lo_below", "neg", "zero", "hi_face", "hi_beyond", "far"]
OOB_KINDS_ON = ["in", "in", "in", "lo_face", "hi_in"]


def _ids(rng, n):
    ids = list(range(1, n + 1))
    if rng.random() < 0.5:
        rng.shuffle(ids)
    if rng.random() < 0.3:
        ids = [i * 3 + 5 for i in ids]
    return ids


def _nrows(rng, tier):
    r = rng.random()
    if tier == "search":
        return rng.randint(1, 12)
    if r < 0.1:
        return rng.randint(1, 3)
    if tier == "thorough" and r > 0.97:
        return rng.randint(100, 400)
    return rng.randint(4, 60 if r > 0.8 else 25)


def gen_oob(rng, tier):
    T = rng.randint(1, 4)
    tomos = rng.sample(TOMO_POOL, T)
    dims = {t: [rng.choice([rng.randint(8, 40), rng.randint(40, 128), rng.randint(8, 128)]) for _ in range(3)] for t in tomos}
    r = rng.random()
    if r < 0.42:
        bt, box = "center", (None if rng.random() < 0.7 else rng.randint(1, 64))
    elif r < 0.93:
        bt, box = "whole", rng.choice([rng.randint(1, 8), rng.randint(1, 64), rng.randint(1, 64)])
    elif r < 0.96:
        bt, box = "whole", rng.choice([None, 0])
    else:
        bt, box = rng.choice(["centre", "Whole", "box", ""]), rng.choice([None, 10])
    b = Fraction((box + 1) // 2) if (bt == "whole" and box) else Fraction(0)
    n = _nrows(rng, tier)
    ids = _ids(rng, n)
    rows = []
    style = rng.random()
    # a tomogram with particles but without dimensions (KeyError in the real code): its particles all respect the
    # lower faces, so that the outcome does not depend on whether a (repaired) lower test short-circuits the lookup
    missing = rng.choice(tomos) if (len(tomos) > 1 and rng.random() < 0.05) else None
    for k in range(n):
        t = rng.choice(tomos)
        dim = dims[t]
        pr = rng.random()
        if t == missing:
            rows.append(_row(rng, ids[k], t, [b + rng.choice([Fraction(0), Fraction(rng.randint(0, 600), 4)]) for _ in range(3)]))
            continue
        if style < 0.1:
            kinds = [rng.choice(OOB_KINDS_ON) for _ in range(3)]  # everything fits
        elif pr < 0.4:
            kinds = [rng.choice(OOB_KINDS_ON) for _ in range(3)]
        elif pr < 0.85:
            kinds = [rng.choice(OOB_KINDS_ON) for _ in range(3)]
            kinds[rng.randrange(3)] = rng.choice(OOB_KINDS_OFF)
        else:
            kinds = [rng.choice(OOB_KINDS_ON + OOB_KINDS_OFF) for _ in range(3)]
        c = [_axis_oob(rng, b, Fraction(dim[a]), kinds[a]) for a in range(3)]
        rows.append(_row(rng, ids[k], t, c))
    dim_rows = [[_i(t)] + [_i(v) for v in dims[t]] for t in tomos]
    rng.shuffle(dim_rows)
    variant = "plain"
    v = rng.random()
    if v < 0.15:  # a tomogram that has dimensions but no particles
        extra = rng.choice([t for t in TOMO_POOL if t not in tomos])
        dim_rows.insert(rng.randrange(len(dim_rows) + 1), [_i(extra)] + [_i(rng.randint(8, 128)) for _ in range(3)])
        variant = "extra-tomogram"
    elif v < 0.22:  # a second, different row for a tomogram: the first one counts
        t = rng.choice(tomos)
        dim_rows.append([_i(t)] + [_i(rng.randint(8, 128)) for _ in range(3)])
        variant = "duplicate-row"
    if missing is not None:
        dim_rows = [d for d in dim_rows if d[0] != _i(missing)]
        variant = "missing-tomogram"
    return dict(op="oob", scale=SCALE, rows=rows, dims=dim_rows, bt=bt, box=box, variant=variant,
                dims_as=rng.choice(["ndarray", "dataframe"]))


def _axis_trim(rng, s, e, kind):
    d = rng.choice(DELTAS)
    if kind == "in":
        return Fraction(rng.randint(int(s * 4), int(e * 4)), 4) if e >= s else s
    return {"s": s, "s_below": s - d, "e": e, "e_above": e + d, "far_lo": s - rng.randint(1, 30), "far_hi": e + rng.randint(1, 30),
            "neg": -Fraction(rng.randint(0, 20), 2)}[kind]


def gen_trim(rng, tier):
    s = [Fraction(rng.randint(1, 40)) for _ in range(3)]
    size = [rng.choice([1, 2, rng.randint(1, 64), rng.randint(8, 64)]) for _ in range(3)]
    e = [s[a] + size[a] - 1 for a in range(3)]
    variant = "plain"
    v = rng.random()
    if v < 0.05:
        a = rng.randrange(3)
        e[a] = s[a] - rng.randint(1, 3)  # empty trimmed volume
        variant = "empty-volume"
    elif v < 0.12:
        a = rng.randrange(3)
        s[a] += Fraction(1, 2)
        variant = "half-voxel-start"
    n = _nrows(rng, tier)
    ids = _ids(rng, n)
    tomos = rng.sample(TOMO_POOL, rng.randint(1, 4))
    rows = []
    on, off = ["in", "in", "in", "s", "e"], ["s_below", "e_above", "far_lo", "far_hi", "neg"]
    for k in range(n):
        pr = rng.random()
        kinds = [rng.choice(on) for _ in range(3)]
        if 0.45 <= pr < 0.9:
            kinds[rng.randrange(3)] = rng.choice(off)
        elif pr >= 0.9:
            kinds = [rng.choice(on + off) for _ in range(3)]
        x = [_axis_trim(rng, s[a], e[a], kinds[a]) for a in range(3)]
        rows.append(_row(rng, ids[k], rng.choice(tomos), x, split=False))
    return dict(op="trim", scale=SCALE, rows=rows, start=[_i(v) for v in s], end=[_i(v) for v in e], variant=variant,
                args_as=rng.choice(["list", "ndarray"]))


TRIPLES = [(3, 4, 0), (0, 3, 4), (4, 0, 3), (1, 2, 2), (2, 3, 6), (6, 2, 3), (5, 12, 0), (0, 0, 1), (1, 0, 0), (8, 9, 12), (2, 6, 9)]
NORMS = {t: int(math.isqrt(sum(c * c for c in t))) for t in TRIPLES}


def gen_points(rng, tier):
    T = rng.randint(1, 4)
    tomos = rng.sample(TOMO_POOL, T)
    n = _nrows(rng, tier)
    if rng.random() < 0.2:
        n = max(n, rng.randint(25, 60))  # enough rows in one tomogram for the KD-tree to split (leafsize 10)
    ids = _ids(rng, n)
    ext = rng.choice([8, 16, 32])
    g = rng.choice([1, 2, 4])
    rows, cs = [], []
    for k in range(n):
        t = tomos[0] if rng.random() < 0.5 else rng.choice(tomos)
        c = [Fraction(rng.randint(0, ext * g), g) for _ in range(3)]
        cs.append((t, c))
        rows.append(_row(rng, ids[k], t, c))
    r = rng.choice([Fraction(0), Fraction(rng.randint(1, 12 * 4), 4), Fraction(rng.randint(1, ext * 2), 2), Fraction(rng.randint(4, 40), 4)])
    variant = "plain"
    pts = []
    foreign = [t for t in TOMO_POOL if t not in tomos]
    m = rng.choice([0, 1, 2, 3, rng.randint(1, 8), rng.randint(1, 8)])
    for _ in range(m):
        pr = rng.random()
        if pr < 0.35 and r > 0:  # exact tie: a point at distance exactly r (or r +- 1/4 grid step) from a particle
            t, c = rng.choice(cs)
            tr = rng.choice(TRIPLES)
            k = Fraction(rng.randint(1, 6), 4)
            sg = [rng.choice([-1, 1]) for _ in range(3)]
            p = [c[a] + sg[a] * tr[a] * k for a in range(3)]
            mode = rng.random()
            if mode < 0.6:
                r = NORMS[tr] * k
                variant = "tie"
            if rng.random() < 0.25:
                t = rng.choice(foreign)  # same place, other tomogram: must not remove
                variant = "foreign-tomogram-point"
            pts.append([_i(t)] + [_i(v) for v in p])
        elif pr < 0.5:  # a point of a tomogram the list does not contain / another tomogram of the list
            t = rng.choice(foreign)
            _, c = rng.choice(cs)
            pts.append([_i(t)] + [_i(v) for v in c])
            variant = "foreign-tomogram-point" if variant == "plain" else variant
        elif pr < 0.8:  # a point close to a particle of the same tomogram (some axes within r, some not)
            t, c = rng.choice(cs)
            w = max(1, int(r * 4))
            pts.append([_i(t)] + [_i(c[a] + Fraction(rng.randint(-w, w), 4) * rng.choice([1, 1, 1, 0])) for a in range(3)])
        else:
            t = rng.choice(tomos)
            pts.append([_i(t)] + [_i(Fraction(rng.randint(-2 * g, (ext + 2) * g), g)) for _ in range(3)])
    return dict(op="points", scale=SCALE, rows=rows, pts=pts, r=_i(r), variant=variant, inplace=rng.random() < 0.5,
                pts_int_dtype=rng.random() < 0.3)


def gen_mask(rng, tier):
    T = rng.randint(1, 4)
    tomos = rng.sample(TOMO_POOL, T)
    single = rng.random() < 0.2
    listed = [t for t in tomos if rng.random() < 0.8] or [tomos[0]]
    rng.shuffle(listed)
    variant = "single-mask" if single else "plain"
    if rng.random() < 0.15:
        listed.insert(rng.randrange(len(listed) + 1), rng.choice([t for t in TOMO_POOL if t not in tomos]))
    masks = []
    for _ in range(1 if single else len(listed)):
        shape = [rng.randint(2, 9) for _ in range(3)]
        p0 = rng.choice([0.0, 0.3, 0.5, 0.7, 1.0]) if rng.random() < 0.25 else rng.choice([0.3, 0.5, 0.7])
        masks.append(dict(shape=shape, data=[0 if rng.random() < p0 else 1 for _ in range(shape[0] * shape[1] * shape[2])]))
    if not single and rng.random() < 0.03:
        if rng.random() < 0.5 and len(masks) > 1:
            masks.pop()
        else:
            masks.append(masks[0])
        variant = "list-length-mismatch"
    shape_of = {}
    for i, t in enumerate(listed):
        shape_of.setdefault(t, masks[0]["shape"] if single else masks[min(i, len(masks) - 1)]["shape"])
    n = _nrows(rng, tier)
    ids = _ids(rng, n)
    rows = []
    for k in range(n):
        t = rng.choice(tomos)
        sh = shape_of.get(t, [6, 6, 6])
        pr = rng.random()
        c = []
        off_axis = rng.randrange(3) if 0.45 <= pr < 0.8 else None
        for a in range(3):
            if pr >= 0.8 or a == off_axis:
                kind = rng.choice(["frac_neg", "neg1", "neg", "shape", "beyond", "top", "zero"])
            else:
                kind = rng.choice(["in", "in", "in", "zero", "top", "frac_neg"])
            S = sh[a]
            c.append({"in": Fraction(rng.randint(0, S * 4 - 1), 4), "zero": Fraction(0), "top": S - Fraction(1, rng.choice([4, 2, SCALE])),
                      "frac_neg": -Fraction(rng.randint(1, 3), 4), "neg1": Fraction(-1), "neg": -Fraction(rng.randint(5, 40), 4),
                      "shape": Fraction(S), "beyond": S + Fraction(rng.randint(1, 40), 4)}[kind])
        rows.append(_row(rng, ids[k], t, c))
    return dict(op="mask", scale=SCALE, rows=rows, tomos=[_i(t) for t in listed], masks=masks, single=single, variant=variant,
                inplace=rng.random() < 0.5)


GENS = [("oob", gen_oob, 0.40), ("trim", gen_trim, 0.18), ("points", gen_points, 0.20), ("mask", gen_mask, 0.22)]


def generate(rng, tier, n):
    for _ in range(n):
        r, acc = rng.random(), 0.0
        for name, g, w in GENS:
            acc += w
            if r < acc or name == "mask":
                yield g(rng, tier)
                break


# =============================================================================== implementation
def _motl(case):
    import numpy as np, pandas as pd
    from cryocat import cryomotl
    data = np.array([[n / case["scale"] for n in row] for row in case["rows"]], dtype=float).reshape(-1, 20)
    return cryomotl.Motl(pd.DataFrame(data, columns=COLS))


def _obs_rows(df):
    vals = df.loc[:, COLS].to_numpy(dtype=float)
    out = []
    for row in vals.tolist():
        r = []
        for v in row:
            if math.isnan(v) or math.isinf(v):
                r.append(["nan", 0])
            else:
                f = Fraction(v)
                r.append([f.numerator, f.denominator])
        out.append(r)
    return out


def run_impl(case):
    import numpy as np, pandas as pd
    sc = case["scale"]
    m = _motl(case)
    op = case["op"]
    sink = io.StringIO()
    with contextlib.redirect_stdout(sink):
        if op == "oob":
            arr = np.array([[v / sc for v in d] for d in case["dims"]], dtype=float)
            dims = arr if case.get("dims_as") == "ndarray" else pd.DataFrame(arr, columns=["tomo_id", "x", "y", "z"])
            kw = {}
            if case["box"] is not None:
                kw["box_size"] = case["box"]
            m.remove_out_of_bounds_particles(dims, boundary_type=case["bt"], **kw)
            res = m
        elif op == "trim":
            s = [v / sc for v in case["start"]]
            e = [v / sc for v in case["end"]]
            if case.get("args_as") == "ndarray":
                s, e = np.array(s), np.array(e)
            m.adapt_to_trimming(s, e)
            res = m
        elif op == "points":
            p = np.array([[v / sc for v in q] for q in case["pts"]], dtype=float).reshape(-1, 4)
            pts = pd.DataFrame(p, columns=["tomo_id", "x", "y", "z"])
            if case.get("pts_int_dtype") and len(p) and np.all(p == np.round(p)):
                pts = pts.astype(int)
            r = m.clean_by_distance_to_points(pts, case["r"] / sc, inplace=case.get("inplace", True))
            res = m if case.get("inplace", True) else r
        elif op == "mask":
            masks = [np.array(k["data"], dtype=float).reshape(k["shape"]) for k in case["masks"]]
            tl = [v / sc for v in case["tomos"]]
            arg = masks[0] if case.get("single") else masks
            r = m.clean_by_tomo_mask(tl, arg, inplace=case.get("inplace", True))
            res = m if case.get("inplace", True) else r
        else:
            raise ValueError("unknown op " + str(op))
    return dict(rows=_obs_rows(res.df), n_cols=int(res.df.shape[1]))


def requests(case, obs):
    q = {k: case[k] for k in ("op", "scale", "rows")}
    op = case["op"]
    if op == "oob":
        q.update(dims=case["dims"], bt=case["bt"])
        if case["box"] is not None:
            q["box"] = case["box"]
    elif op == "trim":
        q.update(start=case["start"], end=case["end"])
    elif op == "points":
        q.update(pts=case["pts"], r=case["r"])
    elif op == "mask":
        q.update(tomos=case["tomos"], masks=case["masks"], single=bool(case.get("single")))
    return [q]


# =============================================================================== independent oracle
def _pos(row):
    return [_fr(row[I_X + a]) + _fr(row[I_SX + a]) for a in range(3)]


def _oob_parts(case, row):
    """(has_dims, lower_ok, upper_ok) of one particle, straight from the statement"""
    b = Fraction((case["box"] + 1) // 2) if (case["bt"] == "whole" and case["box"]) else Fraction(0)
    d = next((d for d in case["dims"] if d[0] == row[I_TOMO]), None)
    if d is None:
        return False, False, False
    c = _pos(row)
    return True, all(c[a] - b >= 0 for a in range(3)), all(c[a] + b < _fr(d[1 + a]) for a in range(3))


def _trunc(fr):
    return int(fr) if fr >= 0 else -int(-fr)


def expected(case):
    """the statement of C09 evaluated directly: dict(rows=[wire rows]) or dict(error=kind)"""
    rows, op = case["rows"], case["op"]
    if op == "oob":
        if case["bt"] not in ("center", "whole"):
            return dict(error="reject:boundary-type")
        if case["bt"] == "whole" and not case["box"]:
            return dict(error="reject:box-size")
        parts = [_oob_parts(case, r) for r in rows]
        if not all(p[0] for p in parts):
            return dict(error="reject:no-dimensions")
        return dict(rows=[r for r, p in zip(rows, parts) if p[1] and p[2]])
    if op == "trim":
        s, e = case["start"], case["end"]
        out = []
        for r in rows:
            if all(s[a] <= r[I_X + a] <= e[a] for a in range(3)):
                r2 = list(r)
                for a in range(3):
                    r2[I_X + a] = r[I_X + a] - (s[a] - SCALE)
                out.append(r2)
        return dict(rows=out)
    if op == "points":
        rad = case["r"]
        def near(r):
            c = [r[I_X + a] + r[I_SX + a] for a in range(3)]
            return any(q[0] == r[I_TOMO] and sum((c[a] - q[1 + a]) ** 2 for a in range(3)) <= rad * rad for q in case["pts"])
        order = []
        for r in rows:
            if r[I_TOMO] not in order:
                order.append(r[I_TOMO])
        return dict(rows=[r for t in order for r in rows if r[I_TOMO] == t and not near(r)])
    if op == "mask":
        masks, tomos = case["masks"], case["tomos"]
        if case.get("single"):
            pairs = [(t, masks[0]) for t in tomos]
        elif len(masks) != len(tomos):
            return dict(error="reject:mask-list-length")
        else:
            pairs = list(zip(tomos, masks))
        def hit(r):
            v = [_trunc(c) for c in _pos(r)]
            for t, m in pairs:
                sh = m["shape"]
                if t == r[I_TOMO] and all(0 <= v[a] < sh[a] for a in range(3)) and m["data"][(v[0] * sh[1] + v[1]) * sh[2] + v[2]] == 0:
                    return True
            return False
        return dict(rows=[r for r in rows if not hit(r)])
    raise ValueError(op)


# =============================================================================== judge
def _wire_of_resp(rows):
    """driver rows ([num, den] pairs) -> list of tuples of Fractions"""
    return [tuple(Fraction(c[0], c[1]) for c in r) for r in rows]


def _wire_of_case(rows):
    return [tuple(_fr(c) for c in r) for r in rows]


def _impl_kind(obs):
    e = obs["error"]
    if e.startswith("UserInputError") and "Unknown type of boundaries" in e:
        return "reject:boundary-type"
    if e.startswith("UserInputError") and "box_size" in e:
        return "reject:box-size"
    if e.startswith("KeyError") and obs.get("where", "").startswith("cryomotl.py"):
        return "reject:no-dimensions"
    if e.startswith("ValueError") and "different length" in e:
        return "reject:mask-list-length"
    return "raises:" + e[:120]


def _impl_result(obs):
    if "error" in obs:
        return dict(error=_impl_kind(obs))
    rows = []
    for r in obs["rows"]:
        rows.append(tuple(None if c[0] == "nan" else Fraction(c[0], c[1]) for c in r))
    return dict(rows=rows)


def _k1_rows(case, obs):
    """particles the implementation kept although min(pos - boundary) < 0 while every upper bound holds
    (class of the open finding C09-K1); evaluated from the case and the observation only"""
    if case.get("op") != "oob" or "rows" not in obs:
        return []
    by_id = {}
    for r in case["rows"]:
        by_id.setdefault(r[I_ID], r)
    out = []
    for r in obs["rows"]:
        if r[I_ID][0] == "nan":
            continue
        sid = Fraction(r[I_ID][0], r[I_ID][1]) * SCALE
        src = by_id.get(sid)
        if src is None:
            continue
        has, lo, up = _oob_parts(case, src)
        if has and (not lo) and up:
            out.append(src)
    return out


def judge(case, obs, resps):
    out = []
    op = case["op"]
    resp = resps[0]
    if "error" in resp and "spec" not in resp:
        return [dict(kind="corr", clause="driver-refused-request", detail=str(resp))]
    impl = _impl_result(obs)

    def norm(r):
        return dict(error=r["error"]) if "error" in r else dict(rows=_wire_of_resp(r["rows"]))

    spec, code = norm(resp["spec"]), norm(resp["code"])
    exp = expected(case)
    exp_n = dict(error=exp["error"]) if "error" in exp else dict(rows=_wire_of_case(exp["rows"]))
    if exp_n != spec:
        out.append(dict(kind="corr", clause="lean-spec-vs-python-oracle", detail=f"{op}: the Lean verdict and the direct evaluation of the statement differ"))
    spec_clauses = []
    if "error" in spec or "error" in impl:
        if spec != impl:
            if "error" in impl and "rows" in spec:
                spec_clauses.append(("raises-on-valid-input", f"{op}: {impl['error']} where the property demands {len(spec['rows'])} survivors"))
            else:
                out.append(dict(kind="corr", clause="rejection-differs", detail=f"{op}: implementation {('returned %d rows' % len(impl['rows'])) if 'rows' in impl else impl['error']}, model {spec.get('error')}"))
    elif impl["rows"] != spec["rows"]:
        inputs = _wire_of_case(case["rows"])
        by_id = {}
        for r in inputs:
            by_id.setdefault(r[I_ID], r)
        off = [Fraction(0)] * 3
        if op == "trim":
            off = [_fr(case["start"][a]) - 1 for a in range(3)]

        def documented(r):
            r2 = list(r)
            for a in range(3):
                r2[I_X + a] = r[I_X + a] - off[a]
            return tuple(r2)

        altered, impl_ids = [], []
        for r in impl["rows"]:
            src = by_id.get(r[I_ID])
            if src is None or documented(src) != r:
                diff = [] if src is None else [COLS[k] for k in range(20) if documented(src)[k] != r[k]]
                altered.append((r[I_ID], diff))
            else:
                impl_ids.append(r[I_ID])
        spec_ids = [r[I_ID] for r in spec["rows"]]
        kept_wrong = [i for i in impl_ids if i not in set(spec_ids)]
        removed_wrong = [i for i in spec_ids if i not in set(impl_ids) and i not in {a[0] for a in altered}]
        if obs.get("n_cols") != 20:
            spec_clauses.append((f"{op}-survivor-altered", f"result has {obs.get('n_cols')} columns"))
        if altered:
            spec_clauses.append((f"{op}-survivor-altered", f"{len(altered)} survivor(s) differ from the input beyond the documented offset, e.g. subtomo_id {altered[0][0]} fields {altered[0][1]}"))
        if op == "oob":
            k1_ids = {_fr(r[I_ID]) for r in _k1_rows(case, obs)}
            k1 = [i for i in kept_wrong if i in k1_ids]
            kept_wrong = [i for i in kept_wrong if i not in k1_ids]
            if k1:
                spec_clauses.append(("oob-lower-face-kept", f"{len(k1)} particle(s) kept although min(pos - boundary) < 0 (upper bounds hold), e.g. subtomo_id {k1[0]}"))
        if kept_wrong:
            spec_clauses.append((f"{op}-keeps-outside", f"{len(kept_wrong)} particle(s) kept that the property removes, e.g. subtomo_id {kept_wrong[0]}"))
        if removed_wrong:
            spec_clauses.append((f"{op}-removes-inside", f"{len(removed_wrong)} particle(s) removed that the property keeps, e.g. subtomo_id {removed_wrong[0]}"))
        if not spec_clauses:
            out.append(dict(kind="corr", clause="order-or-multiplicity", detail=f"{op}: same particles, different order/multiplicity than the model"))
    for cl, det in spec_clauses:
        out.append(dict(kind="spec", clause=cl, detail=det))
    # correspondence with the model of the code as it is today
    only_k1 = all(c == "oob-lower-face-kept" for c, _ in spec_clauses)
    if only_k1 and impl != code:
        what = "rows" if ("rows" in impl and "rows" in code) else f"{impl.get('error')} vs {code.get('error')}"
        if not any(f["kind"] == "corr" for f in out):
            out.append(dict(kind="corr", clause=f"{op}-impl-vs-code-model", detail=f"{op}: implementation and the model of today's source differ ({what})"))
    return out


def classify(case, obs, finding):
    if finding.get("kind") == "spec" and finding.get("clause") == "oob-lower-face-kept" and _k1_rows(case, obs):
        return "C09-K1"
    return None


# =============================================================================== evidence helpers
def _case_kinds(case):
    """which face situations occur in the case (for the non-triviality rule)"""
    op = case["op"]
    tags = set()
    if op == "oob" and case["bt"] in ("center", "whole") and not (case["bt"] == "whole" and not case["box"]):
        b = Fraction((case["box"] + 1) // 2) if case["bt"] == "whole" else Fraction(0)
        for r in case["rows"]:
            d = next((d for d in case["dims"] if d[0] == r[I_TOMO]), None)
            if d is None:
                continue
            c = _pos(r)
            for a in range(3):
                lo, hi = c[a] - b, _fr(d[1 + a]) - (c[a] + b)
                if lo == 0: tags.add("on-lower-face")
                if -1 <= lo < 0: tags.add("just-below-lower")
                if lo < -1: tags.add("far-below-lower")
                if hi == 0: tags.add("on-upper-face")
                if 0 < hi <= 1: tags.add("just-inside-upper")
                if hi < 0: tags.add("beyond-upper")
    elif op == "trim":
        for r in case["rows"]:
            for a in range(3):
                x = r[I_X + a]
                if x == case["start"][a]: tags.add("on-start")
                if x == case["end"][a]: tags.add("on-end")
                if 0 < case["start"][a] - x <= SCALE: tags.add("just-below-start")
                if 0 < x - case["end"][a] <= SCALE: tags.add("just-above-end")
    elif op == "points":
        rad = case["r"]
        for r in case["rows"]:
            c = [r[I_X + a] + r[I_SX + a] for a in range(3)]
            for q in case["pts"]:
                d2 = sum((c[a] - q[1 + a]) ** 2 for a in range(3))
                if q[0] == r[I_TOMO]:
                    if d2 == rad * rad: tags.add("tie")
                    elif d2 < rad * rad: tags.add("inside-ball")
                elif d2 <= rad * rad:
                    tags.add("in-ball-of-foreign-point")
    elif op == "mask" and (case.get("single") or len(case["masks"]) == len(case["tomos"])):
        listed = set(case["tomos"])
        for r in case["rows"]:
            if r[I_TOMO] not in listed:
                tags.add("unlisted-tomogram"); continue
            i = case["tomos"].index(r[I_TOMO])
            sh = case["masks"][0 if case.get("single") else i]["shape"]
            c = _pos(r)
            for a in range(3):
                if -1 < c[a] < 0: tags.add("in(-1,0)")
                if c[a] <= -1: tags.add("negative-index")
                if c[a] == sh[a]: tags.add("on-shape")
                if sh[a] - 1 < c[a] < sh[a]: tags.add("last-voxel")
                if c[a] > sh[a]: tags.add("beyond-shape")
    return tags


def nontrivial(case, obs):
    exp = expected(case)
    if "error" in exp:
        return False
    if not (0 < len(exp["rows"]) < len(case["rows"])):
        return False
    tags = _case_kinds(case)
    if case["op"] == "points":
        return bool(tags & {"tie", "in-ball-of-foreign-point"}) or "inside-ball" in tags
    return bool(tags)


def stats(case, obs, resps):
    op = case["op"]
    exp = expected(case)
    n = len(case["rows"])
    st = {"op": op, "variant": f"{op}:{case.get('variant', 'plain')}",
          "N": "1-3" if n <= 3 else ("4-25" if n <= 25 else ("26-60" if n <= 60 else ">60")),
          "tomograms": len({r[I_TOMO] for r in case["rows"]}),
          "situations": [f"{op}:{t}" for t in sorted(_case_kinds(case))] or [f"{op}:none"]}
    if "error" in exp:
        st["outcome"] = f"{op}:{exp['error']}"
    else:
        k = len(exp["rows"])
        st["outcome"] = f"{op}:" + ("all kept" if k == n else ("none kept" if k == 0 else "some kept"))
    if op == "oob":
        st["boundary"] = case["bt"] if case["bt"] in ("center", "whole") else "other"
        if case["bt"] == "whole" and case["box"]:
            st["box"] = "1-8" if case["box"] <= 8 else ("9-32" if case["box"] <= 32 else "33-64")
        st["K1-class particles"] = "yes" if _k1_rows(case, obs) else "no"
    if op == "mask":
        st["mask form"] = "single" if case.get("single") else "list"
    if op in ("mask", "points"):
        st["inplace"] = str(bool(case.get("inplace", True)))
    if "error" in obs:
        st["impl error"] = _impl_kind(obs)[:60]
    return st


def shrink(case):
    rows = case["rows"]
    n = len(rows)
    if n > 1:
        yield dict(case, rows=rows[: n // 2])
        yield dict(case, rows=rows[n // 2:])
        for k in range(min(n, 12)):
            yield dict(case, rows=rows[:k] + rows[k + 1:])
    op = case["op"]
    if op == "points" and len(case["pts"]) > 1:
        for k in range(len(case["pts"])):
            yield dict(case, pts=case["pts"][:k] + case["pts"][k + 1:])
    if op == "oob":
        used = {r[I_TOMO] for r in rows}
        d2 = [d for d in case["dims"] if d[0] in used]
        if 0 < len(d2) < len(case["dims"]):
            yield dict(case, dims=d2)
    if op == "mask" and not case.get("single") and len(case["tomos"]) > 1 and len(case["tomos"]) == len(case["masks"]):
        for k in range(len(case["tomos"])):
            yield dict(case, tomos=case["tomos"][:k] + case["tomos"][k + 1:], masks=case["masks"][:k] + case["masks"][k + 1:])
    # plain filler values
    simple = []
    for r in rows:
        r2 = [0] * 20
        for k in (I_ID, I_TOMO, I_X, I_X + 1, I_X + 2, I_SX, I_SX + 1, I_SX + 2):
            r2[k] = r[k]
        simple.append(r2)
    if simple != rows:
        yield dict(case, rows=simple)
    # zero shifts (keeping the complete position)
    if op != "trim":
        z = []
        for r in rows:
            r2 = list(r)
            for a in range(3):
                r2[I_X + a] = r[I_X + a] + r[I_SX + a]
                r2[I_SX + a] = 0
            z.append(r2)
        if z != rows:
            yield dict(case, rows=z)


def sample_view(case):
    v = {k: case[k] for k in case if k not in ("rows", "masks")}
    v["n_rows"] = len(case["rows"])
    v["first_rows(x,y,z,shift,tomo,id)"] = [[r[I_X] / SCALE, r[I_X + 1] / SCALE, r[I_X + 2] / SCALE, r[I_SX] / SCALE, r[I_SX + 1] / SCALE,
                                             r[I_SX + 2] / SCALE, r[I_TOMO] / SCALE, r[I_ID] / SCALE] for r in case["rows"][:4]]
    if "masks" in case:
        v["mask_shapes"] = [m["shape"] for m in case["masks"]]
    for k in ("dims", "pts"):
        if k in v:
            v[k] = [[c / SCALE for c in d] for d in v[k][:6]]
    return v


# =============================================================================== probes of the library assumptions
def probes(rng):
    import numpy as np
    from scipy.spatial import KDTree
    out = []
    # KD-tree ball query = brute-force closed ball, on the grid, with exact ties
    bad = 0
    ties = 0
    for _ in range(40):
        n = rng.randint(1, 80)
        g = rng.choice([1, 2, 4])
        P = np.array([[rng.randint(0, 16 * g) / g for _ in range(3)] for _ in range(n)])
        tree = KDTree(P)
        for _ in range(5):
            tr = rng.choice(TRIPLES)
            k = rng.randint(1, 6) / 4
            base = P[rng.randrange(n)]
            q = base + np.array(tr) * k
            r = NORMS[tr] * k
            got = sorted(tree.query_ball_point(q, r=r))
            d2 = ((P - q) ** 2).sum(axis=1)
            want = sorted(np.nonzero(d2 <= r * r)[0].tolist())
            ties += int((d2 == r * r).sum())
            bad += got != want
    out.append(dict(name="scipy KDTree.query_ball_point = brute-force closed ball (incl. exact ties)", ok=bad == 0,
                    detail=f"200 queries, {ties} exact ties, {bad} disagreements"))
    xs = [-2.5, -1.0, -0.75, -0.0009765625, 0.0, 0.25, 0.9990234375, 1.0, 7.75]
    got = np.array(xs).astype(int).tolist()
    out.append(dict(name="numpy astype(int) truncates toward zero", ok=got == [_trunc(Fraction(x)) for x in xs], detail=str(got)))
    import pandas as pd
    u = pd.Series([3.0, 1.0, 3.0, 2.0, 1.0]).unique().tolist()
    out.append(dict(name="pandas Series.unique keeps first-appearance order", ok=u == [3.0, 1.0, 2.0], detail=str(u)))
    return out


LEVEL_TEXT = ("Lean 4 theorems about an executable model of the four spatial filters, for all particle lists, all dimension tables, all trim boxes, "
              "all point sets/radii and all masks (oob_spec, oob_rejects_iff, oob_partial, oob_counterexample, trim_spec, trim_inside_iff, "
              "cleanPoints_spec, cleanPoints_perm, cleanMask_spec, survivors-unaltered corollaries); the model is tied to the source by regenerated "
              "comparison operators/constants (Gen/C09.lean) and by an exact differential run of the real functions against the model at Rat")
LEVEL_NOTE = ("trusted: Lean kernel; translator anchors; dyadic-grid exactness of numpy floats; scipy KDTree ball query = brute force (probed); "
              "numpy astype(int) = truncation (probed); pandas selection semantics. Open finding C09-K1 (lower faces never tested) is modelled by oobAsIs.")
TECHNIQUE = "Lean 4 proof (filter/flatMap/permutation lemmas, ordered-field algebra) + regenerated operators + exact differential correspondence at Rat"
DESIGN_REF = "DESIGN.md section 4, C09"
