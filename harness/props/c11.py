"""C11 — map files round-trip voxels and axis order across MRC, REC and EM (DESIGN.md section 4, C11)."""
import os, re, struct, tempfile, ast, math, shutil, hashlib
import numpy as np
import core

PROP = "C11"
COUNT = {"quick": 600, "thorough": 4000, "search": 900}
PARALLEL = True
RULE = ("three case kinds. 'rw': a 3-D array of independent x,y,z sizes (quick: every shape <=5^3 once + random sizes 1..48 with "
        "<=6000 voxels + 5 large maps >32768 voxels with nx<=32<nz such as 24x40x44 and BOTH converters once on a >=40^3 map; thorough: every "
        "shape <=12^3 + random 1..48 with <=30000 voxels (converter inputs too) + all 8 large maps + a few up to 48x47x46 + both converters x "
        "invert on/off on (48,47,46)-class maps), dtype float32/float64/int16/int8, "
        "values that encode their own (i,j,k) index, seeded random values with float32 half-ulp ties / overflow / subnormals / +-0 / "
        "inf / NaN planted, or (whenever a float array meets an integer data_type) NON-integral values incl. ones a hair below a whole "
        "number (2.99999999, float32 neighbours of integers); memory layout C / Fortran / transposed view / strided view / the array "
        "cryomap.read returned for a harness-written file (read -> arithmetic -> write chain); written with cryomap.write (ext "
        "mrc|rec|em, transpose, data_type) and read with cryomap.read (transpose, data_type, same name or the reader's .ali/.st/.N "
        "aliases; a share of names with unsupported extensions; a share where the file is offered under a name of the OTHER container "
        "format and must be refused); in ~35% of the calls every keyword that has its documented default is OMITTED (write(a,p), "
        "read(p), em2mrc(p)), in another ~25% some are; the caller's array is compared before/after every call; a share reads twice, "
        "editing the first result in between; the BYTES of every written file go to the Lean driver, are decoded there by decodeMrc/decodeEm "
        "(proved left inverses of the model's encoders) and compared with encode(write ..) of the model (named header fields + whole payload); "
        "the harness's own Python parsers are only cross-checked against the Lean decoders. A share of arrays is in big-endian byte order "
        "(what cryomap.read returns for a big-endian MRC file made by the harness's writer). 'conv': an EM (float32/"
        "float64/int16/int8) or MRC (float32/int16/int8) file made by the harness's own writers, converted by em2mrc/mrc2em with "
        "invert on/off, overwrite on/off, default/explicit/ill-named output, output pre-existing or not, stems ending in the letters "
        "of the cut extension (volume.em, ctf_corr.mrc), a fifth of the MRC inputs big-endian (machine stamp 11 11). 'seq' (G2): two or three calls in one process sharing the same ndarray "
        "object (second file / other options), the same path (rewritten with another shape/dtype, then read), or the same converter "
        "input and output (convert, then invert over it / be refused), each step judged like a single case; in both tiers also on LARGE files "
        "(>=40^3 float voxels, >=256 KiB): the same path rewritten with another large volume and read again, the same converter input path holding "
        "a NEW volume for the second conversion, convert-then-invert over the output; one large map is re-read after the caller edited the "
        "result, and each large map carries one non-default option (untransposed / data_type / reader data_type / Fortran layout / reader alias). "
        "The real code is called under the numpy error state its own import left (never under the harness's errstate). non-trivial = pairwise "
        "distinct x,y,z sizes and >=24 voxels and not a rejected name; distinct = distinct case content")
ASSUMPTIONS = [
    "mrcfile.write / emfile.write store the C-ordered array they are given with nx=shape[2], ny=shape[1], nz=shape[0] (Model.store); "
    "checked on every case on the file's BYTES by the Lean decoders (decodeMrc/decodeEm, proved left inverses of encodeMrc/encodeEm); the "
    "harness's Python parsers are cross-checked against them on every case and against the libraries by probes",
    "voxel value <-> bit pattern on disk (IEEE-754 binary32/64, two's complement int8/int16) is the driver's Drv.toWord/ofWord (Lean Float32/"
    "Int64 primitives); the byte-level theorems take it as the hypothesis `Representable`; validated on every voxel of every case",
    "emfile reads and writes little-endian only (ignores the machine byte); big-endian EM inputs are not generated",
    "numpy astype(float32) = IEEE round-to-nearest-even = Lean Float.toFloat32 (compared bit for bit on every float64 case)",
    "data_type=int16/int8 on float data is numpy's C conversion of the float64/float32 value itself: truncation toward zero, applied directly "
    "(never through float32); Drv.cast implements that; generated for finite in-range values only (out-of-range / NaN are undefined in C); "
    "probed on every run",
    "a file offered to the reader of the other container format (EM bytes under x.mrc) is refused by mrcfile/emfile (Model.read: badFormat); probed",
    "mrcfile writes mapc/mapr/maps = 1,2,3, nsymbt = 0, 'MAP ' and a little-endian stamp; emfile writes machine byte 6: library facts, probed on "
    "every run, reported per case as a correspondence finding only",
    "contrast inversion of the most negative int8/int16 value (-128 / -32768) wraps in numpy; such voxels are not generated for invert cases",
    "file-system behaviour is modelled as a name->content map; that a refused write leaves the bytes on disk untouched is validated (hash), not proved",
]
TRUSTED = ["hex transport of file bytes to the driver; Drv.toWord/ofWord (value <-> bit pattern); harness EM/MRC WRITERS for converter inputs "
           "(each input file is decoded by the Lean decoder and checked against the case's array: check_input)",
           "numpy as the independent evaluator of the statement (Fortran-order flattening = x fastest)"]
REL = "cryocat/cryomap.py"
DTYPES = ["float32", "float64", "int16", "int8"]
NP = {"float32": np.float32, "float64": np.float64, "int16": np.int16, "int8": np.int8}
IRANGE = {"int16": (-32768, 32767), "int8": (-128, 127)}
NAN_BITS = 0x7FF8000000000000


# ------------------------------------------------------------------ translator
# Every anchor works on a NORMALISED copy of the function (`_norm_fn`): docstrings, type annotations, exception
# messages and print/log texts dropped (H1); identifiers renamed BY BINDING, scope aware (H2): required positional
# parameters by position (_p0, _p1 ..), locals / inner functions / their parameters in order of first occurrence
# (_v0, _v1 ..), never-read bindings (discards) as `_`.  Keyword-able parameters (those with a default) keep their
# names: they are the public keywords and are anchored, with their defaults, by the `*Sig` items.  A missing
# anchor is recorded (anchorsOk = false breaks `anchors_ok`) and the DOCUMENTED value is emitted, so that the
# model keeps the documented behaviour and the correspondence run can still exhibit a concrete failing input.
DOC = dict(
    axes=[[2, 1, 0], "transpose and _p0.ndim == 3"], raxes=[[2, 1, 0], "transpose"],
    write=dict(steps=["astype(data_type)", "byteorder", "transpose", "narrow", "dispatch"], narrow=("float64", "float32"),
               mrc=[".mrc", ".rec"], em=[".em"], ow=True),
    read=dict(exts=["mrc", "ali", "rec", "st"], numeric=True, em=[".em"]),
    em2mrc=dict(inp=".em", out=".mrc", cut=2, app="mrc", factor=-1, plain=True),
    mrc2em=dict(inp=".mrc", out=".em", cut=3, app="em", factor=-1, plain=True),
    sig=dict(write=["_p0", "_p1", "transpose=True", "data_type=None", "overwrite=True"],
             read=["_p0", "transpose=True", "data_type=None"],
             em2mrc=["_p0", "invert=False", "overwrite=True", "output_name=None"],
             mrc2em=["_p0", "invert=False", "overwrite=True", "output_name=None"]),
)
# the documented normalised bodies (the same literals as the `*_body_documented` theorems of Props/C11.lean), kept here only to
# print a readable diff when the source moves away from them
DOC_BODY = {'em2mrc': ["if not isinstance(_p0, str):\n    raise ValueError\nelif not _p0.endswith('.em'):\n    raise ValueError",
            '_v0 = read(_p0)',
            'if invert:\n    _v0 = -_v0',
            "if output_name is None:\n    output_name = _p0[:-2] + 'mrc'\nelif not output_name.endswith('.mrc'):\n    raise ValueError",
            'write(_v0, output_name, overwrite=overwrite)'],
 'invert_contrast': ['_p0 = read(_p0)',
                     '_v0 = -_p0',
                     'if output_name is not None:\n'
                     '    if _v0.dtype == np.float64:\n'
                     '        _v1 = np.single\n'
                     '    else:\n'
                     '        _v1 = _v0.dtype\n'
                     '    write(_v0, output_name, data_type=_v1)',
                     'return _v0'],
 'mrc2em': ["if not isinstance(_p0, str):\n    raise ValueError\nelif not _p0.endswith('.mrc'):\n    raise ValueError",
            '_v0 = read(_p0)',
            'if invert:\n    _v0 = -_v0',
            "if output_name is None:\n    output_name = _p0[:-3] + 'em'\nelif not output_name.endswith('.em'):\n    raise ValueError",
            'write(_v0, output_name, overwrite=overwrite)'],
 'read': ['if isinstance(_p0, str):\n'
          '\n'
          '    def _v0(_v1):\n'
          "        _v2 = '\\\\.(mrc|ali|rec|st)(\\\\.\\\\d+)?$'\n"
          '        return bool(re.search(_v2, _v1))\n'
          '    if _v0(_p0):\n'
          '        _v3 = mrcfile.open(_p0).data\n'
          "    elif _p0.endswith('.em'):\n"
          '        _v3 = emfile.read(_p0)[1]\n'
          '    else:\n'
          '        raise ValueError\n'
          '    if transpose:\n'
          '        _v3 = _v3.transpose(2, 1, 0)\n'
          'elif isinstance(_p0, np.ndarray):\n'
          '    _v3 = np.array(_p0)\n'
          'else:\n'
          '    raise ValueError',
          '_v3 = np.array(_v3, copy=True)',
          'if data_type is not None:\n    _v3 = _v3.astype(data_type)',
          'return _v3'],
 'write': ['if data_type is not None:\n    _p0 = _p0.astype(data_type)',
           "if _p0.dtype.byteorder == '>':\n    _p0 = _p0.astype(_p0.dtype.newbyteorder('<'))",
           'if transpose and _p0.ndim == 3:\n    _p0 = _p0.transpose(2, 1, 0)',
           'if _p0.dtype == np.float64:\n    _p0 = _p0.astype(np.float32)',
           "if _p1.endswith('.mrc') or _p1.endswith('.rec'):\n"
           '    mrcfile.write(name=_p1, data=_p0, overwrite=overwrite)\n'
           "elif _p1.endswith('.em'):\n"
           '    emfile.write(_p1, data=_p0, overwrite=overwrite)\n'
           'else:\n'
           '    raise ValueError']}
AXIS_OPS = ("transpose", "swapaxes", "moveaxis", "rollaxis", "T", "mT", "einsum", "permute_dims", "flip", "rot90")


def _is_doc(st):
    return isinstance(st, ast.Expr) and isinstance(st.value, ast.Constant) and isinstance(st.value.value, str)


# calls whose string arguments are messages for a human (H1): their wording is not behaviour
LOG_FUNCS = {"print", "warn", "debug", "info", "warning", "error", "critical", "exception", "log"}
_REV = {}   # function name -> {canonical identifier: identifier in the source}, for messages that quote the source (H2)


class _Binding:
    __slots__ = ("name", "fixed", "seq", "loads", "param", "canon")

    def __init__(self, name, fixed=None, param=False):
        self.name, self.fixed, self.seq, self.loads, self.param, self.canon = name, fixed, None, 0, param, None


def _strip_fn(fn):
    """drop what is not behaviour: docstrings, annotations (`x: T = v` becomes `x = v`, a bare `x: T` disappears), the
    arguments of raised exceptions and `from` causes, the text handed to print / warnings.warn / logger calls"""
    class Strip(ast.NodeTransformer):
        def visit_AnnAssign(self, n):
            self.generic_visit(n)
            if n.value is None:
                return None
            return ast.copy_location(ast.Assign(targets=[n.target], value=n.value), n)

        def visit_arg(self, n):
            n.annotation = None
            return n

        def _fn(self, n):
            n.returns = None
            if n.body and _is_doc(n.body[0]):
                n.body = n.body[1:]
            self.generic_visit(n)
            n.body = n.body or [ast.Pass()]
            return n

        visit_FunctionDef = visit_AsyncFunctionDef = _fn

        def visit_Raise(self, n):
            if isinstance(n.exc, ast.Call):
                n.exc = n.exc.func
            n.cause = None
            return n

        def visit_BinOp(self, n):
            # `x * (-1)` / `(-1) * x` and `-x` are the same operation on float32/float64/int16/int8 arrays: one normal form
            self.generic_visit(n)
            def minus_one(e):
                return (isinstance(e, ast.UnaryOp) and isinstance(e.op, ast.USub) and isinstance(e.operand, ast.Constant) and e.operand.value == 1
                        and type(e.operand.value) is int) or (isinstance(e, ast.Constant) and type(e.value) is int and e.value == -1)
            if isinstance(n.op, ast.Mult) and (minus_one(n.right) or minus_one(n.left)):
                return ast.copy_location(ast.UnaryOp(op=ast.USub(), operand=n.left if minus_one(n.right) else n.right), n)
            return n

        def visit_Call(self, n):
            self.generic_visit(n)
            f = n.func
            fname = f.id if isinstance(f, ast.Name) else f.attr if isinstance(f, ast.Attribute) else None
            if fname in LOG_FUNCS and not (isinstance(f, ast.Attribute) and isinstance(f.value, ast.Name) and f.value.id in ("np", "numpy", "math")):
                n.args = [ast.Constant("<msg>") if isinstance(a, (ast.JoinedStr, ast.Constant)) and (
                    isinstance(a, ast.JoinedStr) or isinstance(a.value, str)) else a for a in n.args]
            return n

    fn = Strip().visit(fn)
    for holder in ast.walk(fn):      # a block emptied by the removal of a bare annotation
        if not isinstance(holder, ast.Module) and isinstance(getattr(holder, "body", None), list) and not holder.body:
            holder.body = [ast.Pass()]
    return fn


def _scope_locals(node):
    """names bound in the scope opened by `node` (a def / lambda / comprehension), not descending into nested scopes"""
    names, outside = [], set()

    def add(n):
        if n not in names:
            names.append(n)

    a = getattr(node, "args", None)
    if isinstance(a, ast.arguments):
        for q in a.posonlyargs + a.args + ([a.vararg] if a.vararg else []) + a.kwonlyargs + ([a.kwarg] if a.kwarg else []):
            add(q.arg)

    def walk(n, top=False):
        if not top and isinstance(n, (ast.FunctionDef, ast.AsyncFunctionDef, ast.ClassDef)):
            add(n.name)
            return
        if not top and isinstance(n, (ast.Lambda, ast.ListComp, ast.SetComp, ast.DictComp, ast.GeneratorExp)):
            return
        if isinstance(n, (ast.Global, ast.Nonlocal)):
            outside.update(n.names)
        elif isinstance(n, ast.Name) and isinstance(n.ctx, (ast.Store, ast.Del)):
            add(n.id)
        elif isinstance(n, ast.ExceptHandler) and n.name:
            add(n.name)
        for ch in ast.iter_child_nodes(n):
            if top and isinstance(n, (ast.FunctionDef, ast.AsyncFunctionDef, ast.Lambda)) and ch is n.args:
                continue
            if top and isinstance(n, (ast.FunctionDef, ast.AsyncFunctionDef)) and (ch in n.decorator_list):
                continue
            walk(ch)

    walk(node, top=True)
    return [n for n in names if n not in outside]


def _norm_fn(fn):
    """normalised private copy of a FunctionDef: see `_strip_fn`; then every identifier is renamed BY BINDING (scope
    aware: a parameter of an inner function and a variable of the outer one are different bindings even when they
    carry the same name): required positional parameters of the function itself `_p0, _p1 ..`, its keyword-able
    parameters keep their names (they are public and anchored by the `*Sig` items), every other binding `_v0, _v1 ..`
    in order of first occurrence, and a binding that is never read (a discard: `_`, `unused`, ..) is written `_`, each
    occurrence on its own.  Renaming any local, parameter or discard therefore changes nothing."""
    fn = _strip_fn(ast.parse(ast.unparse(fn)).body[0])
    counter = [0]
    allb = []

    def touch(b):
        if b.seq is None:
            b.seq = counter[0]
            counter[0] += 1

    def new_scope(node, env, top=False):
        env = dict(env)
        a = getattr(node, "args", None)
        fixed = {}
        if top:
            pos = a.posonlyargs + a.args
            nreq = len(pos) - len(a.defaults)
            fixed = {p.arg: f"_p{i}" for i, p in enumerate(pos[:nreq])}
            for p in pos[nreq:] + a.kwonlyargs + ([a.vararg] if a.vararg else []) + ([a.kwarg] if a.kwarg else []):
                fixed[p.arg] = p.arg
        params = set()
        if isinstance(a, ast.arguments):
            params = {q.arg for q in a.posonlyargs + a.args + a.kwonlyargs + ([a.vararg] if a.vararg else []) + ([a.kwarg] if a.kwarg else [])}
        for name in _scope_locals(node):
            b = _Binding(name, fixed.get(name), name in params)
            env[name] = b
            allb.append(b)
        return env

    def visit(n, env):
        if isinstance(n, (ast.FunctionDef, ast.AsyncFunctionDef)):
            b = env.get(n.name)
            if b is not None:
                touch(b)
                n._b = b
            for d in n.decorator_list:
                visit(d, env)
            for d in n.args.defaults + [k for k in n.args.kw_defaults if k is not None]:
                visit(d, env)
            inner = new_scope(n, env)
            for q in n.args.posonlyargs + n.args.args + ([n.args.vararg] if n.args.vararg else []) + n.args.kwonlyargs + ([n.args.kwarg] if n.args.kwarg else []):
                touch(inner[q.arg])
                q._b = inner[q.arg]
            for st in n.body:
                visit(st, inner)
            return
        if isinstance(n, ast.Lambda):
            for d in n.args.defaults + [k for k in n.args.kw_defaults if k is not None]:
                visit(d, env)
            inner = new_scope(n, env)
            for q in n.args.posonlyargs + n.args.args + ([n.args.vararg] if n.args.vararg else []) + n.args.kwonlyargs + ([n.args.kwarg] if n.args.kwarg else []):
                touch(inner[q.arg])
                q._b = inner[q.arg]
            visit(n.body, inner)
            return
        if isinstance(n, (ast.ListComp, ast.SetComp, ast.DictComp, ast.GeneratorExp)):
            inner = new_scope(n, env)
            for g in n.generators:       # evaluation order: the generators first, then the element
                visit(g.iter, inner)
                visit(g.target, inner)
                for c in g.ifs:
                    visit(c, inner)
            for fld in ("elt", "key", "value"):
                if hasattr(n, fld):
                    visit(getattr(n, fld), inner)
            return
        if isinstance(n, ast.Name):
            b = env.get(n.id)
            if b is not None:
                touch(b)
                n._b = b
                if isinstance(n.ctx, ast.Load):
                    b.loads += 1
            return
        if isinstance(n, ast.AugAssign) and isinstance(n.target, ast.Name) and n.target.id in env:
            env[n.target.id].loads += 1      # `x += 1` reads x
        if isinstance(n, ast.ExceptHandler) and n.name and n.name in env:
            touch(env[n.name])
            n._b = env[n.name]
        for ch in ast.iter_child_nodes(n):
            visit(ch, env)

    top_env = new_scope(fn, {}, top=True)
    a = fn.args
    for d in a.defaults + [k for k in a.kw_defaults if k is not None]:
        visit(d, {})
    for q in a.posonlyargs + a.args + ([a.vararg] if a.vararg else []) + a.kwonlyargs + ([a.kwarg] if a.kwarg else []):
        touch(top_env[q.arg])
        q._b = top_env[q.arg]
    for st in fn.body:
        visit(st, top_env)
    k = 0
    rev = {}
    for b in sorted((b for b in allb if b.seq is not None), key=lambda b: b.seq):
        if b.fixed is not None:
            b.canon = b.fixed
        elif b.loads == 0 and not b.param:
            b.canon = "_"
        else:
            b.canon = f"_v{k}"
            k += 1
        if b.canon != "_":
            rev[b.canon] = b.name
    for n in ast.walk(fn):
        b = getattr(n, "_b", None)
        if b is None:
            continue
        if isinstance(n, ast.Name):
            n.id = b.canon
        elif isinstance(n, ast.arg):
            n.arg = b.canon
        elif isinstance(n, (ast.FunctionDef, ast.AsyncFunctionDef, ast.ExceptHandler)):
            n.name = b.canon
    _REV[fn.name] = rev
    out = ast.parse(ast.unparse(fn)).body[0]
    return out


def _denorm(text, fname):
    """a message about the normalised function, with the identifiers as they are written in the source"""
    rev = _REV.get(fname, {})
    return re.sub(r"\b_[pv][0-9]+\b", lambda m: rev.get(m.group(0), m.group(0)), text)


def _body_dump(fn):
    """the normalised body, one string per top-level statement"""
    return [ast.unparse(st) for st in _norm_fn(fn).body]


def _signature(fn):
    """positional-required parameters by position, keyword-able ones as name=default"""
    a = fn.args
    pos = a.posonlyargs + a.args
    nreq = len(pos) - len(a.defaults)
    out = [f"_p{i}" for i in range(nreq)]
    out += [f"{p.arg}={ast.unparse(d)}" for p, d in zip(pos[nreq:], a.defaults)]
    if a.vararg:
        out.append("*" + a.vararg.arg)
    out += [f"{p.arg}={'<required>' if d is None else ast.unparse(d)}" for p, d in zip(a.kwonlyargs, a.kw_defaults)]
    if a.kwarg:
        out.append("**" + a.kwarg.arg)
    return out


def _sig_default(sig, key, doc):
    for item in sig or []:
        if item.startswith(key + "="):
            return item.split("=", 1)[1]
    return doc


def _calls(node, attr):
    return [n for n in ast.walk(node) if isinstance(n, ast.Call) and isinstance(n.func, ast.Attribute) and n.func.attr == attr]


def _axis_ops(fn):
    """every expression that can permute / reverse axes: x.transpose(..), x.T, np.transpose(..), swapaxes, moveaxis,
    einsum, flip ..; and slices with a negative step"""
    hits = []
    for n in ast.walk(fn):
        if isinstance(n, ast.Attribute) and n.attr in AXIS_OPS:
            hits.append(n)
        elif isinstance(n, ast.Slice) and n.step is not None and ast.unparse(n.step).replace(" ", "") not in ("1", "None"):
            hits.append(n)
    return hits


def _transpose_anchor(fn, what):
    fn = _norm_fn(fn)
    ops = _axis_ops(fn)
    if len(ops) != 1:
        raise core.AnchorMissing(f"{what}: expected exactly one axis-permuting expression, found {len(ops)}: "
                                 + "; ".join(ast.unparse(o)[:60] for o in ops))
    hits = {}
    for st in ast.walk(fn):  # breadth first: an inner `if` overwrites the entry made by an enclosing one
        if isinstance(st, ast.If):
            for c in _calls(ast.Module(body=st.body, type_ignores=[]), "transpose"):
                axes = [a.value for a in c.args if isinstance(a, ast.Constant)]
                if len(axes) == len(c.args) and not c.keywords and c.func is ops[0]:
                    hits[id(c)] = (axes, ast.unparse(st.test))
    if len(hits) != 1:
        raise core.AnchorMissing(f"{what}: the axis-permuting expression `{ast.unparse(ops[0])[:60]}` is not a guarded .transpose(<consts>)")
    return list(hits.values())[0]


def _endswith_consts(test):
    out = []
    for c in _calls(test, "endswith"):
        if len(c.args) == 1 and isinstance(c.args[0], ast.Constant) and isinstance(c.args[0].value, str):
            out.append(c.args[0].value)
        else:
            raise core.AnchorMissing("endswith with a non-literal argument")
    return out


def _has_call(nodes, modname, fname):
    for st in nodes:
        for n in ast.walk(st):
            if isinstance(n, ast.Call) and isinstance(n.func, ast.Attribute) and n.func.attr == fname \
                    and isinstance(n.func.value, ast.Name) and n.func.value.id == modname:
                return n
    return None


def _np_name(node):
    """np.float64 / numpy.float32 / np.single -> 'float64' ..."""
    if isinstance(node, ast.Attribute) and isinstance(node.value, ast.Name) and node.value.id in ("np", "numpy"):
        return node.attr
    raise core.AnchorMissing(f"not a numpy dtype name: {ast.unparse(node)}")


def _write_anchors(src):
    fn = _norm_fn(src.find(REL, "write"))
    steps, narrow, mrc_exts, em_exts, ow = [], None, None, None, True
    for st in fn.body:
        if not isinstance(st, ast.If):
            steps.append("other:" + ast.unparse(st)[:80])   # every top-level statement is accounted for
            continue
        t = ast.unparse(st.test)
        body_txt = ast.unparse(ast.Module(body=st.body, type_ignores=[]))
        if t == "data_type is not None" and body_txt == "_p0 = _p0.astype(data_type)" and not st.orelse:
            steps.append("astype(data_type)")
        elif t == "_p0.dtype.byteorder == '>'" and body_txt == "_p0 = _p0.astype(_p0.dtype.newbyteorder('<'))" and not st.orelse:
            steps.append("byteorder")       # big-endian data -> little-endian, the byte order the written headers declare
        elif ".transpose(" in body_txt:
            steps.append("transpose")
        elif isinstance(st.test, ast.Compare) and ".dtype" in t and "astype" in body_txt:
            if not (len(st.test.ops) == 1 and isinstance(st.test.ops[0], ast.Eq) and ast.unparse(st.test.left) == "_p0.dtype"):
                raise core.AnchorMissing("write: narrowing test is not `<data>.dtype == <type>`")
            if st.orelse or narrow is not None or len(st.body) != 1:
                raise core.AnchorMissing("write: more than the one documented implicit conversion (float64 -> float32)")
            frm = _np_name(st.test.comparators[0])
            to = _np_name(_calls(ast.Module(body=st.body, type_ignores=[]), "astype")[0].args[0])
            if body_txt != f"_p0 = _p0.astype({ast.unparse(_calls(st, 'astype')[0].args[0])})":
                raise core.AnchorMissing("write: narrowing statement is not `<data> = <data>.astype(<type>)`")
            narrow = (frm, to)
            steps.append("narrow")
        elif "endswith" in t:
            steps.append("dispatch")
            node, mrc_exts, em_exts = st, [], []
            while isinstance(node, ast.If):
                exts = _endswith_consts(node.test)
                if any(ast.unparse(c.func.value) != "_p1" for c in _calls(node.test, "endswith")):
                    raise core.AnchorMissing("write: extension test not on the file name")
                cm, ce = _has_call(node.body, "mrcfile", "write"), _has_call(node.body, "emfile", "write")
                for c in (cm, ce):
                    if c is not None:
                        kw = {k.arg: ast.unparse(k.value) for k in c.keywords}
                        ow = ow and kw.get("overwrite") == "overwrite"
                if cm is not None:
                    mrc_exts += exts
                elif ce is not None:
                    em_exts += exts
                else:
                    raise core.AnchorMissing("write: extension branch without mrcfile.write/emfile.write")
                node = node.orelse[0] if len(node.orelse) == 1 else None
        else:
            steps.append("other:if " + t[:80])
    if narrow is None or mrc_exts is None:
        raise core.AnchorMissing("write: narrowing or extension dispatch not found")
    return dict(steps=steps, narrow=narrow, mrc=mrc_exts, em=em_exts, ow=ow)


def _read_anchors(src):
    fn = _norm_fn(src.find(REL, "read"))
    inner = [n for n in ast.walk(fn) if isinstance(n, ast.FunctionDef) and n is not fn]
    if len(inner) != 1:
        raise core.AnchorMissing("read: expected the one inner name-pattern function")
    vm = inner[0]
    pats = [n.value.value for n in ast.walk(vm) if isinstance(n, ast.Assign) and isinstance(n.value, ast.Constant) and isinstance(n.value.value, str)]
    if len(pats) != 1:
        raise core.AnchorMissing("read: pattern literal of the inner function")
    m = re.fullmatch(r"\\\.\(([a-z|]+)\)(\(\\\.\\d\+\)\?)?\$", pats[0])
    if not m:
        raise core.AnchorMissing(f"read: pattern {pats[0]!r} is not \\.(a|b|..)(\\.\\d+)?$")
    if not any(isinstance(n, ast.Attribute) and n.attr == "search" for n in ast.walk(vm)):
        raise core.AnchorMissing("read: the inner function does not use re.search")
    em = None
    for st in ast.walk(fn):
        if isinstance(st, ast.If) and ast.unparse(st.test) == f"{vm.name}(_p0)":
            if _has_call(st.body, "mrcfile", "open") is None:
                raise core.AnchorMissing("read: mrc branch does not call mrcfile.open")
            nxt = st.orelse[0] if len(st.orelse) == 1 and isinstance(st.orelse[0], ast.If) else None
            if nxt is None or _has_call(nxt.body, "emfile", "read") is None:
                raise core.AnchorMissing("read: em branch")
            if any(ast.unparse(c.func.value) != "_p0" for c in _calls(nxt.test, "endswith")):
                raise core.AnchorMissing("read: extension test not on the file name")
            em = _endswith_consts(nxt.test)
    if em is None:
        raise core.AnchorMissing("read: extension dispatch")
    return dict(exts=m.group(1).split("|"), numeric=m.group(2) is not None, em=em)


def _conv_anchors(src, name):
    fn = _norm_fn(src.find(REL, name))
    d = dict(inp=None, out=None, cut=None, app=None, factor=None, plain=True)
    for st in ast.walk(fn):
        if isinstance(st, ast.If):
            t = st.test
            if isinstance(t, ast.UnaryOp) and isinstance(t.op, ast.Not) and "endswith" in ast.unparse(t) and any(isinstance(b, ast.Raise) for b in st.body):
                target = ast.unparse(t.operand).split(".endswith")[0]
                ext = _endswith_consts(t)[0]
                if target == "_p0":
                    d["inp"] = ext
                elif target == "output_name":
                    d["out"] = ext
            if ast.unparse(t) == "invert":
                for n in ast.walk(ast.Module(body=st.body, type_ignores=[])):
                    if isinstance(n, ast.BinOp) and isinstance(n.op, ast.Mult):
                        d["factor"] = int(ast.literal_eval(ast.unparse(n.right)))
                    elif isinstance(n, ast.UnaryOp) and isinstance(n.op, ast.USub) and d["factor"] is None:
                        d["factor"] = -1      # `-data` (also the normal form of `data * (-1)`)
        if isinstance(st, ast.Assign) and ast.unparse(st.targets[0]) == "output_name" and isinstance(st.value, ast.BinOp) and isinstance(st.value.op, ast.Add):
            l, r = st.value.left, st.value.right
            if isinstance(l, ast.Subscript) and ast.unparse(l.value) == "_p0" and isinstance(l.slice, ast.Slice) and l.slice.lower is None and l.slice.step is None:
                d["cut"] = -int(ast.literal_eval(ast.unparse(l.slice.upper)))
                d["app"] = r.value if isinstance(r, ast.Constant) else None
    reads = [n for n in ast.walk(fn) if isinstance(n, ast.Call) and isinstance(n.func, ast.Name) and n.func.id == "read"]
    writes = [n for n in ast.walk(fn) if isinstance(n, ast.Call) and isinstance(n.func, ast.Name) and n.func.id == "write"]
    others = [ast.unparse(n.func) for n in ast.walk(fn) if isinstance(n, ast.Call) and isinstance(n.func, ast.Name)
              and n.func.id not in ("read", "write", "isinstance", "ValueError")]
    var = None
    for st in fn.body:
        if isinstance(st, ast.Assign) and len(st.targets) == 1 and isinstance(st.targets[0], ast.Name) and ast.unparse(st.value) == "read(_p0)":
            var = st.targets[0].id
    d["plain"] = (len(reads) == 1 and len(writes) == 1 and var is not None and not others
                  and ast.unparse(writes[0]) == f"write({var}, output_name, overwrite=overwrite)")
    if any(d[k] is None for k in ("inp", "out", "cut", "app", "factor")) or d["cut"] < 0:
        raise core.AnchorMissing(f"{name}: {d}")
    return d


def _lean_str(s):
    return '"' + s.replace("\\", "\\\\").replace('"', '\\"').replace("\n", "\\n") + '"'


def _lean_strs(xs):
    return "[" + ", ".join(_lean_str(x) for x in xs) + "]"


def translate(src):
    def quoting(fname, f):
        """H2: an AnchorMissing text names the identifiers as the source writes them, not `_p0` / `_v3`"""
        def run():
            try:
                return f()
            except core.AnchorMissing as e:
                raise core.AnchorMissing(_denorm(str(e), fname))
        return run

    w_ax = src.anchor("write:transpose-axes/guard/only-axis-op", quoting("write", lambda: list(_transpose_anchor(src.find(REL, "write"), "write"))))
    r_ax = src.anchor("read:transpose-axes/guard/only-axis-op", quoting("read", lambda: list(_transpose_anchor(src.find(REL, "read"), "read"))))
    w = src.anchor("write:steps/narrowing/extension-dispatch", quoting("write", lambda: _write_anchors(src)))
    r = src.anchor("read:name-pattern/extension-dispatch", quoting("read", lambda: _read_anchors(src)))
    e2m = src.anchor("em2mrc:names/factor/calls", quoting("em2mrc", lambda: _conv_anchors(src, "em2mrc")))
    m2e = src.anchor("mrc2em:names/factor/calls", quoting("mrc2em", lambda: _conv_anchors(src, "mrc2em")))
    sig, body = {}, {}
    for f in ("write", "read", "em2mrc", "mrc2em"):
        sig[f] = src.anchor(f"{f}:signature(keywords and defaults)", lambda f=f: _signature(src.find(REL, f))) or DOC["sig"][f]
    for f in ("write", "read", "em2mrc", "mrc2em", "invert_contrast"):
        try:
            body[f] = _body_dump(src.find(REL, f))
        except Exception:
            body[f] = []

        def same_as_documented(f=f):
            # the Lean theorem `<f>_body_documented` decides; this anchor only SHOWS what moved, in the source's own identifiers
            if body[f] != DOC_BODY[f]:
                import difflib
                d = "\n".join(difflib.unified_diff("\n".join(DOC_BODY[f]).splitlines(), "\n".join(body[f]).splitlines(),
                                                   "documented", "current source", lineterm="", n=1))
                raise core.AnchorMissing(f"{f}: normalised body differs from the documented one:\n" + _denorm(d, f))
            return body[f]
        src.anchor(f"{f}:normalised-body", same_as_documented)
    w_ax = w_ax or DOC["axes"]
    r_ax = r_ax or DOC["raxes"]
    w = w or DOC["write"]
    r = r or DOC["read"]
    e2m, m2e = e2m or DOC["em2mrc"], m2e or DOC["mrc2em"]
    B = lambda b: "true" if b else "false"
    L = _lean_strs
    S = _lean_str
    PB = lambda v, doc: B({"True": True, "False": False}.get(v, doc))

    def conv(prefix, d, sg):
        return (f"def {prefix}In : String := {S(d['inp'])}\ndef {prefix}Out : String := {S(d['out'])}\n"
                f"def {prefix}Cut : Nat := {d['cut']}\ndef {prefix}Append : String := {S(d['app'])}\n"
                f"def {prefix}Factor : Int := {d['factor']}\ndef {prefix}Plain : Bool := {B(d['plain'])}\n"
                f"def {prefix}Sig : List String := {L(sg)}\n"
                f"def {prefix}DefaultInvert : Bool := {PB(_sig_default(sg, 'invert', 'False'), False)}\n"
                f"def {prefix}DefaultOverwrite : Bool := {PB(_sig_default(sg, 'overwrite', 'True'), True)}\n"
                f"def {prefix}DefaultOutput : String := {S(_sig_default(sg, 'output_name', 'None'))}\n")

    def dflt_dtype(v):
        return v.split(".")[-1]   # np.float32 -> float32 ; None -> None

    return f"""-- GENERATED by harness/props/c11.py from {REL}; do not edit
namespace CryoCat.Gen.C11
def anchorsOk : Bool := {B(src.ok)}
def writeAxes : List Nat := [{", ".join(str(int(a)) for a in w_ax[0])}]
def readAxes : List Nat := [{", ".join(str(int(a)) for a in r_ax[0])}]
def writeTransposeGuard : String := {S(w_ax[1])}
def readTransposeGuard : String := {S(r_ax[1])}
def writeSteps : List String := {L(w['steps'])}
def narrowFrom : String := {S(w['narrow'][0])}
def narrowTo : String := {S(w['narrow'][1])}
def writeMrcExts : List String := {L(w['mrc'])}
def writeEmExts : List String := {L(w['em'])}
def writePassesOverwrite : Bool := {B(w['ow'])}
def readMrcExts : List String := {L(r['exts'])}
def readNumericSuffix : Bool := {B(r['numeric'])}
def readEmExts : List String := {L(r['em'])}
def writeSig : List String := {L(sig['write'])}
def writeDefaultTranspose : Bool := {PB(_sig_default(sig['write'], 'transpose', 'True'), True)}
def writeDefaultDataType : String := {S(dflt_dtype(_sig_default(sig['write'], 'data_type', 'None')))}
def writeDefaultOverwrite : Bool := {PB(_sig_default(sig['write'], 'overwrite', 'True'), True)}
def readSig : List String := {L(sig['read'])}
def readDefaultTranspose : Bool := {PB(_sig_default(sig['read'], 'transpose', 'True'), True)}
def readDefaultDataType : String := {S(dflt_dtype(_sig_default(sig['read'], 'data_type', 'None')))}
{conv('em2mrc', e2m, sig['em2mrc'])}{conv('mrc2em', m2e, sig['mrc2em'])}def writeBody : List String := {L(body['write'])}
def readBody : List String := {L(body['read'])}
def em2mrcBody : List String := {L(body['em2mrc'])}
def mrc2emBody : List String := {L(body['mrc2em'])}
def invertContrastBody : List String := {L(body['invert_contrast'])}
end CryoCat.Gen.C11
"""


# ------------------------------------------------------------------ independent parsers / writers
MRC_MODES = {0: "int8", 1: "int16", 2: "float32", 6: "uint16", 12: "float16"}
EM_CODES = {1: "int8", 2: "int16", 4: "int32", 5: "float32", 9: "float64"}
ITEM = {"int8": 1, "int16": 2, "float32": 4, "float64": 8, "int32": 4, "uint16": 2, "float16": 2}


def _bits(flat):
    """1-D numpy array -> list of binary64 bit patterns (NaN canonical); None for anything that is not a real
    number type (text / object / complex / bool arrays are reported by their dtype, never coerced)"""
    flat = np.asarray(flat)
    if flat.dtype.kind not in "iuf":
        return None
    v = flat.astype(np.float64)
    b = v.view(np.uint64).copy()
    b[np.isnan(v)] = NAN_BITS
    return b.tolist()


def parse_mrc(path):
    raw = open(path, "rb").read()
    if len(raw) < 1024:
        return dict(kind="mrc", bad="short header")
    tag, stamp = raw[208:212], raw[212:214]
    # machine stamp: 0x44 0x44 / 0x44 0x41 little-endian, 0x11 0x11 big-endian (both are valid MRC2014 files)
    bo = ">" if stamp == b"\x11\x11" else "<"
    nx, ny, nz, mode = struct.unpack(bo + "4i", raw[:16])
    mapc, mapr, maps = struct.unpack(bo + "3i", raw[64:76])
    nsymbt = struct.unpack(bo + "i", raw[92:96])[0]
    dt = MRC_MODES.get(mode)
    out = dict(kind="mrc", dims=[nx, ny, nz], mode=mode, dtype=dt, mapcrs=[mapc, mapr, maps], nsymbt=nsymbt,
               map_tag_ok=(tag == b"MAP "), little_endian=(stamp == b"\x44\x44" or stamp == b"\x44\x41"),
               stamp_ok=stamp in (b"\x44\x44", b"\x44\x41", b"\x11\x11"))
    if dt is None or min(nx, ny, nz) < 0:
        out["bad"] = "mode/dims"
        return out
    payload = raw[1024 + nsymbt:]
    out["size_ok"] = (len(payload) == nx * ny * nz * ITEM[dt])
    n = len(payload) // ITEM[dt]
    out["data"] = _bits(np.frombuffer(payload[: n * ITEM[dt]], dtype=np.dtype(dt).newbyteorder(bo)))
    return out


def parse_em(path):
    raw = open(path, "rb").read()
    if len(raw) < 512:
        return dict(kind="em", bad="short header")
    machine, code = raw[0], raw[3]
    nx, ny, nz = struct.unpack("<3i", raw[4:16])
    dt = EM_CODES.get(code)
    out = dict(kind="em", dims=[nx, ny, nz], code=code, dtype=dt, machine=machine, little_endian=(machine == 6))
    if dt is None or min(nx, ny, nz) < 0:
        out["bad"] = "code/dims"
        return out
    payload = raw[512:]
    out["size_ok"] = (len(payload) == nx * ny * nz * ITEM[dt])
    n = len(payload) // ITEM[dt]
    out["data"] = _bits(np.frombuffer(payload[: n * ITEM[dt]], dtype=np.dtype(dt).newbyteorder("<")))
    return out


def parse_by_content(path):
    """decide the format by the bytes, not by the name: MRC has 'MAP ' at 208"""
    raw = open(path, "rb").read(216)
    return parse_mrc(path) if len(raw) >= 212 and raw[208:212] == b"MAP " else parse_em(path)


def write_em_own(path, vol_xyz):
    """own EM writer: 512-byte header, x fastest"""
    code = {v: k for k, v in EM_CODES.items()}[vol_xyz.dtype.name]
    hdr = bytes([6, 0, 0, code]) + struct.pack("<3i", *vol_xyz.shape) + b"\x00" * (512 - 16)
    with open(path, "wb") as f:
        f.write(hdr + np.ascontiguousarray(vol_xyz).astype(vol_xyz.dtype.newbyteorder("<")).tobytes(order="F"))


def write_mrc_own(path, vol_xyz, big=False):
    """own minimal MRC2014 writer: 1024-byte header, x fastest, mapc/r/s = 1,2,3, space group 1 (volume); `big`: the
    whole file (header numbers and payload) in big-endian byte order with machine stamp 0x11 0x11, as written on / by
    big-endian platforms and by mrcfile for big-endian arrays"""
    mode = {v: k for k, v in MRC_MODES.items()}[vol_xyz.dtype.name]
    nx, ny, nz = vol_xyz.shape
    bo = ">" if big else "<"
    h = bytearray(1024)
    h[0:16] = struct.pack(bo + "4i", nx, ny, nz, mode)
    h[28:40] = struct.pack(bo + "3i", nx, ny, nz)          # mx my mz
    h[40:52] = struct.pack(bo + "3f", nx, ny, nz)          # cella
    h[52:64] = struct.pack(bo + "3f", 90.0, 90.0, 90.0)    # cellb
    h[64:76] = struct.pack(bo + "3i", 1, 2, 3)
    v = vol_xyz.astype(np.float64)
    h[76:88] = struct.pack(bo + "3f", float(v.min()), float(v.max()), float(v.mean()))
    h[88:92] = struct.pack(bo + "i", 1)                    # ispg = 1: a volume (0 would make nz=1 a 2-D image for mrcfile)
    h[108:112] = struct.pack(bo + "i", 20140)
    h[208:212] = b"MAP "
    h[212:216] = b"\x11\x11\x00\x00" if big else b"\x44\x44\x00\x00"
    h[216:220] = struct.pack(bo + "f", float(v.std()))
    with open(path, "wb") as f:
        f.write(bytes(h) + np.ascontiguousarray(vol_xyz).astype(vol_xyz.dtype.newbyteorder(bo)).tobytes(order="F"))


# ------------------------------------------------------------------ arrays from case descriptions
def _specials(dtype):
    if dtype == "float64":
        t = np.float32(1.2345678)
        tie = (float(t) + float(np.nextafter(t, np.float32(np.inf)))) / 2
        return [tie, -tie * 1024, 0.1, 1e-40, -3e-46, 3.4028235e38, 3.5e38, -1e300, 0.0, -0.0, float("inf"), float("-inf"), float("nan"), 16777217.0]
    if dtype == "float32":
        return [0.1, 1e-40, 3.4028235e38, 0.0, -0.0, float("inf"), float("-inf"), float("nan"), 16777216.0, -1.17549435e-38]
    lo, hi = IRANGE[dtype]
    return [lo, hi, 0, -1, 1]


def build(case):
    """the (x,y,z) array of an 'rw' or 'conv' case"""
    x, y, z = case["shape"]
    dt = case["dtype"]
    fill = case["fill"]
    lo, hi = fill.get("lo", -100), fill.get("hi", 100)
    i, j, k = np.meshgrid(np.arange(x), np.arange(y), np.arange(z), indexing="ij")
    if fill["mode"] == "frac":
        # non-integral values for the integer casts: a whole number n (strictly inside the target range) plus an
        # offset that keeps trunc(n+offset) in range; a share sits a hair below a whole number (toward zero from it)
        g = np.random.default_rng(fill["seed"])
        n = g.integers(lo + 1, hi, size=(x, y, z)).astype(np.float64)
        off = np.array(FRAC_OFFSETS)[g.integers(0, len(FRAC_OFFSETS), size=(x, y, z))]
        a = (n + off).astype(NP[dt])
        if dt == "float32":   # the float32 neighbours of whole numbers (n + 0.99999999 itself rounds to n + 1)
            m = g.random((x, y, z)) < 0.3
            a[m] = np.nextafter(n.astype(np.float32), np.float32(0))[m]
    elif fill["mode"] == "index":
        ca, cb, cc, off = fill["coef"]
        v = ca * i + cb * j + cc * k + off
        if dt.startswith("int") or fill.get("integral"):
            span = hi - lo + 1
            a = ((v - lo) % span + lo).astype(NP[dt])
        else:
            a = (v.astype(np.float64) * fill.get("scale", 1.0)).astype(NP[dt])
    else:
        g = np.random.default_rng(fill["seed"])
        if dt.startswith("int") or fill.get("integral"):
            a = g.integers(lo, hi + 1, size=(x, y, z)).astype(NP[dt])
        else:
            a = (g.standard_normal((x, y, z)) * fill.get("scale", 1.0)).astype(NP[dt])
    a = np.ascontiguousarray(a)
    flat = a.reshape(-1)
    for pos, bits in case.get("plant", []):
        if pos < flat.size:
            flat[pos] = NP[dt](core.b2f(bits)) if not dt.startswith("int") else NP[dt](int(core.b2f(bits)))
    return a


FRAC_OFFSETS = [0.99999999, -0.99999999, 0.9999999999, -0.9999999999, 0.5, -0.5, 0.25, -0.75, 0.0, 1e-9, -1e-9, 0.999, -0.001]
LAYOUTS = ["C", "F", "tview", "strided", "from_read", "bigendian"]


def _apply_layout(a, layout):
    """the same (x,y,z) values in another memory layout (the statement is about values, not strides)"""
    if layout == "F":
        return np.asfortranarray(a)
    if layout == "tview":    # a transposed view of a C-ordered (z,y,x) array: what `something.transpose(2,1,0)` / `.T` gives
        return np.ascontiguousarray(a.transpose(2, 1, 0)).transpose(2, 1, 0)
    if layout == "bigendian":   # what cryomap.read / mrcfile return for a big-endian MRC file (stamp 0x11 0x11): dtype '>f4', '>i2'
        return a.astype(a.dtype.newbyteorder(">"))
    if layout == "strided":  # every second element of a larger buffer along x and z
        big = np.zeros((2 * a.shape[0], a.shape[1], 2 * a.shape[2] + 1), dtype=a.dtype)
        v = big[::2, :, 1::2]
        v[...] = a
        return v
    return a


def _arr_json(a):
    return dict(shape=list(a.shape), dtype=a.dtype.name, data=_bits(np.ascontiguousarray(a).reshape(-1)))


# ------------------------------------------------------------------ generators
def _fill(rng, dtype, others, invert=False):
    """value description compatible with every dtype the values pass through (exact casts only)"""
    ints = [t for t in [dtype] + others if t in IRANGE]
    f = {}
    if ints:
        lo = max(IRANGE[t][0] for t in ints)
        hi = min(IRANGE[t][1] for t in ints)
        if invert:
            lo += 1
        f.update(lo=lo, hi=hi)
        if not dtype.startswith("int"):
            if rng.random() < 0.65 and hi - lo > 4:
                # float -> int cast of NON-integral values: numpy truncates the value itself toward zero
                f.update(mode="frac", seed=rng.randrange(1 << 30))
                return f
            f["integral"] = True
    if rng.random() < 0.6:
        f.update(mode="index", coef=[1, rng.choice([50, 7, 3]), rng.choice([2500, 61, 11]), rng.randint(-5, 5)])
        if not ints:
            f["scale"] = rng.choice([1.0, 0.37, 1.0 / 3.0, 1e-3])
    else:
        f.update(mode="random", seed=rng.randrange(1 << 30))
        if not ints:
            f["scale"] = rng.choice([1.0, 100.0, 1e-3, 1e20])
    return f


def _plant(rng, dtype, nvox, allow, invert=False):
    if not allow or rng.random() < 0.4:
        return []
    sp = _specials(dtype)
    if invert and dtype in IRANGE:
        sp = [s for s in sp if s != IRANGE[dtype][0]]
    return [[rng.randrange(nvox), core.f2b(float(rng.choice(sp)))] for _ in range(min(nvox, rng.randint(1, 6)))]


def _shape(rng, cap, top=48):
    while True:
        k = rng.random()
        if k < 0.5:
            s = [rng.randint(1, top) for _ in range(3)]
        elif k < 0.8:
            s = [rng.randint(1, top), rng.randint(1, 12), rng.randint(1, 6)]
            rng.shuffle(s)
        else:
            s = [rng.randint(1, 7) for _ in range(3)]
        if s[0] * s[1] * s[2] <= cap:
            return s


GOOD_EXT = ["mrc", "rec", "em"]
BAD_WRITE_NAMES = ["vol.map", "vol.mrcs", "vol.EM", "vol.mrc.1", "vol.st", "volmrc", "vol.em.bak", "vol.rec ", "vol"]
# documented signature defaults (written by hand): what an omitted keyword means
DEFAULTS_RW = dict(transpose=True, data_type=None, rtranspose=True, rdata_type=None)
DEFAULTS_CONV = dict(invert=False, overwrite=True, output=None)
# shapes above 32**3 voxels (and above 16**3 / 64**2 rows) whose x extent needs fewer tiles than z: quick tier too
LARGE_SHAPES = [(24, 40, 44), (32, 33, 33), (20, 47, 48), (30, 31, 48), (17, 46, 45), (44, 40, 24), (8, 33, 40), (16, 17, 48)]
# converter stems: also stems ending in the letters of the extension that is cut (e/m/r/c/.)
STEMS = ["vol", "my.vol", "a.em", "t_01.mrc", "x", "volume", "ribosome", "frame", "ctf_corr", "subtomo_c", "mem", "cc.", "e", "tomo.m", "mrc"]


def _omit(rng, case, defaults):
    """G1: which keywords the call leaves out (only ones whose value is the documented default)"""
    at_default = [k for k, v in defaults.items() if case.get(k) == v]
    k = rng.random()
    if k < 0.35:
        return at_default                       # keyword-less wherever possible: write(a, p) / read(p) / em2mrc(p)
    if k < 0.6:
        return [q for q in at_default if rng.random() < 0.5]
    return []


def _rw_case(rng, shape, dtype=None, ext=None, simple=False):
    dtype = dtype or rng.choice(DTYPES)
    ext = ext or rng.choice(GOOD_EXT)
    case = dict(kind="rw", shape=list(shape), dtype=dtype, name="vol." + ext, transpose=True, rtranspose=True,
                data_type=None, rdata_type=None, rname="same", layout="C", reread=False)
    if not simple:
        if rng.random() < 0.2:
            case["transpose"] = rng.random() < 0.5
            case["rtranspose"] = rng.random() < 0.5
        if rng.random() < 0.3:
            case["data_type"] = rng.choice(DTYPES)
        if rng.random() < 0.25:
            case["rdata_type"] = rng.choice(DTYPES)
        if rng.random() < 0.3:
            case["name"] = rng.choice(["vol.", "my.vol.v2.", "tomo_001.em.", "a.mrc.", ".hidden.", "x"]) + ext
        k = rng.random()
        if k < 0.15 and ext != "em":
            case["rname"] = rng.choice(["numeric", "ali", "st", "rec", "mrc", "st.numeric"])
        elif k < 0.20:
            case["rname"] = rng.choice(["bad.map", "bad.mrcs", "bad.EM", "bad.mrc.", "bad.rec.1a", "bad.em.1"])
        elif k < 0.24:
            case["rname"] = "cross"             # the file is offered to the reader of the OTHER container format
        if rng.random() < 0.35:
            case["layout"] = rng.choice(LAYOUTS[1:])
        case["reread"] = rng.random() < 0.1
    case["omit"] = _omit(rng, case, DEFAULTS_RW)
    others = [t for t in (case["data_type"], case["rdata_type"]) if t]
    case["fill"] = _fill(rng, dtype, others)
    nvox = shape[0] * shape[1] * shape[2]
    # specials only where every cast on the way is a float cast (or none)
    case["plant"] = _plant(rng, dtype, nvox, allow=not any(t in IRANGE for t in others) and not simple)
    return case


def _conv_case(rng, shape):
    which = rng.choice(["em2mrc", "mrc2em"])
    # EM files hold float64 too (EM type code 9); MRC has no float64 mode
    dtype = rng.choice(["float32", "int16", "int8", "float32"] + (["float64", "float64"] if which == "em2mrc" else []))
    invert = rng.random() < 0.5
    in_ext = "em" if which == "em2mrc" else "mrc"
    out_ext = "mrc" if which == "em2mrc" else "em"
    stem = rng.choice(STEMS)
    case = dict(kind="conv", which=which, shape=list(shape), dtype=dtype, invert=invert, overwrite=rng.random() < 0.5,
                in_name=f"{stem}.{in_ext}", output=None, exists=rng.random() < 0.5)
    k = rng.random()
    if k < 0.35:
        case["output"] = rng.choice(["out", "other.name", stem]) + "." + out_ext
    elif k < 0.45:
        case["output"] = rng.choice(["out." + in_ext, "out.map", "out", "out." + out_ext + "x", "out.rec"])
    if rng.random() < 0.06:
        case["in_name"] = stem + rng.choice([".rec", ".map", "." + out_ext, ".EM"])
    if rng.random() < 0.15:     # the plain call em2mrc(p) / mrc2em(p)
        case.update(invert=False, overwrite=True, output=None)
    if which == "mrc2em" and rng.random() < 0.2:
        case["endian"] = "big"  # a big-endian MRC file (machine stamp 0x11 0x11); emfile has no big-endian reader, so EM inputs stay little-endian
    case["omit"] = _omit(rng, case, DEFAULTS_CONV)
    case["fill"] = _fill(rng, dtype, [], invert=invert)
    case["plant"] = _plant(rng, dtype, shape[0] * shape[1] * shape[2], allow=True, invert=invert)
    return case


# converter inputs at the upper end of the quantifier (sizes up to 48, pairwise distinct)
CONV_TOP_SHAPES = [(48, 47, 46), (46, 48, 47), (47, 46, 48), (48, 45, 47), (44, 48, 46), (45, 47, 48)]


def _big_conv_case(rng, which, shape, invert=None):
    """a plain conversion of a large map: default output name, nothing in the way"""
    for _ in range(200):
        case = _conv_case(rng, shape)
        if case["which"] == which:
            break
    if invert is not None:
        case["invert"] = invert
    case.update(which=which, output=None, exists=False, plant=[], in_name="big." + ("em" if which == "em2mrc" else "mrc"))
    if which == "mrc2em" and case["dtype"] == "float64":
        case["dtype"] = "float32"
    case["omit"] = _omit(rng, case, DEFAULTS_CONV)
    case["fill"] = _fill(rng, case["dtype"], [], invert=case["invert"])
    return case


BIG_SEQ_SHAPES = [(40, 41, 42), (42, 40, 44), (41, 43, 40), (44, 41, 40), (40, 42, 45)]


def _big_seq_cases(rng):
    """cross-call state on LARGE files (>= 40^3 float32 voxels = >= 256 KiB on disk: caches, memory maps and buffers that
    switch on by file size): the same path rewritten with another volume and read again; the same converter input
    path holding a NEW volume for the second conversion; convert, then invert over the output"""
    sa, sb = rng.sample(BIG_SEQ_SHAPES, 2)
    ext = rng.choice(GOOD_EXT)
    s1 = _rw_case(rng, sa, rng.choice(["float32", "float64"]), ext, simple=True)
    s2 = _rw_case(rng, sb, rng.choice(["float32", "float64"]), ext, simple=True)
    s2.update(name=s1["name"], reread=True)
    for st in (s1, s2):
        st["omit"] = _omit(rng, st, DEFAULTS_RW)
    yield dict(kind="seq", mode="same-path", steps=[s1, s2], shape=s1["shape"], dtype=s1["dtype"], fill=s1["fill"])
    for mode in ("conv-new-input", "conv-twice"):
        which = rng.choice(["em2mrc", "mrc2em"])
        c1 = _big_conv_case(rng, which, rng.choice(BIG_SEQ_SHAPES), False)
        c1["dtype"] = "float32"
        c1["fill"] = _fill(rng, "float32", [], invert=True)
        c2 = dict(c1, exists=True, overwrite=True)
        if mode == "conv-new-input":       # other software rewrote the input file in between: the output must follow
            c2["fill"] = dict(mode="random", seed=rng.randrange(1 << 30), scale=rng.choice([1.0, 100.0]))
            c2["invert"] = rng.random() < 0.5
        else:
            c2["invert"] = True
        c2["omit"] = _omit(rng, c2, DEFAULTS_CONV)
        yield dict(kind="seq", mode=mode, steps=[c1, c2], shape=c1["shape"], dtype=c1["dtype"], fill=c1["fill"])


def _large_option(rng, case, i):
    """one non-default option on a large map (the rest stays at the defaults)"""
    opt = ["none", "untransposed", "data_type", "rdata_type", "layout", "alias"][i % 6]
    dt = case["dtype"]
    if opt == "untransposed":
        case["transpose"] = case["rtranspose"] = False
    elif opt == "data_type":
        case["data_type"] = {"float64": "float32", "float32": "float64", "int16": "float32", "int8": "int16"}[dt]
    elif opt == "rdata_type":
        case["rdata_type"] = {"float64": "float32", "float32": "float64", "int16": "float32", "int8": "int16"}[dt]
    elif opt == "layout":
        case["layout"] = rng.choice(["F", "tview"])
    elif opt == "alias" and not case["name"].endswith(".em"):
        case["rname"] = rng.choice(["numeric", "st", "ali"])
    case["omit"] = _omit(rng, case, DEFAULTS_RW)
    return case


def _seq_case(rng, cap):
    """G2: two or three library calls in ONE process that share a caller-owned array object or a file path"""
    mode = rng.choice(["same-array", "same-path", "conv-twice", "conv-refuse-after-conv"])
    shape = _shape(rng, cap)
    if mode == "same-array":
        s1 = _rw_case(rng, shape)
        s1.update(rname="same", layout=rng.choice(["C", "C", "F", "tview"]))
        steps = [s1]
        for i in range(rng.randint(1, 2)):
            s2 = dict(s1, name=f"second{i}." + rng.choice(GOOD_EXT))
            s2["transpose"] = s2["rtranspose"] = rng.random() < 0.8
            # a cast that is exact for the shared values: None, or (for floats) the other float type
            s2["data_type"] = None if s1["dtype"] in IRANGE or s1["fill"].get("mode") == "frac" else rng.choice([None, "float32", "float64"])
            s2["rdata_type"] = None
            s2["omit"] = _omit(rng, s2, DEFAULTS_RW)
            s2["reread"] = rng.random() < 0.5
            steps.append(s2)
    elif mode == "same-path":
        s1 = _rw_case(rng, shape)
        s1["rname"] = "same"
        s2 = _rw_case(rng, _shape(rng, cap), ext=s1["name"].rsplit(".", 1)[-1])
        s2.update(name=s1["name"], rname="same", reread=True)
        steps = [s1, s2]
    else:
        c1 = _conv_case(rng, shape)
        stem = rng.choice(STEMS)
        in_ext, out_ext = ("em", "mrc") if c1["which"] == "em2mrc" else ("mrc", "em")
        c1.update(in_name=f"{stem}.{in_ext}", output=rng.choice([None, "out." + out_ext]), exists=False, invert=False, overwrite=True)
        c1["omit"] = _omit(rng, c1, DEFAULTS_CONV)
        c1["fill"] = _fill(rng, c1["dtype"], [], invert=True)
        c1["plant"] = []
        # second call: same input path and output path, the output of the first call is there
        c2 = dict(c1, invert=True, exists=True, overwrite=(mode == "conv-twice"))
        c2["omit"] = _omit(rng, c2, DEFAULTS_CONV)
        steps = [c1, c2]
    return dict(kind="seq", mode=mode, steps=steps, shape=steps[0]["shape"], dtype=steps[0]["dtype"], fill=steps[0]["fill"])


def generate(rng, tier, n):
    if tier == "quick":
        top, cap = 5, 6000
    elif tier == "thorough":
        top, cap = 12, 30000
    else:
        top, cap = 0, 1500
    # every shape up to top^3 once (dtype/ext cycling so that each (dtype, ext) pair sees many shapes)
    combos = [(d, e) for d in DTYPES for e in GOOD_EXT]
    c = rng.randrange(len(combos))
    for x in range(1, top + 1):
        for y in range(1, top + 1):
            for z in range(1, top + 1):
                d, e = combos[c % len(combos)]
                c += 1
                yield _rw_case(rng, (x, y, z), d, e, simple=(tier == "thorough" and rng.random() < 0.5))
    if tier in ("quick", "thorough"):
        # large non-cubic maps (tiled / blocked code paths switch on above some voxel count)
        large = LARGE_SHAPES if tier == "thorough" else LARGE_SHAPES[:2] + rng.sample(LARGE_SHAPES[2:], 3)
        o = rng.randrange(6)
        for i, s in enumerate(large):
            d, e = combos[(c + 5 * i) % len(combos)]
            case = _large_option(rng, _rw_case(rng, s, d, e, simple=True), o + i)
            if i == 0:
                case["reread"] = True           # the caller edits what read() returned, then reads the large file again
            yield case
        yield from _big_seq_cases(rng)
        # converter inputs of the size the quantifier names (sizes up to 48 per axis): quick runs BOTH converters once on
        # a map of >= 40^3 voxels (pairwise distinct sizes, so that any permutation of the axes shows), thorough runs
        # both converters x invert on/off on (48,47,46)-class maps plus every LARGE_SHAPE
        big = [(40, 41, 42), (42, 40, 44), (41, 43, 40), (44, 41, 40), (40, 42, 45)] if tier == "quick" else CONV_TOP_SHAPES
        plan = [(w, rng.choice(big), None) for w in ("em2mrc", "mrc2em")] if tier == "quick" else (
            [(w, sh, inv) for w in ("em2mrc", "mrc2em") for inv in (False, True) for sh in rng.sample(CONV_TOP_SHAPES, 2)]
            + [(rng.choice(["em2mrc", "mrc2em"]), sh, None) for sh in LARGE_SHAPES])
        for which, shp, inv in plan:
            yield _big_conv_case(rng, which, shp, inv)
    if tier == "thorough":
        for s in [(48, 47, 46), (1, 48, 47), (48, 1, 2), (2, 3, 48), (48, 48, 48), (47, 2, 48)]:
            yield _rw_case(rng, s)
    for t in range(n):
        k = rng.random()
        if k < 0.55:
            yield _rw_case(rng, _shape(rng, cap))
        elif k < 0.60:
            case = _rw_case(rng, _shape(rng, 200))
            case["name"] = rng.choice(BAD_WRITE_NAMES)
            case["rname"] = "same"
            yield case
        elif k < 0.68:
            yield _seq_case(rng, min(cap, 2000))
        else:
            yield _conv_case(rng, _shape(rng, min(cap, 4000) if tier != "thorough" else cap))


def search_cases(rng, broken, anchors):
    """inputs derived from a broken obligation: small non-cubic arrays through every option combination"""
    for dtype in DTYPES:
        for ext in GOOD_EXT:
            for tr in (True, False):
                for omit in ([], list(DEFAULTS_RW)):
                    for layout in ("C", "F"):
                        c = _rw_case(rng, (2, 3, 4), dtype, ext, simple=True)
                        c["transpose"] = c["rtranspose"] = tr
                        c["layout"] = layout
                        c["omit"] = [k for k in omit if c[k] == DEFAULTS_RW[k]]
                        yield c
    for s in LARGE_SHAPES[:3]:
        yield _rw_case(rng, s, "float32", "mrc", simple=True)
    for which in ("em2mrc", "mrc2em"):
        for s in (CONV_TOP_SHAPES[0], LARGE_SHAPES[0]):
            yield _big_conv_case(rng, which, s, False)
    yield from _big_seq_cases(rng)
    for which in ("em2mrc", "mrc2em"):
        for inv in (False, True):
            for ow in (False, True):
                for ex in (False, True):
                    for outp in (None, "out." + ("mrc" if which == "em2mrc" else "em")):
                        for stem in ("vol", "volume", "ctf_corr"):
                            c = _conv_case(rng, (2, 3, 4))
                            c.update(which=which, invert=inv, overwrite=ow, exists=ex, output=outp,
                                     in_name=stem + "." + ("em" if which == "em2mrc" else "mrc"), dtype="float32", plant=[])
                            c["omit"] = _omit(rng, c, DEFAULTS_CONV)
                            c["fill"] = _fill(rng, "float32", [], invert=inv)
                            yield c


def shrink(case):
    if case["kind"] == "seq":
        for st in case["steps"]:
            yield st                      # a single call that already fails is the better reproducer
        if len(case["steps"]) > 2:
            yield dict(case, steps=case["steps"][:2])
        small = [dict(st, shape=[2, 3, 4], plant=[]) for st in case["steps"]]
        if any(st["shape"] != [2, 3, 4] for st in case["steps"]) and case["mode"] != "same-path":
            yield dict(case, steps=small, shape=[2, 3, 4])
        return
    s = case["shape"]
    for cand in ([2, 3, 4], [1, 2, 3], [1, 1, 2], [2, 1, 1], [1, 2, 1]):
        if s[0] * s[1] * s[2] > cand[0] * cand[1] * cand[2]:
            yield dict(case, shape=cand, plant=[])
    for ax in range(3):
        if s[ax] > 1:
            t = list(s); t[ax] = max(1, s[ax] // 2)
            yield dict(case, shape=t, plant=[])
            t = list(s); t[ax] = s[ax] - 1
            yield dict(case, shape=t, plant=[])
    if case.get("plant"):
        yield dict(case, plant=[])
        for i in range(len(case["plant"])):
            yield dict(case, plant=case["plant"][:i] + case["plant"][i + 1:])
    if case["fill"].get("mode") not in ("index", "frac"):
        f = dict(case["fill"], mode="index", coef=[1, 50, 2500, 0]); f.pop("seed", None); f["scale"] = 1.0
        yield dict(case, fill=f)
    if case.get("omit"):
        yield dict(case, omit=[])
    if case["kind"] == "rw":
        for k, v in (("data_type", None), ("rdata_type", None), ("rname", "same"), ("transpose", True), ("rtranspose", True),
                     ("layout", "C"), ("reread", False)):
            if case.get(k, v) != v:
                yield dict(case, **{k: v})
        if case["name"].startswith(("my.", "tomo", "a.mrc", ".hidden", "x")) and case["name"].rsplit(".", 1)[-1] in GOOD_EXT:
            yield dict(case, name="vol." + case["name"].rsplit(".", 1)[-1])
    else:
        for k, v in (("exists", False), ("output", None), ("overwrite", True), ("invert", False)):
            if case.get(k) != v and k not in case.get("omit", []):
                yield dict(case, **{k: v})
        if case.get("endian"):
            yield {k: v for k, v in case.items() if k != "endian"}


# ------------------------------------------------------------------ implementation
def _refusal(e):
    """H1: a refusal is described by the exception TYPE and by where it was raised (a `raise` of cryocat itself, or a
    library that cryocat called) -- never by the wording of its message, which is kept for the report only"""
    import traceback
    tb = traceback.extract_tb(e.__traceback__)
    last = tb[-1].filename.replace("\\", "/") if tb else ""
    if "/cryocat/" in last:
        origin = "cryocat"
    else:
        parts = [q for q in last.split("/") if q]
        origin = "library:" + (parts[-2] if len(parts) >= 2 and parts[-1].endswith(".py") and parts[-2] not in ("site-packages",) else os.path.basename(last)[:-3])
    return {"type": type(e).__name__, "origin": origin, "msg": str(e)[:160]}


def _rtxt(r):
    return f"{r.get('type')} raised by {r.get('origin')}: {r.get('msg')}" if isinstance(r, dict) else str(r)


def _rlabel(r):
    return f"{r.get('type')}@{r.get('origin')}" if isinstance(r, dict) else str(r)


def _read_name(case):
    name, rn = case["name"], case.get("rname", "same")
    if rn == "same":
        return name
    stem = name.rsplit(".", 1)[0]
    if rn == "numeric":
        return name + ".12"
    if rn == "st.numeric":
        return stem + ".st.3"
    if rn in ("ali", "st", "rec", "mrc"):
        return stem + "." + rn
    if rn == "cross":   # a name of the other container format
        return stem + (".mrc" if name.endswith(".em") else ".em")
    return rn  # an unsupported name


def _sha(path):
    return hashlib.sha1(open(path, "rb").read()).hexdigest()


def _in_cryocat(e):
    """G4: does the traceback pass through the code under test?"""
    import traceback
    for fr in reversed(traceback.extract_tb(e.__traceback__)):
        if "/cryocat/" in fr.filename.replace("\\", "/"):
            return f"{os.path.basename(fr.filename)}:{fr.lineno}"
    return ""


def _exc_obs(e):
    return {"error": f"{type(e).__name__}: {str(e)[:300]}", "where": _in_cryocat(e)}


def _arr_obs(b):
    """what the library returned, with its own type information (G3: nothing is coerced)"""
    if not isinstance(b, np.ndarray):
        return dict(ndarray=False, pytype=type(b).__name__)
    return dict(shape=list(b.shape), dtype=b.dtype.name, data=_bits(np.ascontiguousarray(b).reshape(-1)),
                ndarray=True, pytype=type(b).__name__, writeable=bool(b.flags.writeable))


def _same_array(a, pristine):
    return a.shape == pristine.shape and a.dtype == pristine.dtype and _bits(np.ascontiguousarray(a).reshape(-1)) == _bits(pristine.reshape(-1))


_IMPL_ERR = None     # numpy's error state as importing cryocat left it: the state every call of the real code runs under


def _call(f, *args, **kw):
    """call the real code under the numpy error state its own import left (a module-level `np.seterr(over="raise")`
    is part of the code under test); the harness's own numpy work runs under errstate(all="ignore") around it"""
    with np.errstate(**(_IMPL_ERR or {})):
        return f(*args, **kw)


def run_impl(case):
    global _IMPL_ERR
    from cryocat import cryomap            # neither the error state nor the warning filters are touched before / around this
    if _IMPL_ERR is None:
        _IMPL_ERR = dict(np.geterr())
    td = tempfile.mkdtemp(prefix="c11_")
    try:
        with np.errstate(all="ignore"):
            if case["kind"] == "seq":
                return _run_seq(cryomap, case, td)
            return _run_rw(cryomap, case, td) if case["kind"] == "rw" else _run_conv(cryomap, case, td)
    finally:
        shutil.rmtree(td, ignore_errors=True)


def _run_seq(cryomap, case, td):
    """the steps run in one process, one directory; 'same-array' steps get the very same ndarray object"""
    shared = {} if case["mode"] == "same-array" else None
    outs = []
    for st in case["steps"]:
        try:
            outs.append(_run_rw(cryomap, st, td, shared) if st["kind"] == "rw" else _run_conv(cryomap, st, td))
        except Exception as e:
            outs.append(_exc_obs(e))
    return {"steps": outs}


def _input_array(cryomap, case, td, out):
    """the caller's array in the memory layout the case asks for"""
    a = build(case)
    layout = case.get("layout", "C")
    if layout == "bigendian" and a.dtype != np.float64 and a.dtype.itemsize > 1:
        # the natural source of a big-endian array: cryomap.read of a big-endian MRC file (made by the harness's writer);
        # the array read() returned is handed to write() as it is
        own = os.path.join(td, "own_be_src.mrc")
        write_mrc_own(own, a, big=True)
        b = _call(cryomap.read, own)
        out["src_read"] = _arr_obs(b)
        out["src_byteorder"] = getattr(getattr(b, "dtype", None), "byteorder", "?")
        os.remove(own)
        if not isinstance(b, np.ndarray) or b.shape != a.shape or b.dtype.name != a.dtype.name or not _same_array(b.astype(a.dtype), a):
            return _apply_layout(a, layout)
        return b
    if layout != "from_read":
        return _apply_layout(a, layout)
    # read() -> arithmetic -> write(): the array comes out of cryomap.read of a file made by the harness's own writer
    own = os.path.join(td, "own_src." + ("em" if a.dtype == np.float64 or sum(case["shape"]) % 2 else "mrc"))
    (write_em_own if own.endswith(".em") else write_mrc_own)(own, a)
    b = _call(cryomap.read, own)
    out["src_read"] = _arr_obs(b)
    out["src_read"]["f_contiguous"] = bool(getattr(b, "flags", None) is not None and b.flags.f_contiguous)
    c = b * 1                       # processing that changes no value (keeps -0.0, NaN, inf) and keeps the layout
    os.remove(own)
    if c.shape != a.shape or c.dtype != a.dtype or not _same_array(c, a):
        return a                    # reported by the judge from src_read; go on with the intended array
    return c


def _run_rw(cryomap, case, td, shared=None):
    out = {}
    key = json_key(case) if shared is not None else None
    if shared is not None and key in shared:
        a, pristine = shared[key]           # the SAME object as in the earlier step
        out["shared_object"] = True
    else:
        a = _input_array(cryomap, case, td, out)
        pristine = np.ascontiguousarray(a).copy()
        if shared is not None:
            shared[key] = (a, pristine)
    out["layout_flags"] = f"C={a.flags.c_contiguous} F={a.flags.f_contiguous}"
    p = os.path.join(td, case["name"])
    omit = case.get("omit", [])
    kw = {}
    if "transpose" not in omit:
        kw["transpose"] = case["transpose"]
    if "data_type" not in omit:
        kw["data_type"] = NP[case["data_type"]] if case["data_type"] else None
    rkw = {}
    if "rtranspose" not in omit:
        rkw["transpose"] = case["rtranspose"]
    if "rdata_type" not in omit:
        rkw["data_type"] = NP[case["rdata_type"]] if case["rdata_type"] else None
    out["files_before"] = sorted(os.listdir(td))
    try:
        ret = _call(cryomap.write, a, p, **kw)
        out["write_returns"] = type(ret).__name__
    except Exception as e:
        if not _in_cryocat(e):
            raise
        out["input_unchanged"] = _same_array(a, pristine)
        return dict(out, write={"reject": _refusal(e)}, files=sorted(os.listdir(td)))
    out["input_unchanged"] = _same_array(a, pristine)
    out["files"] = sorted(os.listdir(td))
    if not os.path.exists(p):
        return dict(out, write={"reject": {"type": "none", "origin": "cryocat", "msg": "returned normally but wrote no file"}})
    out["write"] = parse_by_content(p)
    out["write_raw"] = open(p, "rb").read().hex()     # the bytes themselves: decoded by the Lean decoders (requests/judge)
    rn = _read_name(case)
    rp = os.path.join(td, rn)
    if rp != p:
        shutil.copyfile(p, rp)
    try:
        b = _call(cryomap.read, rp, **rkw)
        out["back"] = _arr_obs(b)
        if case.get("reread"):
            # G2: the caller edits the array it got, then reads the same path again (a cache handing out the same
            # buffer, or keyed by path only, shows here)
            if isinstance(b, np.ndarray) and b.size and b.flags.writeable:
                b[...] = 99
            out["file_unchanged_by_read"] = (parse_by_content(p).get("data") == out["write"].get("data"))
            out["back2"] = _arr_obs(_call(cryomap.read, rp, **rkw))
    except Exception as e:
        if not _in_cryocat(e):
            raise
        out["back"] = {"reject": _refusal(e)}
    out["input_unchanged"] = out["input_unchanged"] and _same_array(a, pristine)
    return out


def json_key(case):
    import json
    return json.dumps([case["shape"], case["dtype"], case["fill"], case.get("plant"), case.get("layout", "C")], sort_keys=True)


def _conv_documented_out(case):
    out_ext = "mrc" if case["which"] == "em2mrc" else "em"
    if case["output"] is None:
        cut = 2 if case["which"] == "em2mrc" else 3
        return case["in_name"][:-cut] + out_ext
    return case["output"]


def _run_conv(cryomap, case, td):
    a = build(case)
    pin = os.path.join(td, case["in_name"])
    # the input file is made by the harness's own writers (stand-in for other cryo-EM software)
    real_em = (case["which"] == "em2mrc")
    if real_em:
        write_em_own(pin, a)
    else:
        write_mrc_own(pin, a, big=(case.get("endian") == "big"))
    out_ext = "mrc" if case["which"] == "em2mrc" else "em"
    pout = os.path.join(td, _conv_documented_out(case))
    pre = None
    if pout != pin:
        if case["exists"]:
            if not os.path.exists(pout):
                # pre-existing output with different content (2x2x2 of sevens in the right format when the name allows)
                sent = np.full((2, 2, 2), 7, dtype=np.float32)
                (write_mrc_own if out_ext == "mrc" else write_em_own)(pout, sent)
            pre = _sha(pout)
        elif os.path.exists(pout):
            os.remove(pout)
    in_sha = _sha(pin)
    fn = getattr(cryomap, case["which"])
    res = {"input": (parse_em if real_em else parse_mrc)(pin), "files_before": sorted(os.listdir(td)),
           "input_raw": open(pin, "rb").read().hex()}
    if pre is not None:
        res["pre"] = parse_by_content(pout)
        res["pre_raw"] = open(pout, "rb").read().hex()
    omit = case.get("omit", [])
    kw = {}
    if "invert" not in omit:
        kw["invert"] = case["invert"]
    if "overwrite" not in omit:
        kw["overwrite"] = case["overwrite"]
    if "output" not in omit:
        kw["output_name"] = None if case["output"] is None else pout
    try:
        ret = _call(fn, pin, **kw)
        res["result"] = "ok"
        res["returns"] = type(ret).__name__
    except Exception as e:
        if not _in_cryocat(e):
            raise
        res["result"] = "refused"
        res["refusal"] = _refusal(e)
    res["files"] = sorted(os.listdir(td))
    res["input_unchanged"] = (_sha(pin) == in_sha)
    res["out_name"] = os.path.basename(pout)
    if os.path.exists(pout):
        res["out_sha_same_as_pre"] = (pre is not None and _sha(pout) == pre)
        res["out"] = parse_by_content(pout)
        if res.get("result") == "ok":
            res["out_raw"] = open(pout, "rb").read().hex()
    res["pre_existing"] = pre is not None
    return res


# ------------------------------------------------------------------ model requests
def _file_json(f):
    return dict(kind=f["kind"], dims=f["dims"], dtype=f["dtype"], data=f["data"])


def _wire_ok(f):
    return isinstance(f, dict) and isinstance(f.get("data"), list) and f.get("dtype") in DTYPES and "bad" not in f


def requests(case, obs):
    if case["kind"] == "seq":
        steps = obs.get("steps") if isinstance(obs, dict) else None
        out = []
        for i, st in enumerate(case["steps"]):
            out += requests(st, steps[i] if steps and i < len(steps) else {})
        return out
    if "error" in obs:
        obs = {}
    omit = case.get("omit", [])
    if case["kind"] == "rw":
        a = build(case)
        # an omitted keyword is omitted on the wire too: the model then takes the default of the current signature
        q = dict(op="roundtrip", arr=_arr_json(a), name=case["name"], rname=_read_name(case))
        if "transpose" not in omit:
            q["transpose"] = case["transpose"]
        if "rtranspose" not in omit:
            q["rtranspose"] = case["rtranspose"]
        if case["data_type"]:
            q["data_type"] = case["data_type"]
        if case["rdata_type"]:
            q["rdata_type"] = case["rdata_type"]
        w, b = obs.get("write"), obs.get("back")
        if isinstance(obs.get("write_raw"), str):
            q["raw"] = obs["write_raw"]          # the real file's bytes: the driver decodes them with the verified decoders
        elif case["transpose"] and _wire_ok(w):
            q["file"] = _file_json(w)
        if case["transpose"] == case["rtranspose"] and isinstance(b, dict) and isinstance(b.get("data"), list) and b.get("dtype") in DTYPES \
                and len(b["shape"]) == 3 and len(b["data"]) == b["shape"][0] * b["shape"][1] * b["shape"][2]:
            q["back"] = dict(shape=b["shape"], dtype=b["dtype"], data=b["data"])
        return [q]
    fs = []
    inp = obs.get("input")
    if isinstance(obs.get("input_raw"), str):
        fs.append(dict(name=case["in_name"], raw=obs["input_raw"]))
    elif _wire_ok(inp):
        fs.append(dict(name=case["in_name"], **_file_json(inp)))
    else:  # the observation is unusable: describe the input from the case itself
        a = build(case)
        fs.append(dict(name=case["in_name"], kind=("em" if case["which"] == "em2mrc" else "mrc"), dims=list(a.shape),
                       dtype=a.dtype.name, data=_bits(a.reshape(-1, order="F"))))
    out_name = obs.get("out_name")
    if obs.get("pre_existing") and out_name:
        pre = obs.get("pre")
        if isinstance(obs.get("pre_raw"), str):
            fs.append(dict(name=out_name, raw=obs["pre_raw"]))
        elif _wire_ok(pre):
            fs.append(dict(name=out_name, **_file_json(pre)))
        else:
            sev = _bits(np.full(8, 7, dtype=np.float32))
            fs.append(dict(name=out_name, kind=("mrc" if case["which"] == "em2mrc" else "em"), dims=[2, 2, 2], dtype="float32", data=sev))
    q = dict(op="convert", which=case["which"], fs=fs, map_name=case["in_name"])
    if "invert" not in omit:
        q["invert"] = case["invert"]
    if "overwrite" not in omit:
        q["overwrite"] = case["overwrite"]
    if case["output"] is not None:
        q["output_name"] = case["output"]
    if isinstance(obs.get("input_raw"), str):
        q["in_arr"] = _arr_json(build(case))     # the driver checks that the harness-made input file holds this array, x fastest
    if obs.get("result") == "ok" and isinstance(obs.get("out_raw"), str):
        q["raw"] = obs["out_raw"]
    elif obs.get("result") == "ok" and _wire_ok(obs.get("out")):
        q["file"] = _file_json(obs["out"])
    return [q]


# ------------------------------------------------------------------ the statement, evaluated independently (numpy only)
def _expected_rw(case):
    a = build(case)
    with np.errstate(all="ignore"):
        # data_type: numpy's conversion of the array's own values (float -> int truncates the float64/float32 value
        # toward zero, directly); then float64 -> float32
        e = a.astype(NP[case["data_type"]]) if case["data_type"] else a
        if e.dtype == np.float64:
            e = e.astype(np.float32)
        file_dtype = e.dtype.name
        # x fastest = Fortran-order flattening of the (x,y,z) array; with transpose=False the array is taken as (z,y,x)
        file_dims = list(e.shape) if case["transpose"] else list(e.shape[::-1])
        file_data = _bits(e.reshape(-1, order="F") if case["transpose"] else e.reshape(-1))
        b = e if case["transpose"] == case["rtranspose"] else e.transpose(2, 1, 0)
        if case["rdata_type"]:
            b = b.astype(NP[case["rdata_type"]])
    return dict(dims=file_dims, dtype=file_dtype, data=file_data, back_shape=list(b.shape), back_dtype=b.dtype.name,
                back_data=_bits(np.ascontiguousarray(b).reshape(-1)))


def _first_diff(x, y):
    if not isinstance(x, list) or not isinstance(y, list):
        return "no numeric payload"
    if len(x) != len(y):
        return f"lengths {len(x)} vs {len(y)}"
    n = sum(1 for p, q in zip(x, y) if p != q)
    for i, (p, q) in enumerate(zip(x, y)):
        if p != q:
            return f"{n} of {len(x)} differ, first at flat index {i}: {core.b2f(p)!r} (bits {p:#x}) vs {core.b2f(q)!r} (bits {q:#x})"
    return "equal"


def _name_verdicts(case):
    """documented acceptance of names, written by hand (independent of model and source)"""
    n = case["name"]
    w_ok = n.endswith(".mrc") or n.endswith(".rec") or n.endswith(".em")
    rn = _read_name(case)
    r_ok = bool(re.search(r"\.(mrc|ali|rec|st)(\.[0-9]+)?$", rn)) or rn.endswith(".em")
    return w_ok, r_ok, ("em" if n.endswith(".em") else "mrc")


def _decoded(model, py, out):
    """the file as the Lean decoders (`decodeMrc`/`decodeEm`, proved inverse to the model's encoders) read its bytes: THE
    oracle for what is on disk.  The harness's Python parser is only cross-checked against it (`corr`)."""
    if not isinstance(model, dict) or "decoded" not in model:
        return py                                   # no bytes went to the driver (model refused the call): Python parser
    d = model["decoded"]
    if d is None:
        return dict(kind=(py or {}).get("kind"), bad="the verified decoder refuses the bytes: " + str(model.get("decode_error")))
    w = dict(kind=d["kind"], dims=d["dims"], dtype=d["dtype"], data=d["data"], size_ok=True, mapcrs=[1, 2, 3], nsymbt=0,
             map_tag_ok=True, little_endian=not d["big_endian"], machine=(3 if d["big_endian"] else 6))
    if isinstance(py, dict) and "bad" not in py and py.get("size_ok") and \
            (py.get("kind"), py.get("dims"), py.get("dtype"), py.get("data")) != (w["kind"], w["dims"], w["dtype"], w["data"]):
        out.append(dict(kind="corr", clause="python-parser-vs-lean-decoder",
                        detail=f"{py.get('kind')} {py.get('dims')} {py.get('dtype')} vs {w['kind']} {w['dims']} {w['dtype']}; data: " + _first_diff(py.get("data"), w["data"])))
    return w


def _judge_error(obs):
    """G4: an exception is the implementation's only when its traceback passes through cryocat"""
    if obs.get("where"):
        return [dict(kind="spec", clause="raises", detail=obs["error"] + " @" + obs["where"])]
    return [dict(kind="corr", clause="harness-or-library-raised", detail=obs["error"] + " (no frame inside cryocat)")]


def judge(case, obs, resps):
    if "error" in obs:
        return _judge_error(obs)
    if case["kind"] == "seq":
        out = []
        for i, st in enumerate(case["steps"]):
            o = obs["steps"][i]
            fs = _judge_error(o) if "error" in o else (_judge_rw if st["kind"] == "rw" else _judge_conv)(st, o, resps[i])
            out += [dict(f, detail=f"step {i + 1}/{len(case['steps'])} ({case['mode']}): " + f["detail"]) for f in fs]
        return out
    return _judge_rw(case, obs, resps[0]) if case["kind"] == "rw" else _judge_conv(case, obs, resps[0])


def _judge_rw(case, obs, model):
    out = []
    S = lambda clause, detail: out.append(dict(kind="spec", clause=clause, detail=detail))
    C = lambda clause, detail: out.append(dict(kind="corr", clause=clause, detail=detail))
    w_ok, r_ok, fmt = _name_verdicts(case)
    w = obs["write"]
    call = f"write(a[{case['dtype']} {case['shape']} {case.get('layout', 'C')}], {case['name']!r}" + "".join(
        f", {k}={case[k]}" for k in ("transpose", "data_type") if k not in case.get("omit", [])) + ")"
    model_err = model.get("error") if isinstance(model, dict) else "no-response"
    # ---- the caller's array is the caller's (G2)
    if obs.get("input_unchanged") is False:
        C("input-array-modified", f"{call} / read changed the array object passed in")
    sr = obs.get("src_read")
    if sr is not None:
        a = build(case)
        if not sr.get("ndarray") or sr.get("shape") != list(a.shape) or sr.get("dtype") != a.dtype.name or sr.get("data") != _bits(a.reshape(-1)):
            S("read-of-foreign-file", f"read() of a {case['dtype']} {case['shape']} file made by the harness's writer returned "
              f"{sr.get('pytype')} {sr.get('shape')} {sr.get('dtype')}: " + _first_diff(sr.get("data"), _bits(a.reshape(-1))))
    # ---- names
    if not w_ok:
        if "reject" not in w:
            C("accepts-unsupported-extension", f"write({case['name']!r}) produced {obs.get('files')}")
        elif w["reject"].get("type") == "none":
            C("silently-ignores-unsupported-extension", f"write({case['name']!r}) returned normally and wrote nothing")
        elif w["reject"].get("type") != "ValueError":
            # documented: `Raises ValueError` for a name without one of the allowed extensions; the wording is free (H1)
            C("refusal-type", f"write({case['name']!r}): documented ValueError, got {_rtxt(w['reject'])}")
        if model_err != "reject:bad-extension":
            C("model-accepts-name", f"{case['name']!r}: {str(model)[:200]}")
        return out
    if "reject" in w:
        S("rejects-supported-extension", f"{call}: {_rtxt(w['reject'])}")
        return out
    if model_err:
        C("model-rejects", f"{case['name']!r}: {model_err}")
    exp = _expected_rw(case)
    # ---- bytes on disk: read by the Lean decoders, compared with numpy's x-fastest flattening of the array
    w = _decoded(model, w, out)
    if w.get("bad"):
        S("file-header", f"unparseable {w.get('kind')} file: {w['bad']}")
        return out
    if w["kind"] != fmt:
        S("file-format", f"{case['name']!r} holds a {w['kind']} file, documented {fmt}")
    # facts about mrcfile / emfile (probed on every run), not clauses of the statement: never `spec`
    if w["kind"] == "mrc" and not (w["mapcrs"] == [1, 2, 3] and w["nsymbt"] == 0 and w["map_tag_ok"] and w["little_endian"]):
        C("library-header-fact", f"mapc/r/s={w['mapcrs']} nsymbt={w['nsymbt']} tag_ok={w['map_tag_ok']} le={w['little_endian']}")
    if w["kind"] == "em" and not w["little_endian"]:
        C("library-header-fact", f"EM machine byte {w['machine']}")
    if w["dims"] != exp["dims"]:
        S("header-dims", f"{call}: header nx,ny,nz={w['dims']}, the array shape demands {exp['dims']}")
    elif not w.get("size_ok"):
        S("payload-size", f"payload does not hold nx*ny*nz voxels of {w['dtype']}")
    if w["dtype"] != exp["dtype"]:
        S("file-dtype", f"{call}: file holds {w['dtype']}, documented {exp['dtype']}")
    elif w["dims"] == exp["dims"] and w["data"] != exp["data"]:
        S("x-fastest-voxels", f"{call}: payload differs from the x-fastest flattening of the array: " + _first_diff(w["data"], exp["data"]))
    if case["transpose"] and "check_write" in model and not (model["check_write"] and model["check_write_dtype"]):
        S("verified-checker-rejects-file", f"checkXFastest={model['check_write']} dtype_ok={model['check_write_dtype']} on header {w['dims']} {w['dtype']}")
    if not model_err:
        mf = model["file"]
        if (mf["kind"], mf["dims"], mf["dtype"]) != (w["kind"], w["dims"], w["dtype"]) or mf["data"] != w.get("data"):
            C("file-vs-model", f"model file {mf['kind']} {mf['dims']} {mf['dtype']} vs real {w['kind']} {w['dims']} {w['dtype']}; data: " + _first_diff(mf["data"], w.get("data", [])))
        if model.get("bytes_vs_model"):
            C("bytes-vs-model", f"{call}: the bytes `encode (write ..)` of the model differ from the file's in: {model['bytes_vs_model']}")
        if model.get("check_read_bytes") is False:
            C("read-of-real-bytes-vs-model", f"the model's reader on the real file's bytes does not return what cryomap.read returned")
    # ---- read back
    b = obs["back"]
    ma = {} if model_err else model["arr"]
    rcall = f"read({_read_name(case)!r}" + "".join(f", {k[1:]}={case[k]}" for k in ("rtranspose", "rdata_type") if k not in case.get("omit", [])) + ")"
    if not r_ok:
        if "reject" not in b:
            C("reads-unsupported-extension", f"{rcall} returned an array")
        elif b["reject"].get("type") != "ValueError":
            C("refusal-type", f"{rcall}: documented ValueError, got {_rtxt(b['reject'])}")
        if not model_err and ma.get("error") != "reject:bad-extension":
            C("model-reads-name", f"{_read_name(case)!r}: {str(ma)[:200]}")
        return out
    if case.get("rname") == "cross":
        # the reader of the other container format is handed the file: mrcfile / emfile raise (which exception is theirs);
        # nothing in the statement covers it, so a returned array is a disagreement with the model only
        if "reject" not in b:
            C("cross-format-read-returned-array", f"{rcall} on a {w['kind']} file returned {b.get('shape')} {b.get('dtype')}")
        if not model_err and ma.get("error") != "reject:bad-format":
            C("model-cross-format", str(ma)[:200])
        return out
    if "reject" in b:
        S("read-rejects-supported-name", f"{rcall}: {_rtxt(b['reject'])}")
        return out
    for tag, bb in (("", b), ("second read after the caller edited the first result: ", obs.get("back2"))):
        if bb is None:
            continue
        if not bb.get("ndarray"):
            S("roundtrip-shape", f"{tag}{rcall} returned a {bb.get('pytype')}, not a numpy array")
            continue
        if bb["shape"] != exp["back_shape"]:
            S("roundtrip-shape", f"{tag}{rcall} after {call}: shape {bb['shape']}, the statement demands {exp['back_shape']}")
        elif bb["data"] != exp["back_data"]:
            S("roundtrip-voxels", f"{tag}{rcall} after {call}: voxels differ: " + _first_diff(bb["data"], exp["back_data"]))
        if bb["dtype"] != exp["back_dtype"]:
            C("roundtrip-dtype", f"{tag}{rcall} after {call}: dtype {bb['dtype']}, documented {exp['back_dtype']}")
    if obs.get("file_unchanged_by_read") is False:
        S("read-modifies-file", f"{rcall}: the file changed after the caller edited the returned array")
    if "check_back" in model and not (model["check_back"] and model["check_back_dtype"]):
        S("verified-checker-rejects-roundtrip", f"checkSameVoxels={model['check_back']} dtype_ok={model['check_back_dtype']}")
    if not model_err:
        if "error" in ma:
            C("model-read-rejects", str(ma))
        elif b.get("ndarray") and ((ma["shape"], ma["dtype"]) != (b["shape"], b["dtype"]) or ma["data"] != b["data"]):
            C("read-vs-model", f"model {ma['shape']} {ma['dtype']} vs real {b['shape']} {b['dtype']}; data: " + _first_diff(ma["data"], b["data"]))
    return out


def _expected_conv(case):
    """documented outcome of a converter call: ('ok', out_name) or (refusal kind, None)"""
    which, n = case["which"], case["in_name"]
    in_ext, out_ext, cut = (".em", ".mrc", 2) if which == "em2mrc" else (".mrc", ".em", 3)
    if not n.endswith(in_ext):
        return "bad-input-name", None
    if case["output"] is None:
        o = n[:-cut] + out_ext[1:]
    else:
        o = case["output"]
        if not o.endswith(out_ext):
            return "bad-output-name", None
    return "ok", o


def _judge_conv(case, obs, model):
    out = []
    S = lambda clause, detail: out.append(dict(kind="spec", clause=clause, detail=detail))
    C = lambda clause, detail: out.append(dict(kind="corr", clause=clause, detail=detail))
    verdict, oname = _expected_conv(case)
    inp = obs["input"]
    omit = case.get("omit", [])
    call = ("[big-endian MRC input] " if case.get("endian") == "big" else "") + f"{case['which']}({case['in_name']!r}" + "".join(
        f", {k if k != 'output' else 'output_name'}={case[k]!r}" for k in ("invert", "overwrite", "output") if k not in omit) + ")"
    if verdict == "ok" and obs.get("pre_existing") and not case["overwrite"]:
        verdict = "exists"
    if not obs.get("input_unchanged"):
        S("input-file-modified", f"{case['in_name']} changed on disk")
    if verdict != "ok":
        if obs["result"] == "ok":
            # the statement's only refusal clause is "refuse to overwrite when told not to"; refusing ill-named inputs /
            # outputs is documented behaviour the statement is silent about (corr)
            (S if verdict == "exists" else C)("no-refusal" if verdict != "exists" else "overwrites-when-told-not-to",
              f"{call} with {obs.get('out_name')} present returned normally; documented refusal: {verdict}")
        elif verdict in ("bad-input-name", "bad-output-name") and obs.get("refusal", {}).get("type") != "ValueError":
            # WHICH precondition is violated comes from the call itself (`verdict`), the refusal is recognised by its
            # type (documented: ValueError for a name of the wrong format); the message is free text (H1)
            C("refusal-type", f"{call}: documented ValueError ({verdict}), got {_rtxt(obs.get('refusal'))}")
        if verdict == "exists" and not obs.get("out_sha_same_as_pre"):
            S("overwrites-when-told-not-to", f"{call}: existing {obs.get('out_name')} was modified although overwrite=False")
        if model.get("error") != "reject:" + verdict:
            C("model-refusal", f"model {str(model)[:200]} vs documented {verdict}")
        return out
    if obs["result"] != "ok":
        S("refuses-valid-call", f"{call} (output present before: {obs.get('pre_existing')}): {_rtxt(obs.get('refusal'))}")
        return out
    o = obs.get("out")
    if o is not None:
        o = _decoded(model, o, out)
    if model.get("check_input") is False:
        C("harness-input-file", f"{call}: the input file made by the harness's writer does not hold the case's array (verified checker on the decoded bytes)")
    new_files = set(obs["files"]) - set(obs.get("files_before", []))
    if o is None or oname not in obs["files"]:
        S("output-name", f"{call}: documented output {oname!r}; new files in the directory: {sorted(new_files)}")
        return out
    extra = new_files - {case["in_name"], oname}
    if extra:
        C("stray-files", f"{call}: {sorted(extra)}")
    if o.get("bad"):
        S("file-header", f"unparseable output: {o['bad']}")
        return out
    fmt = "mrc" if case["which"] == "em2mrc" else "em"
    if o["kind"] != fmt:
        S("file-format", f"output is a {o['kind']} file")
    if o["kind"] == "mrc" and not (o["mapcrs"] == [1, 2, 3] and o["nsymbt"] == 0 and o["map_tag_ok"] and o["little_endian"]):
        C("library-header-fact", f"mapc/r/s={o['mapcrs']} nsymbt={o['nsymbt']}")
    in_dims = list(case["shape"])          # the input file holds the case's (x,y,z) array (`check_input`)
    if o["dims"] != in_dims or not o.get("size_ok"):
        S("header-dims", f"{call}: output nx,ny,nz={o['dims']} vs input {in_dims}")
    # float64 (EM only) is narrowed to float32 by write(); everything else keeps its type
    a = build(case)
    with np.errstate(all="ignore"):
        e = -a if case["invert"] else a
        if e.dtype == np.float64:
            e = e.astype(np.float32)
        want = _bits(e.reshape(-1, order="F"))
    if o["dtype"] != e.dtype.name:
        S("file-dtype", f"{call}: output {o['dtype']}, input {inp['dtype']} demands {e.dtype.name}")
    elif o["dims"] == in_dims and o["data"] != want:
        S("voxels-negated" if case["invert"] else "voxels-preserved", f"{call}: output payload: " + _first_diff(o["data"], want))
    if "check_convert" in model and not model["check_convert"]:
        S("verified-checker-rejects-conversion", f"{call}: checkConverted=false")
    if "error" in model:
        C("model-refuses", str(model))
    else:
        mf = model["file"]
        if model["out_name"] != oname:
            C("model-output-name", f"{model['out_name']!r} vs {oname!r}")
        if (mf["kind"], mf["dims"], mf["dtype"]) != (o["kind"], o["dims"], o["dtype"]) or mf["data"] != o["data"]:
            C("file-vs-model", f"model {mf['kind']} {mf['dims']} {mf['dtype']} vs real {o['kind']} {o['dims']} {o['dtype']}; data: " + _first_diff(mf["data"], o["data"]))
        if model.get("bytes_vs_model"):
            C("bytes-vs-model", f"{call}: the bytes `encode` of the model's output differ from the file's in: {model['bytes_vs_model']}")
        unrelated = set(obs.get("files_before", [])) - {case["in_name"], oname}
        if sorted(model["names"]) != sorted(set(obs["files"]) - unrelated):
            C("files-vs-model", f"{sorted(model['names'])} vs {sorted(set(obs['files']) - unrelated)}")
    return out


# ------------------------------------------------------------------ evidence
def nontrivial(case, obs):
    if case["kind"] == "seq":
        return "error" not in obs and all(nontrivial(st, o) for st, o in zip(case["steps"], obs.get("steps", [])))
    x, y, z = case["shape"]
    if len({x, y, z}) < 3 or x * y * z < 24 or "error" in obs:
        return False
    if case["kind"] == "rw":
        w_ok, r_ok, _ = _name_verdicts(case)
        return w_ok and r_ok
    return _expected_conv(case)[0] == "ok"


def _size_bin(n):
    return "1" if n == 1 else "2-4" if n <= 4 else "5-12" if n <= 12 else "13-32" if n <= 32 else "33-48"


def stats(case, obs, resps):
    if case["kind"] == "seq":
        d = {"kind": "seq", "seq_mode": case["mode"], "seq_steps": len(case["steps"])}
        for st, o, r in zip(case["steps"], obs.get("steps", []), resps):
            if "error" not in o:
                for k, v in stats(st, o, [r]).items():
                    if k != "kind":
                        d.setdefault(k, [])
                        d[k] += v if isinstance(v, list) else [v]
        return d
    x, y, z = case["shape"]
    d = {"kind": case["kind"], "dtype": case["dtype"], "axis_size": [_size_bin(v) for v in (x, y, z)],
         "shape_class": "cubic" if x == y == z else ("two-equal" if len({x, y, z}) == 2 else "all-distinct"),
         "voxels": "<=64" if x * y * z <= 64 else "<=1000" if x * y * z <= 1000 else "<=8000" if x * y * z <= 8000 else ">8000",
         "fill": case["fill"]["mode"] + ("+planted" if case.get("plant") else "")}
    if case["kind"] == "rw":
        w_ok, r_ok, fmt = _name_verdicts(case)
        d["ext"] = case["name"].rsplit(".", 1)[-1] if w_ok else "unsupported"
        d["transpose(w/r)"] = f"{case['transpose']}/{case['rtranspose']}"
        d["data_type(w)"] = str(case["data_type"])
        d["data_type(r)"] = str(case["rdata_type"])
        d["read_name"] = case.get("rname", "same") if r_ok else "unsupported"
        d["layout"] = case.get("layout", "C") + (" " + obs["layout_flags"] if "layout_flags" in obs else "")
        om = case.get("omit", [])
        d["write_call"] = "write(a, p)" if {"transpose", "data_type"} <= set(om) else ("some keywords omitted" if {"transpose", "data_type"} & set(om) else "all keywords explicit")
        d["read_call"] = "read(p)" if {"rtranspose", "rdata_type"} <= set(om) else ("some keywords omitted" if {"rtranspose", "rdata_type"} & set(om) else "all keywords explicit")
        d["int_cast_of"] = ("non-integral values" if case["fill"].get("mode") == "frac" else "integral values") if any(
            t in IRANGE for t in (case["data_type"], case["rdata_type"]) if t) and case["dtype"] not in IRANGE else "none"
        d["reread_after_edit"] = str(bool(case.get("reread")))
        if "back" in obs and isinstance(obs["back"], dict) and "dtype" in obs["back"]:
            d["returned_type"] = f"{obs['back'].get('pytype')}[{obs['back']['dtype']}]"
        if isinstance(obs.get("write"), dict):
            d["outcome"] = "write-refused:" + _rlabel(obs["write"]["reject"]) if "reject" in obs["write"] else (
                "read-refused:" + _rlabel(obs["back"]["reject"]) if "reject" in obs.get("back", {}) else "round-trip")
            if "dtype" in obs["write"]:
                d["file_dtype"] = f"{case['dtype']}->{obs['write']['dtype']}"
    else:
        d["which"] = case["which"]
        d["input_byte_order"] = case.get("endian", "little")
        d["invert"] = str(case["invert"])
        d["overwrite/exists"] = f"{case['overwrite']}/{case['exists']}"
        om = case.get("omit", [])
        d["conv_call"] = f"{case['which']}(p)" if len(om) == 3 else ("some keywords omitted" if om else "all keywords explicit")
        d["stem_tail"] = "ends in e/m/r/c/." if case["in_name"].rsplit(".", 1)[0][-1:] in "emrc." else "other"
        d["invert&refuse"] = str(bool(case["invert"] and not case["overwrite"] and obs.get("pre_existing")))
        d["output"] = "default" if case["output"] is None else ("explicit" if _expected_conv(case)[0] != "bad-output-name" else "explicit-bad")
        v = _expected_conv(case)[0]
        if v == "ok" and obs.get("pre_existing") and not case["overwrite"]:
            v = "exists"
        d["outcome"] = "ok" if obs.get("result") == "ok" else f"refused[{v}]:" + _rlabel(obs.get("refusal"))
    return d


def sample_view(case):
    if case["kind"] == "seq":
        return dict(kind="seq", mode=case["mode"], steps=[sample_view(st) for st in case["steps"]])
    v = {k: case[k] for k in case if k not in ("plant",)}
    v["planted_specials"] = len(case.get("plant", []))
    return v


def classify(case, obs, finding):
    return None


def probes(rng):
    """library assumptions: the harness parsers agree with emfile/mrcfile; the own writers are read by the libraries"""
    import mrcfile, emfile, warnings
    warnings.filterwarnings("ignore")
    out = []
    td = tempfile.mkdtemp(prefix="c11p_")
    try:
        for dt in ("float32", "int16", "int8"):
            zyx = (np.arange(2 * 3 * 5).reshape(2, 3, 5) - 7).astype(NP[dt])
            p = os.path.join(td, "p.mrc")
            mrcfile.write(p, zyx, overwrite=True)
            m = parse_mrc(p)
            ok = m["dims"] == [5, 3, 2] and m["dtype"] == dt and m["data"] == _bits(zyx.reshape(-1)) and m["size_ok"]
            out.append(dict(name=f"parse_mrc-agrees-with-mrcfile[{dt}]", ok=bool(ok), detail=str(m["dims"])))
            # library facts the layout claim rests on (not clauses of the statement): axis mapping 1,2,3, no extended
            # header, 'MAP ' tag, little-endian machine stamp
            ok = m["mapcrs"] == [1, 2, 3] and m["nsymbt"] == 0 and m["map_tag_ok"] and m["little_endian"]
            out.append(dict(name=f"mrcfile-header-facts(mapc/r/s=1,2,3 nsymbt=0 MAP little-endian)[{dt}]", ok=bool(ok),
                            detail=f"{m['mapcrs']} {m['nsymbt']} {m['map_tag_ok']} {m['little_endian']}"))
            p = os.path.join(td, "p.em")
            emfile.write(p, zyx, overwrite=True)
            m = parse_em(p)
            ok = m["dims"] == [5, 3, 2] and m["dtype"] == dt and m["data"] == _bits(zyx.reshape(-1)) and m["size_ok"]
            out.append(dict(name=f"parse_em-agrees-with-emfile[{dt}]", ok=bool(ok), detail=str(m["dims"])))
            out.append(dict(name=f"emfile-header-facts(machine byte 6 = little-endian)[{dt}]", ok=bool(m["little_endian"]), detail=str(m["machine"])))
            xyz = np.ascontiguousarray(zyx.transpose(2, 1, 0))
            p = os.path.join(td, "q.mrc")
            write_mrc_own(p, xyz)
            with mrcfile.open(p) as mf:
                ok = np.array_equal(mf.data, zyx)
            out.append(dict(name=f"own-mrc-writer-read-by-mrcfile[{dt}]", ok=bool(ok), detail=""))
            p = os.path.join(td, "q.em")
            write_em_own(p, xyz)
            ok = np.array_equal(emfile.read(p)[1], zyx)
            out.append(dict(name=f"own-em-writer-read-by-emfile[{dt}]", ok=bool(ok), detail=""))
        # float64: EM holds it (type code 9), the harness writer is read back by emfile, emfile's own float64 file parses
        zyx = (np.arange(2 * 3 * 5).reshape(2, 3, 5) / 7.0 - 1.3)
        p = os.path.join(td, "d.em")
        write_em_own(p, np.ascontiguousarray(zyx.transpose(2, 1, 0)))
        got = emfile.read(p)[1]
        out.append(dict(name="own-em-writer-read-by-emfile[float64]", ok=bool(got.dtype == np.float64 and np.array_equal(got, zyx)), detail=str(got.dtype)))
        emfile.write(p, zyx, overwrite=True)
        m = parse_em(p)
        out.append(dict(name="parse_em-agrees-with-emfile[float64]", ok=bool(m["dtype"] == "float64" and m["data"] == _bits(zyx.reshape(-1))), detail=str(m.get("dtype"))))
        # a file of the other container format is refused by the libraries (Model.read: badFormat)
        for src_ext, via in ((".em", ".mrc"), (".mrc", ".em")):
            zyx = np.arange(24, dtype=np.float32).reshape(2, 3, 4)
            p = os.path.join(td, "c" + src_ext)
            (emfile.write if src_ext == ".em" else mrcfile.write)(p, zyx, overwrite=True)
            q = os.path.join(td, "cross" + via)
            shutil.copyfile(p, q)
            try:
                (lambda: mrcfile.open(q).data)() if via == ".mrc" else emfile.read(q)
                out.append(dict(name=f"library-refuses-{src_ext}-file-named{via}", ok=False, detail="no exception"))
            except Exception as e:
                out.append(dict(name=f"library-refuses-{src_ext}-file-named{via}", ok=True, detail=type(e).__name__))
        # numpy float -> int16/int8: truncation toward zero of the value itself (Drv.cast)
        v = np.array([2.99999999, -7.99999999, 1023.99999999, -0.5, 0.9999999999, -126.75])
        ok = v.astype(np.int16).tolist() == [2, -7, 1023, 0, 0, -126] and v.astype(np.float32).astype(np.int16).tolist()[:3] == [3, -8, 1024]
        out.append(dict(name="numpy-float-to-int-cast-truncates-toward-zero", ok=bool(ok), detail=str(v.astype(np.int16).tolist())))
    except Exception as e:
        out.append(dict(name="library-probes", ok=False, detail=f"{type(e).__name__}: {e}"))
    finally:
        shutil.rmtree(td, ignore_errors=True)
    return out


LEVEL_TEXT = ("Lean 4 theorems about an executable model of cryomap.write/read/em2mrc/mrc2em for every 3-D shape (no cube assumption, no size bound): "
              "x-fastest offset is a bijection of the box (offset_lt/injective/surjective), write_spec (header nx,ny,nz = shape, voxel (i,j,k) at "
              "i+nx*(j+ny*k), dtype rule, format by extension), read_write / read_write_untransposed / read_untransposed_of_write (round trip for any "
              "shape and data_type, for a file of the container format its name announces; read_cross_format: refused otherwise), writeKw_default / "
              "readKw_default / convertKw_default (the keyword-less calls are the documented ones, by the signature defaults of the current source), "
              "convert_spec / em2mrc_spec / mrc2em_spec (voxels kept or negated, float64 narrowed, default names, refusal when the output exists "
              "and overwrite=False), checkConverted_accepts / _sound (the driver's converter checker is the theorem's `converted`), invert_invert, "
              "the container formats down to the bytes: decodeMrc_encodeMrc / decodeEm_encodeEm (decode . encode = id for both byte orders), "
              "decodeMrc_encodeEm / decodeEm_encodeMrc (a file of the other container is refused), encodeMrc_voxel_bytes / encodeEm_voxel_bytes "
              "(the bytes of voxel (i,j,k) start at header + width*(i+nx*(j+ny*k))), readBytes_writeBytes (round trip through the bytes), "
              "readBytes_cross_format; sound (and complete) verified checkers run on the real files' DECODED BYTES; tied to the source by regenerated, renaming-insensitive anchors "
              "(signatures with defaults, normalised bodies of write/read/em2mrc/mrc2em/invert_contrast, the only axis-permuting expression and "
              "its guard, step order, float64->float32 narrowing, extension tables, reader pattern, converter suffixes / slices / factor / call "
              "shapes) and by a bit-exact differential run of the real functions against the model, the bytes of every file being decoded by the "
              "Lean decoders and compared with the model's encoded bytes")
LEVEL_NOTE = ("trusted: Lean kernel; translator anchors; hex transport and the driver's value<->bit-pattern conversion; harness MRC/EM writers for converter "
              "inputs (checked by the Lean decoder per case); the Python parsers are no longer an oracle (cross-checked only); "
              "mrcfile/emfile store the array they are given (checked byte-wise); numpy float32 cast = Float.toFloat32 (bit-exact each run); the file "
              "system is modelled as a name->content map, byte-level preservation on refusal is validated by hash, not proved")
TECHNIQUE = "Lean 4 proof (index arithmetic over Nat, Array extensionality) + regenerated anchors + verified checkers + bit-exact differential correspondence"
DESIGN_REF = "DESIGN.md section 4, C11"
