"""C11 — map files round-trip voxels and axis order across MRC, REC and EM (DESIGN.md section 4, C11)."""
import os, re, struct, tempfile, ast, math, shutil, hashlib
import numpy as np
import core

PROP = "C11"
COUNT = {"quick": 600, "thorough": 4000, "search": 900}
PARALLEL = True
RULE = ("two case kinds. 'rw': a 3-D array of independent x,y,z sizes (quick: every shape <=5^3 once + random sizes 1..48 with "
        "<=6000 voxels; thorough: every shape <=12^3 + random 1..48 with <=30000 voxels + a few up to 48x47x46), dtype "
        "float32/float64/int16/int8, values that encode their own (i,j,k) index or seeded random values with float32 half-ulp "
        "ties / overflow / subnormals / +-0 / inf / NaN planted, written with cryomap.write (ext mrc|rec|em, transpose, data_type) "
        "and read with cryomap.read (transpose, data_type, same name or the reader's .ali/.st/.N aliases; a share of names with "
        "unsupported extensions); the bytes are parsed by the harness's own MRC/EM parsers. 'conv': an EM or MRC file made by "
        "the harness's own writers, converted by em2mrc/mrc2em with invert on/off, overwrite on/off, default/explicit/ill-named "
        "output, output pre-existing or not. non-trivial = pairwise distinct x,y,z sizes and >=24 voxels and not a rejected name; "
        "distinct = distinct case content")
ASSUMPTIONS = [
    "mrcfile.write / emfile.write store the C-ordered array they are given with nx=shape[2], ny=shape[1], nz=shape[0] (Model.store); "
    "checked byte-wise on every case by the harness's own header parsers, and the parsers are cross-checked against the libraries by probes",
    "numpy astype(float32) = IEEE round-to-nearest-even = Lean Float.toFloat32 (compared bit for bit on every float64 case)",
    "casts to int16/int8 (data_type option) are only generated for integral in-range values, where numpy's cast is exact (model: identity)",
    "contrast inversion of the most negative int8/int16 value (-128 / -32768) wraps in numpy; such voxels are not generated for invert cases",
    "file-system behaviour is modelled as a name->content map; that a refused write leaves the bytes on disk untouched is validated (hash), not proved",
]
TRUSTED = ["harness MRC (1024-byte header) and EM (512-byte header) parsers and EM/MRC writers in props/c11.py",
           "numpy as the independent evaluator of the statement (Fortran-order flattening = x fastest)"]
REL = "cryocat/cryomap.py"
DTYPES = ["float32", "float64", "int16", "int8"]
NP = {"float32": np.float32, "float64": np.float64, "int16": np.int16, "int8": np.int8}
IRANGE = {"int16": (-32768, 32767), "int8": (-128, 127)}
NAN_BITS = 0x7FF8000000000000


# ------------------------------------------------------------------ translator
def _calls(node, attr):
    return [n for n in ast.walk(node) if isinstance(n, ast.Call) and isinstance(n.func, ast.Attribute) and n.func.attr == attr]


def _transpose_anchor(fn, what):
    hits = {}
    for st in ast.walk(fn):  # breadth first: an inner `if` overwrites the entry made by an enclosing one
        if isinstance(st, ast.If):
            for c in _calls(ast.Module(body=st.body, type_ignores=[]), "transpose"):
                axes = [a.value for a in c.args if isinstance(a, ast.Constant)]
                if len(axes) == len(c.args):
                    hits[id(c)] = (axes, ast.unparse(st.test))
    if len(hits) != 1:
        raise core.AnchorMissing(f"{what}: expected exactly one guarded .transpose(<consts>), found {len(hits)}")
    return list(hits.values())[0]


def _endswith_consts(test):
    out = []
    for c in _calls(test, "endswith"):
        if len(c.args) == 1 and isinstance(c.args[0], ast.Constant) and isinstance(c.args[0].value, str):
            out.append(c.args[0].value)
        else:
            raise core.AnchorMissing("endswith with a non-literal argument")
    return out


def _has_call(nodes, modname, fname):
    for st in nodes:
        for n in ast.walk(st):
            if isinstance(n, ast.Call) and isinstance(n.func, ast.Attribute) and n.func.attr == fname \
                    and isinstance(n.func.value, ast.Name) and n.func.value.id == modname:
                return n
    return None


def _np_name(node):
    """np.float64 / numpy.float32 / np.single -> 'float64' ..."""
    if isinstance(node, ast.Attribute) and isinstance(node.value, ast.Name) and node.value.id in ("np", "numpy"):
        return node.attr
    raise core.AnchorMissing(f"not a numpy dtype name: {ast.unparse(node)}")


def _write_anchors(src):
    fn = src.find(REL, "write")
    steps, narrow, mrc_exts, em_exts, ow = [], None, None, None, True
    for st in fn.body:
        if not isinstance(st, ast.If):
            continue
        t = ast.unparse(st.test)
        body_txt = ast.unparse(ast.Module(body=st.body, type_ignores=[]))
        if "data_type is not None" in t and "astype(data_type)" in body_txt:
            steps.append("astype(data_type)")
        elif ".transpose(" in body_txt:
            steps.append("transpose")
        elif isinstance(st.test, ast.Compare) and ".dtype" in t and "astype" in body_txt:
            if not (len(st.test.ops) == 1 and isinstance(st.test.ops[0], ast.Eq)):
                raise core.AnchorMissing("write: narrowing test is not `dtype == <type>`")
            if st.orelse or narrow is not None:
                raise core.AnchorMissing("write: more than the one documented implicit conversion (float64 -> float32)")
            frm = _np_name(st.test.comparators[0])
            to = _np_name(_calls(ast.Module(body=st.body, type_ignores=[]), "astype")[0].args[0])
            narrow = (frm, to)
            steps.append("narrow")
        elif "endswith" in t:
            steps.append("dispatch")
            node, mrc_exts, em_exts = st, [], []
            while isinstance(node, ast.If):
                exts = _endswith_consts(node.test)
                cm, ce = _has_call(node.body, "mrcfile", "write"), _has_call(node.body, "emfile", "write")
                for c in (cm, ce):
                    if c is not None:
                        kw = {k.arg: ast.unparse(k.value) for k in c.keywords}
                        ow = ow and kw.get("overwrite") == "overwrite"
                if cm is not None:
                    mrc_exts += exts
                elif ce is not None:
                    em_exts += exts
                else:
                    raise core.AnchorMissing("write: extension branch without mrcfile.write/emfile.write")
                node = node.orelse[0] if len(node.orelse) == 1 else None
    if narrow is None or mrc_exts is None:
        raise core.AnchorMissing("write: narrowing or extension dispatch not found")
    return dict(steps=steps, narrow=narrow, mrc=mrc_exts, em=em_exts, ow=ow)


def _read_anchors(src):
    fn = src.find(REL, "read")
    vm = src.find(REL, "read.valid_mrc")
    pats = [n.value.value for n in ast.walk(vm) if isinstance(n, ast.Assign) and isinstance(n.value, ast.Constant) and isinstance(n.value.value, str)]
    if len(pats) != 1:
        raise core.AnchorMissing("read.valid_mrc: pattern literal")
    m = re.fullmatch(r"\\\.\(([a-z|]+)\)(\(\\\.\\d\+\)\?)?\$", pats[0])
    if not m:
        raise core.AnchorMissing(f"read.valid_mrc: pattern {pats[0]!r} is not \\.(a|b|..)(\\.\\d+)?$")
    if not any(isinstance(n, ast.Attribute) and n.attr == "search" for n in ast.walk(vm)):
        raise core.AnchorMissing("read.valid_mrc: re.search")
    em = None
    for st in ast.walk(fn):
        if isinstance(st, ast.If) and "valid_mrc(" in ast.unparse(st.test):
            if _has_call(st.body, "mrcfile", "open") is None:
                raise core.AnchorMissing("read: mrc branch does not call mrcfile.open")
            nxt = st.orelse[0] if len(st.orelse) == 1 and isinstance(st.orelse[0], ast.If) else None
            if nxt is None or _has_call(nxt.body, "emfile", "read") is None:
                raise core.AnchorMissing("read: em branch")
            em = _endswith_consts(nxt.test)
    if em is None:
        raise core.AnchorMissing("read: extension dispatch")
    return dict(exts=m.group(1).split("|"), numeric=m.group(2) is not None, em=em)


def _conv_anchors(src, name):
    fn = src.find(REL, name)
    d = dict(inp=None, out=None, cut=None, app=None, factor=None, plain=True)
    for st in ast.walk(fn):
        if isinstance(st, ast.If):
            t = st.test
            if isinstance(t, ast.UnaryOp) and isinstance(t.op, ast.Not) and "endswith" in ast.unparse(t) and any(isinstance(b, ast.Raise) for b in st.body):
                target = ast.unparse(t.operand).split(".endswith")[0]
                ext = _endswith_consts(t)[0]
                if target == "map_name":
                    d["inp"] = ext
                elif target == "output_name":
                    d["out"] = ext
            if ast.unparse(t) == "invert":
                for n in ast.walk(ast.Module(body=st.body, type_ignores=[])):
                    if isinstance(n, ast.BinOp) and isinstance(n.op, ast.Mult):
                        d["factor"] = int(ast.literal_eval(ast.unparse(n.right)))
        if isinstance(st, ast.Assign) and ast.unparse(st.targets[0]) == "output_name" and isinstance(st.value, ast.BinOp) and isinstance(st.value.op, ast.Add):
            l, r = st.value.left, st.value.right
            if isinstance(l, ast.Subscript) and ast.unparse(l.value) == "map_name" and isinstance(l.slice, ast.Slice) and l.slice.lower is None and l.slice.step is None:
                d["cut"] = -int(ast.literal_eval(ast.unparse(l.slice.upper)))
                d["app"] = r.value if isinstance(r, ast.Constant) else None
    reads = [n for n in ast.walk(fn) if isinstance(n, ast.Call) and isinstance(n.func, ast.Name) and n.func.id == "read"]
    writes = [n for n in ast.walk(fn) if isinstance(n, ast.Call) and isinstance(n.func, ast.Name) and n.func.id == "write"]
    d["plain"] = (len(reads) == 1 and ast.unparse(reads[0]) == "read(map_name)" and len(writes) == 1
                  and ast.unparse(writes[0]) == "write(data_to_write, output_name, overwrite=overwrite)")
    if any(d[k] is None for k in ("inp", "out", "cut", "app", "factor")) or d["cut"] < 0:
        raise core.AnchorMissing(f"{name}: {d}")
    return d


def translate(src):
    w_ax = src.anchor("write:transpose-axes", lambda: list(_transpose_anchor(src.find(REL, "write"), "write")))
    r_ax = src.anchor("read:transpose-axes", lambda: list(_transpose_anchor(src.find(REL, "read"), "read")))
    w = src.anchor("write:steps/narrowing/extension-dispatch", lambda: _write_anchors(src))
    r = src.anchor("read:valid_mrc-pattern/extension-dispatch", lambda: _read_anchors(src))
    e2m = src.anchor("em2mrc:names/factor/calls", lambda: _conv_anchors(src, "em2mrc"))
    m2e = src.anchor("mrc2em:names/factor/calls", lambda: _conv_anchors(src, "mrc2em"))
    w_ax = w_ax or [[], ""]
    r_ax = r_ax or [[], ""]
    w = w or dict(steps=[], narrow=("", ""), mrc=[], em=[], ow=False)
    r = r or dict(exts=[], numeric=False, em=[])
    z = dict(inp="", out="", cut=0, app="", factor=0, plain=False)
    e2m, m2e = e2m or z, m2e or z
    B = lambda b: "true" if b else "false"
    L = core.lean_str_list
    S = core.lean_str

    def conv(prefix, d):
        return (f"def {prefix}In : String := {S(d['inp'])}\ndef {prefix}Out : String := {S(d['out'])}\n"
                f"def {prefix}Cut : Nat := {d['cut']}\ndef {prefix}Append : String := {S(d['app'])}\n"
                f"def {prefix}Factor : Int := {d['factor']}\ndef {prefix}Plain : Bool := {B(d['plain'])}\n")

    return f"""-- GENERATED by harness/props/c11.py from {REL}; do not edit
namespace CryoCat.Gen.C11
def anchorsOk : Bool := {B(src.ok)}
def writeAxes : List Nat := [{", ".join(str(int(a)) for a in w_ax[0])}]
def readAxes : List Nat := [{", ".join(str(int(a)) for a in r_ax[0])}]
def writeTransposeGuard : String := {S(w_ax[1])}
def readTransposeGuard : String := {S(r_ax[1])}
def writeSteps : List String := {L(w['steps'])}
def narrowFrom : String := {S(w['narrow'][0])}
def narrowTo : String := {S(w['narrow'][1])}
def writeMrcExts : List String := {L(w['mrc'])}
def writeEmExts : List String := {L(w['em'])}
def writePassesOverwrite : Bool := {B(w['ow'])}
def readMrcExts : List String := {L(r['exts'])}
def readNumericSuffix : Bool := {B(r['numeric'])}
def readEmExts : List String := {L(r['em'])}
{conv('em2mrc', e2m)}{conv('mrc2em', m2e)}end CryoCat.Gen.C11
"""


# ------------------------------------------------------------------ independent parsers / writers
MRC_MODES = {0: "int8", 1: "int16", 2: "float32", 6: "uint16", 12: "float16"}
EM_CODES = {1: "int8", 2: "int16", 4: "int32", 5: "float32", 9: "float64"}
ITEM = {"int8": 1, "int16": 2, "float32": 4, "float64": 8, "int32": 4, "uint16": 2, "float16": 2}


def _bits(flat):
    """1-D numpy array -> list of binary64 bit patterns (NaN canonical)"""
    v = np.asarray(flat).astype(np.float64)
    b = v.view(np.uint64).copy()
    b[np.isnan(v)] = NAN_BITS
    return b.tolist()


def parse_mrc(path):
    raw = open(path, "rb").read()
    if len(raw) < 1024:
        return dict(kind="mrc", bad="short header")
    nx, ny, nz, mode = struct.unpack("<4i", raw[:16])
    mapc, mapr, maps = struct.unpack("<3i", raw[64:76])
    nsymbt = struct.unpack("<i", raw[92:96])[0]
    tag, stamp = raw[208:212], raw[212:214]
    dt = MRC_MODES.get(mode)
    out = dict(kind="mrc", dims=[nx, ny, nz], mode=mode, dtype=dt, mapcrs=[mapc, mapr, maps], nsymbt=nsymbt,
               map_tag_ok=(tag == b"MAP "), little_endian=(stamp == b"\x44\x44" or stamp == b"\x44\x41"))
    if dt is None or min(nx, ny, nz) < 0:
        out["bad"] = "mode/dims"
        return out
    payload = raw[1024 + nsymbt:]
    out["size_ok"] = (len(payload) == nx * ny * nz * ITEM[dt])
    n = len(payload) // ITEM[dt]
    out["data"] = _bits(np.frombuffer(payload[: n * ITEM[dt]], dtype=np.dtype(dt).newbyteorder("<")))
    return out


def parse_em(path):
    raw = open(path, "rb").read()
    if len(raw) < 512:
        return dict(kind="em", bad="short header")
    machine, code = raw[0], raw[3]
    nx, ny, nz = struct.unpack("<3i", raw[4:16])
    dt = EM_CODES.get(code)
    out = dict(kind="em", dims=[nx, ny, nz], code=code, dtype=dt, machine=machine, little_endian=(machine == 6))
    if dt is None or min(nx, ny, nz) < 0:
        out["bad"] = "code/dims"
        return out
    payload = raw[512:]
    out["size_ok"] = (len(payload) == nx * ny * nz * ITEM[dt])
    n = len(payload) // ITEM[dt]
    out["data"] = _bits(np.frombuffer(payload[: n * ITEM[dt]], dtype=np.dtype(dt).newbyteorder("<")))
    return out


def parse_by_content(path):
    """decide the format by the bytes, not by the name: MRC has 'MAP ' at 208"""
    raw = open(path, "rb").read(216)
    return parse_mrc(path) if len(raw) >= 212 and raw[208:212] == b"MAP " else parse_em(path)


def write_em_own(path, vol_xyz):
    """own EM writer: 512-byte header, x fastest"""
    code = {v: k for k, v in EM_CODES.items()}[vol_xyz.dtype.name]
    hdr = bytes([6, 0, 0, code]) + struct.pack("<3i", *vol_xyz.shape) + b"\x00" * (512 - 16)
    with open(path, "wb") as f:
        f.write(hdr + np.ascontiguousarray(vol_xyz).astype(vol_xyz.dtype.newbyteorder("<")).tobytes(order="F"))


def write_mrc_own(path, vol_xyz):
    """own minimal MRC2014 writer: 1024-byte header, x fastest, mapc/r/s = 1,2,3, space group 1 (volume)"""
    mode = {v: k for k, v in MRC_MODES.items()}[vol_xyz.dtype.name]
    nx, ny, nz = vol_xyz.shape
    h = bytearray(1024)
    h[0:16] = struct.pack("<4i", nx, ny, nz, mode)
    h[28:40] = struct.pack("<3i", nx, ny, nz)          # mx my mz
    h[40:52] = struct.pack("<3f", nx, ny, nz)          # cella
    h[52:64] = struct.pack("<3f", 90.0, 90.0, 90.0)    # cellb
    h[64:76] = struct.pack("<3i", 1, 2, 3)
    v = vol_xyz.astype(np.float64)
    h[76:88] = struct.pack("<3f", float(v.min()), float(v.max()), float(v.mean()))
    h[88:92] = struct.pack("<i", 1)                    # ispg = 1: a volume (0 would make nz=1 a 2-D image for mrcfile)
    h[108:112] = struct.pack("<i", 20140)
    h[208:212] = b"MAP "
    h[212:216] = b"\x44\x44\x00\x00"
    h[216:220] = struct.pack("<f", float(v.std()))
    with open(path, "wb") as f:
        f.write(bytes(h) + np.ascontiguousarray(vol_xyz).astype(vol_xyz.dtype.newbyteorder("<")).tobytes(order="F"))


# ------------------------------------------------------------------ arrays from case descriptions
def _specials(dtype):
    if dtype == "float64":
        t = np.float32(1.2345678)
        tie = (float(t) + float(np.nextafter(t, np.float32(np.inf)))) / 2
        return [tie, -tie * 1024, 0.1, 1e-40, -3e-46, 3.4028235e38, 3.5e38, -1e300, 0.0, -0.0, float("inf"), float("-inf"), float("nan"), 16777217.0]
    if dtype == "float32":
        return [0.1, 1e-40, 3.4028235e38, 0.0, -0.0, float("inf"), float("-inf"), float("nan"), 16777216.0, -1.17549435e-38]
    lo, hi = IRANGE[dtype]
    return [lo, hi, 0, -1, 1]


def build(case):
    """the (x,y,z) array of an 'rw' or 'conv' case"""
    x, y, z = case["shape"]
    dt = case["dtype"]
    fill = case["fill"]
    lo, hi = fill.get("lo", -100), fill.get("hi", 100)
    i, j, k = np.meshgrid(np.arange(x), np.arange(y), np.arange(z), indexing="ij")
    if fill["mode"] == "index":
        ca, cb, cc, off = fill["coef"]
        v = ca * i + cb * j + cc * k + off
        if dt.startswith("int") or fill.get("integral"):
            span = hi - lo + 1
            a = ((v - lo) % span + lo).astype(NP[dt])
        else:
            a = (v.astype(np.float64) * fill.get("scale", 1.0)).astype(NP[dt])
    else:
        g = np.random.default_rng(fill["seed"])
        if dt.startswith("int") or fill.get("integral"):
            a = g.integers(lo, hi + 1, size=(x, y, z)).astype(NP[dt])
        else:
            a = (g.standard_normal((x, y, z)) * fill.get("scale", 1.0)).astype(NP[dt])
    a = np.ascontiguousarray(a)
    flat = a.reshape(-1)
    for pos, bits in case.get("plant", []):
        if pos < flat.size:
            flat[pos] = NP[dt](core.b2f(bits)) if not dt.startswith("int") else NP[dt](int(core.b2f(bits)))
    return a


def _arr_json(a):
    return dict(shape=list(a.shape), dtype=a.dtype.name, data=_bits(a.reshape(-1)))


# ------------------------------------------------------------------ generators
def _fill(rng, dtype, others, invert=False):
    """value description compatible with every dtype the values pass through (exact casts only)"""
    ints = [t for t in [dtype] + others if t in IRANGE]
    f = {}
    if ints:
        lo = max(IRANGE[t][0] for t in ints)
        hi = min(IRANGE[t][1] for t in ints)
        if invert:
            lo += 1
        f.update(lo=lo, hi=hi)
        if not dtype.startswith("int"):
            f["integral"] = True
    if rng.random() < 0.6:
        f.update(mode="index", coef=[1, rng.choice([50, 7, 3]), rng.choice([2500, 61, 11]), rng.randint(-5, 5)])
        if not ints:
            f["scale"] = rng.choice([1.0, 0.37, 1.0 / 3.0, 1e-3])
    else:
        f.update(mode="random", seed=rng.randrange(1 << 30))
        if not ints:
            f["scale"] = rng.choice([1.0, 100.0, 1e-3, 1e20])
    return f


def _plant(rng, dtype, nvox, allow, invert=False):
    if not allow or rng.random() < 0.4:
        return []
    sp = _specials(dtype)
    if invert and dtype in IRANGE:
        sp = [s for s in sp if s != IRANGE[dtype][0]]
    return [[rng.randrange(nvox), core.f2b(float(rng.choice(sp)))] for _ in range(min(nvox, rng.randint(1, 6)))]


def _shape(rng, cap, top=48):
    while True:
        k = rng.random()
        if k < 0.5:
            s = [rng.randint(1, top) for _ in range(3)]
        elif k < 0.8:
            s = [rng.randint(1, top), rng.randint(1, 12), rng.randint(1, 6)]
            rng.shuffle(s)
        else:
            s = [rng.randint(1, 7) for _ in range(3)]
        if s[0] * s[1] * s[2] <= cap:
            return s


GOOD_EXT = ["mrc", "rec", "em"]
BAD_WRITE_NAMES = ["vol.map", "vol.mrcs", "vol.EM", "vol.mrc.1", "vol.st", "volmrc", "vol.em.bak", "vol.rec ", "vol"]


def _rw_case(rng, shape, dtype=None, ext=None, simple=False):
    dtype = dtype or rng.choice(DTYPES)
    ext = ext or rng.choice(GOOD_EXT)
    case = dict(kind="rw", shape=list(shape), dtype=dtype, name="vol." + ext, transpose=True, rtranspose=True,
                data_type=None, rdata_type=None, rname="same")
    if not simple:
        if rng.random() < 0.2:
            case["transpose"] = rng.random() < 0.5
            case["rtranspose"] = rng.random() < 0.5
        if rng.random() < 0.3:
            case["data_type"] = rng.choice(DTYPES)
        if rng.random() < 0.25:
            case["rdata_type"] = rng.choice(DTYPES)
        if rng.random() < 0.3:
            case["name"] = rng.choice(["vol.", "my.vol.v2.", "tomo_001.em.", "a.mrc.", ".hidden.", "x"]) + ext
        k = rng.random()
        if k < 0.15 and ext != "em":
            case["rname"] = rng.choice(["numeric", "ali", "st", "rec", "mrc", "st.numeric"])
        elif k < 0.20:
            case["rname"] = rng.choice(["bad.map", "bad.mrcs", "bad.EM", "bad.mrc.", "bad.rec.1a", "bad.em.1"])
    others = [t for t in (case["data_type"], case["rdata_type"]) if t]
    case["fill"] = _fill(rng, dtype, others)
    nvox = shape[0] * shape[1] * shape[2]
    # specials only where every cast on the way is a float cast (or none)
    case["plant"] = _plant(rng, dtype, nvox, allow=not any(t in IRANGE for t in others) and not simple)
    return case


def _conv_case(rng, shape):
    which = rng.choice(["em2mrc", "mrc2em"])
    dtype = rng.choice(["float32", "int16", "int8", "float32"])
    invert = rng.random() < 0.5
    in_ext = "em" if which == "em2mrc" else "mrc"
    out_ext = "mrc" if which == "em2mrc" else "em"
    stem = rng.choice(["vol", "my.vol", "a.em", "t_01.mrc", "x"])
    case = dict(kind="conv", which=which, shape=list(shape), dtype=dtype, invert=invert, overwrite=rng.random() < 0.5,
                in_name=f"{stem}.{in_ext}", output=None, exists=rng.random() < 0.5)
    k = rng.random()
    if k < 0.35:
        case["output"] = rng.choice(["out", "other.name", stem]) + "." + out_ext
    elif k < 0.45:
        case["output"] = rng.choice(["out." + in_ext, "out.map", "out", "out." + out_ext + "x", "out.rec"])
    if rng.random() < 0.06:
        case["in_name"] = stem + rng.choice([".rec", ".map", "." + out_ext, ".EM"])
    case["fill"] = _fill(rng, dtype, [], invert=invert)
    case["plant"] = _plant(rng, dtype, shape[0] * shape[1] * shape[2], allow=True, invert=invert)
    return case


def generate(rng, tier, n):
    if tier == "quick":
        top, cap = 5, 6000
    elif tier == "thorough":
        top, cap = 12, 30000
    else:
        top, cap = 0, 1500
    # every shape up to top^3 once (dtype/ext cycling so that each (dtype, ext) pair sees many shapes)
    combos = [(d, e) for d in DTYPES for e in GOOD_EXT]
    c = rng.randrange(len(combos))
    for x in range(1, top + 1):
        for y in range(1, top + 1):
            for z in range(1, top + 1):
                d, e = combos[c % len(combos)]
                c += 1
                yield _rw_case(rng, (x, y, z), d, e, simple=(tier == "thorough" and rng.random() < 0.5))
    if tier == "thorough":
        for s in [(48, 47, 46), (1, 48, 47), (48, 1, 2), (2, 3, 48), (48, 48, 48), (47, 2, 48)]:
            yield _rw_case(rng, s)
    for t in range(n):
        k = rng.random()
        if k < 0.62:
            yield _rw_case(rng, _shape(rng, cap))
        elif k < 0.67:
            case = _rw_case(rng, _shape(rng, 200))
            case["name"] = rng.choice(BAD_WRITE_NAMES)
            case["rname"] = "same"
            yield case
        else:
            yield _conv_case(rng, _shape(rng, min(cap, 4000)))


def search_cases(rng, broken, anchors):
    """inputs derived from a broken obligation: small non-cubic arrays through every option combination"""
    for dtype in DTYPES:
        for ext in GOOD_EXT:
            for tr in (True, False):
                c = _rw_case(rng, (2, 3, 4), dtype, ext, simple=True)
                c["transpose"] = c["rtranspose"] = tr
                yield c
    for which in ("em2mrc", "mrc2em"):
        for inv in (False, True):
            for ow in (False, True):
                for ex in (False, True):
                    for outp in (None, "out." + ("mrc" if which == "em2mrc" else "em")):
                        c = _conv_case(rng, (2, 3, 4))
                        c.update(which=which, invert=inv, overwrite=ow, exists=ex, output=outp,
                                 in_name="vol." + ("em" if which == "em2mrc" else "mrc"), dtype="float32", plant=[])
                        c["fill"] = _fill(rng, "float32", [], invert=inv)
                        yield c


def shrink(case):
    s = case["shape"]
    for cand in ([2, 3, 4], [1, 2, 3], [1, 1, 2], [2, 1, 1], [1, 2, 1]):
        if s[0] * s[1] * s[2] > cand[0] * cand[1] * cand[2]:
            yield dict(case, shape=cand, plant=[])
    for ax in range(3):
        if s[ax] > 1:
            t = list(s); t[ax] = max(1, s[ax] // 2)
            yield dict(case, shape=t, plant=[])
    if case.get("plant"):
        yield dict(case, plant=[])
        for i in range(len(case["plant"])):
            yield dict(case, plant=case["plant"][:i] + case["plant"][i + 1:])
    if case["fill"].get("mode") != "index":
        f = dict(case["fill"], mode="index", coef=[1, 50, 2500, 0]); f.pop("seed", None); f["scale"] = 1.0
        yield dict(case, fill=f)
    if case["kind"] == "rw":
        for k, v in (("data_type", None), ("rdata_type", None), ("rname", "same"), ("transpose", True), ("rtranspose", True)):
            if case.get(k) != v:
                yield dict(case, **{k: v})
        if case["name"].startswith(("my.", "tomo", "a.mrc", ".hidden", "x")) and case["name"].rsplit(".", 1)[-1] in GOOD_EXT:
            yield dict(case, name="vol." + case["name"].rsplit(".", 1)[-1])
    else:
        for k, v in (("exists", False), ("output", None), ("overwrite", True)):
            if case.get(k) != v:
                yield dict(case, **{k: v})


# ------------------------------------------------------------------ implementation
def _err_kind(e):
    m = str(e)
    if "exist" in m:
        return "exists"
    if "has to end with" in m or "neither em or mrc" in m:
        return "bad-extension"
    if "must be .em file" in m or "is not .mrc file" in m or "Input file" in m or "Input is not" in m:
        return "bad-input-name"
    if "must end with .mrc" in m or "is not .em file" in m:
        return "bad-output-name"
    return "other:" + type(e).__name__ + ":" + m[:120]


def _read_name(case):
    name, rn = case["name"], case.get("rname", "same")
    if rn == "same":
        return name
    stem = name.rsplit(".", 1)[0]
    if rn == "numeric":
        return name + ".12"
    if rn == "st.numeric":
        return stem + ".st.3"
    if rn in ("ali", "st", "rec", "mrc"):
        return stem + "." + rn
    return rn  # an unsupported name


def _sha(path):
    return hashlib.sha1(open(path, "rb").read()).hexdigest()


def run_impl(case):
    import warnings
    warnings.filterwarnings("ignore")
    from cryocat import cryomap
    td = tempfile.mkdtemp(prefix="c11_")
    try:
        with np.errstate(all="ignore"):
            return _run_rw(cryomap, case, td) if case["kind"] == "rw" else _run_conv(cryomap, case, td)
    finally:
        shutil.rmtree(td, ignore_errors=True)


def _run_rw(cryomap, case, td):
    a = build(case)
    p = os.path.join(td, case["name"])
    dt = NP[case["data_type"]] if case["data_type"] else None
    out = {}
    try:
        cryomap.write(a.copy(), p, transpose=case["transpose"], data_type=dt)
    except ValueError as e:
        return {"write": {"reject": _err_kind(e)}, "files": sorted(os.listdir(td))}
    out["files"] = sorted(os.listdir(td))
    if not os.path.exists(p):
        return dict(out, write={"reject": "no-file-written"})
    out["write"] = parse_by_content(p)
    rn = _read_name(case)
    rp = os.path.join(td, rn)
    if rp != p:
        shutil.copyfile(p, rp)
    rdt = NP[case["rdata_type"]] if case["rdata_type"] else None
    try:
        b = cryomap.read(rp, transpose=case["rtranspose"], data_type=rdt)
        out["back"] = dict(shape=list(b.shape), dtype=b.dtype.name, data=_bits(np.ascontiguousarray(b).reshape(-1)),
                           ndarray=isinstance(b, np.ndarray), writeable=bool(b.flags.writeable))
    except ValueError as e:
        out["back"] = {"reject": _err_kind(e)}
    return out


def _run_conv(cryomap, case, td):
    a = build(case)
    pin = os.path.join(td, case["in_name"])
    # the input file is made by the harness's own writers (stand-in for other cryo-EM software)
    real_em = (case["which"] == "em2mrc")
    (write_em_own if real_em else write_mrc_own)(pin, a)
    out_ext = "mrc" if case["which"] == "em2mrc" else "em"
    if case["output"] is None:
        cut = 2 if case["which"] == "em2mrc" else 3
        documented_out = case["in_name"][:-cut] + out_ext
        pout = os.path.join(td, documented_out)
    else:
        pout = os.path.join(td, case["output"])
    pre = None
    if case["exists"] and pout != pin:
        # pre-existing output with different content (2x2x2 of sevens in the right format when the name allows)
        sent = np.full((2, 2, 2), 7, dtype=np.float32)
        (write_mrc_own if out_ext == "mrc" else write_em_own)(pout, sent)
        pre = _sha(pout)
    in_sha = _sha(pin)
    fn = getattr(cryomap, case["which"])
    res = {"input": (parse_em if real_em else parse_mrc)(pin)}
    try:
        fn(pin, invert=case["invert"], overwrite=case["overwrite"],
           output_name=(None if case["output"] is None else pout))
        res["result"] = "ok"
    except ValueError as e:
        res["result"] = _err_kind(e)
    res["files"] = sorted(os.listdir(td))
    res["input_unchanged"] = (_sha(pin) == in_sha)
    res["out_name"] = os.path.basename(pout)
    if os.path.exists(pout):
        res["out_sha_same_as_pre"] = (pre is not None and _sha(pout) == pre)
        res["out"] = parse_by_content(pout)
    res["pre_existing"] = pre is not None
    return res


# ------------------------------------------------------------------ model requests
def _file_json(f):
    return dict(kind=f["kind"], dims=f["dims"], dtype=f["dtype"], data=f["data"])


def _wire_ok(f):
    return isinstance(f, dict) and "data" in f and f.get("dtype") in DTYPES and "bad" not in f


def requests(case, obs):
    if "error" in obs:
        obs = {}
    if case["kind"] == "rw":
        a = build(case)
        q = dict(op="roundtrip", arr=_arr_json(a), name=case["name"], transpose=case["transpose"], rtranspose=case["rtranspose"],
                 rname=_read_name(case))
        if case["data_type"]:
            q["data_type"] = case["data_type"]
        if case["rdata_type"]:
            q["rdata_type"] = case["rdata_type"]
        w, b = obs.get("write"), obs.get("back")
        if case["transpose"] and _wire_ok(w):
            q["file"] = _file_json(w)
        if case["transpose"] == case["rtranspose"] and isinstance(b, dict) and "data" in b and b.get("dtype") in DTYPES and len(b["shape"]) == 3:
            q["back"] = dict(shape=b["shape"], dtype=b["dtype"], data=b["data"])
        return [q]
    fs = []
    inp = obs.get("input")
    if _wire_ok(inp):
        fs.append(dict(name=case["in_name"], **_file_json(inp)))
    else:  # the observation is unusable: describe the input from the case itself
        a = build(case)
        fs.append(dict(name=case["in_name"], kind=("em" if case["which"] == "em2mrc" else "mrc"), dims=list(a.shape),
                       dtype=a.dtype.name, data=_bits(a.reshape(-1, order="F"))))
    out_name = obs.get("out_name")
    if obs.get("pre_existing") and out_name:
        sev = _bits(np.full(8, 7, dtype=np.float32))
        fs.append(dict(name=out_name, kind=("mrc" if case["which"] == "em2mrc" else "em"), dims=[2, 2, 2], dtype="float32", data=sev))
    q = dict(op="convert", which=case["which"], fs=fs, map_name=case["in_name"], invert=case["invert"], overwrite=case["overwrite"])
    if case["output"] is not None:
        q["output_name"] = case["output"]
    if obs.get("result") == "ok" and _wire_ok(obs.get("out")):
        q["file"] = _file_json(obs["out"])
    return [q]


# ------------------------------------------------------------------ the statement, evaluated independently (numpy only)
def _expected_rw(case):
    a = build(case)
    with np.errstate(all="ignore"):
        e = a.astype(NP[case["data_type"]]) if case["data_type"] else a
        if e.dtype == np.float64:
            e = e.astype(np.float32)
        file_dtype = e.dtype.name
        # x fastest = Fortran-order flattening of the (x,y,z) array; with transpose=False the array is taken as (z,y,x)
        file_dims = list(e.shape) if case["transpose"] else list(e.shape[::-1])
        file_data = _bits(e.reshape(-1, order="F") if case["transpose"] else e.reshape(-1))
        b = e if case["transpose"] == case["rtranspose"] else e.transpose(2, 1, 0)
        if case["rdata_type"]:
            b = b.astype(NP[case["rdata_type"]])
    return dict(dims=file_dims, dtype=file_dtype, data=file_data, back_shape=list(b.shape), back_dtype=b.dtype.name,
                back_data=_bits(np.ascontiguousarray(b).reshape(-1)))


def _first_diff(x, y):
    if len(x) != len(y):
        return f"lengths {len(x)} vs {len(y)}"
    for i, (p, q) in enumerate(zip(x, y)):
        if p != q:
            return f"flat index {i}: {core.b2f(p)!r} (bits {p:#x}) vs {core.b2f(q)!r} (bits {q:#x})"
    return "equal"


def _name_verdicts(case):
    """documented acceptance of names, written by hand (independent of model and source)"""
    n = case["name"]
    w_ok = n.endswith(".mrc") or n.endswith(".rec") or n.endswith(".em")
    rn = _read_name(case)
    r_ok = bool(re.search(r"\.(mrc|ali|rec|st)(\.[0-9]+)?$", rn)) or rn.endswith(".em")
    return w_ok, r_ok, ("em" if n.endswith(".em") else "mrc")


def judge(case, obs, resps):
    if "error" in obs:
        return [dict(kind="spec", clause="raises", detail=obs["error"] + " @" + obs.get("where", ""))]
    return _judge_rw(case, obs, resps[0]) if case["kind"] == "rw" else _judge_conv(case, obs, resps[0])


def _judge_rw(case, obs, model):
    out = []
    S = lambda clause, detail: out.append(dict(kind="spec", clause=clause, detail=detail))
    C = lambda clause, detail: out.append(dict(kind="corr", clause=clause, detail=detail))
    w_ok, r_ok, fmt = _name_verdicts(case)
    w = obs["write"]
    # ---- names
    if not w_ok:
        if "reject" not in w:
            S("accepts-unsupported-extension", f"write({case['name']!r}) produced {obs.get('files')}")
        elif w["reject"] != "bad-extension":
            S("wrong-refusal", f"write({case['name']!r}): {w['reject']}")
        if "error" not in model or model["error"] != "reject:bad-extension":
            C("model-accepts-name", f"{case['name']!r}: {str(model)[:200]}")
        return out
    if "reject" in w:
        S("rejects-supported-extension", f"write({case['name']!r}): {w['reject']}")
        return out
    if "error" in model:
        C("model-rejects", f"{case['name']!r}: {model}")
        return out
    exp = _expected_rw(case)
    # ---- bytes on disk
    if w.get("bad"):
        S("file-header", f"unparseable {w.get('kind')} file: {w['bad']}")
        return out
    if w["kind"] != fmt:
        S("file-format", f"{case['name']!r} holds a {w['kind']} file, documented {fmt}")
    if w["kind"] == "mrc" and not (w["mapcrs"] == [1, 2, 3] and w["nsymbt"] == 0 and w["map_tag_ok"] and w["little_endian"]):
        S("file-header", f"mapc/r/s={w['mapcrs']} nsymbt={w['nsymbt']} tag_ok={w['map_tag_ok']} le={w['little_endian']}")
    if w["kind"] == "em" and not w["little_endian"]:
        S("file-header", f"EM machine byte {w['machine']}")
    if w["dims"] != exp["dims"]:
        S("header-dims", f"header nx,ny,nz={w['dims']}, array shape {case['shape']} (transpose={case['transpose']}) demands {exp['dims']}")
    elif not w.get("size_ok"):
        S("payload-size", f"payload does not hold nx*ny*nz voxels of {w['dtype']}")
    if w["dtype"] != exp["dtype"]:
        S("file-dtype", f"file holds {w['dtype']}, documented {exp['dtype']} (array {case['dtype']}, data_type={case['data_type']})")
    elif w["dims"] == exp["dims"] and w["data"] != exp["data"]:
        S("x-fastest-voxels", "payload differs from the x-fastest flattening of the array: " + _first_diff(w["data"], exp["data"]))
    if case["transpose"] and "check_write" in model and not (model["check_write"] and model["check_write_dtype"]):
        S("verified-checker-rejects-file", f"checkXFastest={model['check_write']} dtype_ok={model['check_write_dtype']} on header {w['dims']} {w['dtype']}")
    mf = model["file"]
    if (mf["kind"], mf["dims"], mf["dtype"]) != (w["kind"], w["dims"], w["dtype"]) or mf["data"] != w.get("data"):
        C("file-vs-model", f"model file {mf['kind']} {mf['dims']} {mf['dtype']} vs real {w['kind']} {w['dims']} {w['dtype']}; data: " + _first_diff(mf["data"], w.get("data", [])))
    # ---- read back
    b = obs["back"]
    ma = model["arr"]
    if not r_ok:
        if "reject" not in b:
            S("reads-unsupported-extension", f"read({_read_name(case)!r}) returned an array")
        elif b["reject"] != "bad-extension":
            S("wrong-refusal", f"read({_read_name(case)!r}): {b['reject']}")
        if ma.get("error") != "reject:bad-extension":
            C("model-reads-name", f"{_read_name(case)!r}: {str(ma)[:200]}")
        return out
    if "reject" in b:
        S("read-rejects-supported-name", f"read({_read_name(case)!r}): {b['reject']}")
        return out
    if b["shape"] != exp["back_shape"]:
        S("roundtrip-shape", f"read back shape {b['shape']}, written {case['shape']} (transpose {case['transpose']}/{case['rtranspose']}) demands {exp['back_shape']}")
    elif b["data"] != exp["back_data"]:
        S("roundtrip-voxels", "read back voxels differ: " + _first_diff(b["data"], exp["back_data"]))
    if b["dtype"] != exp["back_dtype"]:
        S("roundtrip-dtype", f"read back dtype {b['dtype']}, documented {exp['back_dtype']}")
    if "check_back" in model and not (model["check_back"] and model["check_back_dtype"]):
        S("verified-checker-rejects-roundtrip", f"checkSameVoxels={model['check_back']} dtype_ok={model['check_back_dtype']}")
    if "error" in ma:
        C("model-read-rejects", str(ma))
    elif (ma["shape"], ma["dtype"]) != (b["shape"], b["dtype"]) or ma["data"] != b["data"]:
        C("read-vs-model", f"model {ma['shape']} {ma['dtype']} vs real {b['shape']} {b['dtype']}; data: " + _first_diff(ma["data"], b["data"]))
    return out


def _expected_conv(case):
    """documented outcome of a converter call: ('ok', out_name) or (refusal kind, None)"""
    which, n = case["which"], case["in_name"]
    in_ext, out_ext, cut = (".em", ".mrc", 2) if which == "em2mrc" else (".mrc", ".em", 3)
    if not n.endswith(in_ext):
        return "bad-input-name", None
    if case["output"] is None:
        o = n[:-cut] + out_ext[1:]
    else:
        o = case["output"]
        if not o.endswith(out_ext):
            return "bad-output-name", None
    return "ok", o


def _judge_conv(case, obs, model):
    out = []
    S = lambda clause, detail: out.append(dict(kind="spec", clause=clause, detail=detail))
    C = lambda clause, detail: out.append(dict(kind="corr", clause=clause, detail=detail))
    verdict, oname = _expected_conv(case)
    inp = obs["input"]
    if verdict == "ok" and obs.get("pre_existing") and not case["overwrite"]:
        verdict = "exists"
    if not obs.get("input_unchanged"):
        S("input-file-modified", f"{case['in_name']} changed on disk")
    if verdict != "ok":
        if obs["result"] == "ok":
            S("no-refusal" if verdict != "exists" else "overwrites-when-told-not-to",
              f"{case['which']}({case['in_name']!r}, overwrite={case['overwrite']}, output_name={case['output']!r}) returned normally; documented refusal: {verdict}")
        elif obs["result"] != verdict:
            S("wrong-refusal", f"raised {obs['result']}, documented {verdict}")
        if verdict == "exists" and not obs.get("out_sha_same_as_pre"):
            S("overwrites-when-told-not-to", f"existing {obs.get('out_name')} was modified although overwrite=False")
        if model.get("error") != "reject:" + verdict:
            C("model-refusal", f"model {str(model)[:200]} vs documented {verdict}")
        return out
    if obs["result"] != "ok":
        S("refuses-valid-call", f"{case['which']}({case['in_name']!r}, overwrite={case['overwrite']}, output_name={case['output']!r}, exists={obs.get('pre_existing')}): {obs['result']}")
        return out
    o = obs.get("out")
    if o is None or oname not in obs["files"]:
        S("output-name", f"documented output {oname!r}; directory holds {obs['files']}")
        return out
    extra = set(obs["files"]) - {case["in_name"], oname}
    if extra:
        S("stray-files", f"{sorted(extra)}")
    if o.get("bad"):
        S("file-header", f"unparseable output: {o['bad']}")
        return out
    fmt = "mrc" if case["which"] == "em2mrc" else "em"
    if o["kind"] != fmt:
        S("file-format", f"output is a {o['kind']} file")
    if o["kind"] == "mrc" and not (o["mapcrs"] == [1, 2, 3] and o["nsymbt"] == 0 and o["map_tag_ok"] and o["little_endian"]):
        S("file-header", f"mapc/r/s={o['mapcrs']} nsymbt={o['nsymbt']}")
    if o["dims"] != inp["dims"] or not o.get("size_ok"):
        S("header-dims", f"output nx,ny,nz={o['dims']} vs input {inp['dims']}")
    if o["dtype"] != inp["dtype"]:
        S("file-dtype", f"output {o['dtype']} vs input {inp['dtype']}")
    a = build(case)
    with np.errstate(all="ignore"):
        want = _bits((-a if case["invert"] else a).reshape(-1, order="F"))
    if o["dims"] == inp["dims"] and o["data"] != want:
        S("voxels-negated" if case["invert"] else "voxels-preserved", "output payload: " + _first_diff(o["data"], want))
    if "check_convert" in model and not (model["check_convert"] and model["check_convert_dtype"]):
        S("verified-checker-rejects-conversion", f"checkSameFileVoxels={model['check_convert']} dtype_ok={model['check_convert_dtype']}")
    if "error" in model:
        C("model-refuses", str(model))
    else:
        mf = model["file"]
        if model["out_name"] != oname:
            C("model-output-name", f"{model['out_name']!r} vs {oname!r}")
        if (mf["kind"], mf["dims"], mf["dtype"]) != (o["kind"], o["dims"], o["dtype"]) or mf["data"] != o["data"]:
            C("file-vs-model", f"model {mf['kind']} {mf['dims']} {mf['dtype']} vs real {o['kind']} {o['dims']} {o['dtype']}; data: " + _first_diff(mf["data"], o["data"]))
        if sorted(model["names"]) != sorted(obs["files"]):
            C("files-vs-model", f"{sorted(model['names'])} vs {obs['files']}")
    return out


# ------------------------------------------------------------------ evidence
def nontrivial(case, obs):
    x, y, z = case["shape"]
    if len({x, y, z}) < 3 or x * y * z < 24 or "error" in obs:
        return False
    if case["kind"] == "rw":
        w_ok, r_ok, _ = _name_verdicts(case)
        return w_ok and r_ok
    return _expected_conv(case)[0] == "ok"


def _size_bin(n):
    return "1" if n == 1 else "2-4" if n <= 4 else "5-12" if n <= 12 else "13-32" if n <= 32 else "33-48"


def stats(case, obs, resps):
    x, y, z = case["shape"]
    d = {"kind": case["kind"], "dtype": case["dtype"], "axis_size": [_size_bin(v) for v in (x, y, z)],
         "shape_class": "cubic" if x == y == z else ("two-equal" if len({x, y, z}) == 2 else "all-distinct"),
         "voxels": "<=64" if x * y * z <= 64 else "<=1000" if x * y * z <= 1000 else "<=8000" if x * y * z <= 8000 else ">8000",
         "fill": case["fill"]["mode"] + ("+planted" if case.get("plant") else "")}
    if case["kind"] == "rw":
        w_ok, r_ok, fmt = _name_verdicts(case)
        d["ext"] = case["name"].rsplit(".", 1)[-1] if w_ok else "unsupported"
        d["transpose(w/r)"] = f"{case['transpose']}/{case['rtranspose']}"
        d["data_type(w)"] = str(case["data_type"])
        d["data_type(r)"] = str(case["rdata_type"])
        d["read_name"] = case.get("rname", "same") if r_ok else "unsupported"
        if isinstance(obs.get("write"), dict):
            d["outcome"] = "write-refused:" + obs["write"]["reject"] if "reject" in obs["write"] else (
                "read-refused:" + obs["back"]["reject"] if "reject" in obs.get("back", {}) else "round-trip")
            if "dtype" in obs["write"]:
                d["file_dtype"] = f"{case['dtype']}->{obs['write']['dtype']}"
    else:
        d["which"] = case["which"]
        d["invert"] = str(case["invert"])
        d["overwrite/exists"] = f"{case['overwrite']}/{case['exists']}"
        d["output"] = "default" if case["output"] is None else ("explicit" if _expected_conv(case)[0] != "bad-output-name" else "explicit-bad")
        d["outcome"] = obs.get("result", "error")
    return d


def sample_view(case):
    v = {k: case[k] for k in case if k not in ("plant",)}
    v["planted_specials"] = len(case.get("plant", []))
    return v


def classify(case, obs, finding):
    return None


def probes(rng):
    """library assumptions: the harness parsers agree with emfile/mrcfile; the own writers are read by the libraries"""
    import mrcfile, emfile, warnings
    warnings.filterwarnings("ignore")
    out = []
    td = tempfile.mkdtemp(prefix="c11p_")
    try:
        for dt in ("float32", "int16", "int8"):
            zyx = (np.arange(2 * 3 * 5).reshape(2, 3, 5) - 7).astype(NP[dt])
            p = os.path.join(td, "p.mrc")
            mrcfile.write(p, zyx, overwrite=True)
            m = parse_mrc(p)
            ok = m["dims"] == [5, 3, 2] and m["dtype"] == dt and m["data"] == _bits(zyx.reshape(-1)) and m["size_ok"]
            out.append(dict(name=f"parse_mrc-agrees-with-mrcfile[{dt}]", ok=bool(ok), detail=str(m["dims"])))
            p = os.path.join(td, "p.em")
            emfile.write(p, zyx, overwrite=True)
            m = parse_em(p)
            ok = m["dims"] == [5, 3, 2] and m["dtype"] == dt and m["data"] == _bits(zyx.reshape(-1)) and m["size_ok"]
            out.append(dict(name=f"parse_em-agrees-with-emfile[{dt}]", ok=bool(ok), detail=str(m["dims"])))
            xyz = np.ascontiguousarray(zyx.transpose(2, 1, 0))
            p = os.path.join(td, "q.mrc")
            write_mrc_own(p, xyz)
            with mrcfile.open(p) as mf:
                ok = np.array_equal(mf.data, zyx)
            out.append(dict(name=f"own-mrc-writer-read-by-mrcfile[{dt}]", ok=bool(ok), detail=""))
            p = os.path.join(td, "q.em")
            write_em_own(p, xyz)
            ok = np.array_equal(emfile.read(p)[1], zyx)
            out.append(dict(name=f"own-em-writer-read-by-emfile[{dt}]", ok=bool(ok), detail=""))
    except Exception as e:
        out.append(dict(name="library-probes", ok=False, detail=f"{type(e).__name__}: {e}"))
    finally:
        shutil.rmtree(td, ignore_errors=True)
    return out


LEVEL_TEXT = ("Lean 4 theorems about an executable model of cryomap.write/read/em2mrc/mrc2em for every 3-D shape (no cube assumption, no size bound): "
              "x-fastest offset is a bijection of the box (offset_lt/injective/surjective), write_spec (header nx,ny,nz = shape, voxel (i,j,k) at "
              "i+nx*(j+ny*k), dtype rule, format by extension), read_write / read_write_untransposed / read_untransposed_of_write (round trip for any "
              "shape and data_type), convert_spec / em2mrc_spec / mrc2em_spec (voxels kept or negated, default names, refusal when the output exists "
              "and overwrite=False), invert_invert, sound (and complete) verified checkers run on the real files; tied to the source by regenerated "
              "anchors (transpose tuples and guards, step order, float64->float32 narrowing, extension tables, reader pattern, converter suffixes / "
              "slices / factor / call shapes) and by a bit-exact differential run of the real functions against the model, the bytes being parsed by "
              "the harness's own MRC/EM parsers")
LEVEL_NOTE = ("trusted: Lean kernel; translator anchors; harness MRC/EM parsers and writers (cross-checked against mrcfile/emfile by probes on every run); "
              "mrcfile/emfile store the array they are given (checked byte-wise); numpy float32 cast = Float.toFloat32 (bit-exact each run); the file "
              "system is modelled as a name->content map, byte-level preservation on refusal is validated by hash, not proved")
TECHNIQUE = "Lean 4 proof (index arithmetic over Nat, Array extensionality) + regenerated anchors + verified checkers + bit-exact differential correspondence"
DESIGN_REF = "DESIGN.md section 4, C11"
