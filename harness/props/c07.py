"""C07 — score-ranked distance suppression keeps a separated, dominating set (DESIGN.md section 4, C07).

Two entry points of cryoCAT are checked against one Lean model of the greedy rule:
  * Motl.clean_by_distance            (cryocat/cryomotl.py, geom.point_pairwise_dist)
  * tmana.scores_extract_particles    (cryocat/tmana.py, ioutils.rot_angles_load)
All numbers travel as integers: every value lies on a dyadic grid and is sent multiplied by the grid's power of two
(positions, radius, scores and group values by 2**10; map scores / angles by the scale stored in the case), so the
numpy float computation is exact and equals the model's integer computation.

Kinds of findings: `spec` only when a clause of the statement fails on the REAL output as decided by a Lean verified checker
(checkCleanCore / checkCleanCoreLe / checkPeaks) or by a direct evaluation that uses neither the implementation's own sub-results nor
the model (returned row is not an input row, None although voxels exceed the threshold, exception raised inside cryocat on an input of
the quantifier).  What the statement is silent about is `corr`: caller-owned input modified, a numeric field returned as text, a
narrower returned dtype, survivors out of row order.  Every comparison with the model is `corr`.
"""
import os, io, ast, copy, math, hashlib, tempfile, contextlib, traceback
import numpy as np
import core

PROP = "C07"
COUNT = {"quick": 240, "thorough": 4400, "search": 1500}
PARALLEL = True
S = 1024  # grid 2**-10 for particle lists
COLS = ["score", "geom1", "geom2", "subtomo_id", "tomo_id", "object_id", "subtomo_mean", "x", "y", "z",
        "shift_x", "shift_y", "shift_z", "geom3", "geom4", "geom5", "phi", "psi", "theta", "class"]
CI = {c: i for i, c in enumerate(COLS)}
FEATURES = ["tomo_id", "object_id", "class", "subtomo_mean", "geom1", "geom2", "geom3", "geom4", "geom5"]
RULE = ("85% particle lists: 1..400 particles (quick mostly <= 80) on the 2^-10 grid laid out as clusters / chains with spacing just "
        "above and below d / uniform boxes / exact duplicates / copies of one arrangement in several groups, positions split at random "
        "into x + shift_x, 1..4 groups under one of 9 grouping fields (other id fields filled with unrelated values); group values small "
        "(0, -1, 1.5, 1..100), LARGE AND ADJACENT (base 1e5..1e9 + 0,1,2,3: 25%) or adjacent grid values 2^-10 apart (8%); DataFrame index "
        "default / duplicate labels (concat of two lists) / permuted / sparse / all equal; scores distinct, tied (15%) or correlated with "
        "position, either score direction, d in (0.25, 24]; exact distance ties inside a group are excluded (d is nudged) except in a 3% "
        "stream that plants a pair at distance exactly d (outside the quantifier: reported only when BOTH readings `<` and `<=` reject). "
        "10% of the lists lie on the FINE grid 2^-30 (2..40 particles, neighbours at d +- 1..16 grid units and d +- 2^-23, 2^-20, 2^-10, scores that "
        "differ in their low bits only: positions and scores need up to 50 mantissa bits, so a float32 anywhere on the path changes the result; "
        "pairs closer to a tie than 2^-40 relative in dist^2 are excluded, see ASSUMPTIONS); 8% hold INTEGER values only and are handed in as an "
        "int64 DataFrame (all columns, or coordinates + ids), with integer and half-integer radii. "
        "30% of the calls omit every keyword whose value is the documented default (keep_greater=True, metric_id='score', "
        "angles_order='zxz', angles_numbering=0). 15% of the cases make 1-2 further calls in the same process on the SAME caller-owned "
        "DataFrame / ndarrays / CSV path (columns overwritten in place, file rewritten between the calls); every call is judged alike and "
        "the caller-owned inputs are compared before/after each call. "
        "15% score maps: boxes up to 16^3 quick / 40^3 thorough incl. flat and non-cubic ones, plus DENSE large maps (35..40 per side, 85-98% "
        "of the voxels above the threshold, i.e. > 2^15 candidates, diameter 1.5..3: 2 per quick run, ~0.5% thorough), plateau-free scores "
        "(blob field * N + permutation), threshold between two scores or exactly equal to a voxel's score or above the maximum, "
        "diameter 0.5..6.5 in quarter steps (integer diameters give exact distance ties, which the closed ball decides), angle list "
        "1..40 rows as ndarray or CSV file, numbering 0/1, order zxz/zzx, 3% angle-map entries beyond the END of the list (entries BELOW "
        "the numbering point to no list row and are outside the quantifier: never generated; the model rejects them). "
        "Of the non-dense maps 40% carry scores in [0, 1/4) that need all 52 mantissa bits (neighbouring scores and the threshold differ by one "
        "unit in the last place; sent as integers * 2^-52), 50% carry DECIMAL angles with 0..3 decimals (sent as IEEE bit patterns: the model only "
        "copies and compares them), the maps are float64 / float32 / int16 / int32 / int64 arrays, the list float64 / float32 / int64, and 30% of "
        "the boxes with three different side lengths are handed in as MRC or EM file PATHS written without cryocat (file axes section, row, column). "
        "float32 maps (arrays, MRC and EM files) keep float32 SCORES but in 75% of them the THRESHOLD is a python float off the float32 grid: one or a "
        "few float64 steps below / above a voxel's score (what float(np.nextafter(s, -+inf)) and s -+ tiny give); 15% of the maps with <= 5000 voxels "
        "carry DECIMAL scores np.float32(k/10000) with a decimal threshold k_j/10000 or a 5-decimal value between two scores (sent as integers * 2^-64): "
        "whether the voxel under the threshold counts is decided by the real numbers (audit 3: numpy >= 2 compared in float32; repaired by C07-fix-1). "
        "OUTSIDE the quantifier, never generated: NaN scores and NaN group ids (the statement speaks of an 'equal or better score' and of 'groups': "
        "NaN is neither ordered nor equal to itself; today a NaN id makes the particle vanish and a NaN score ranks first under keep_greater - "
        "recorded for C08's K-class, not a finding of C07); maps / lists given as python lists or tuples (cryomap.read and rot_angles_load refuse "
        "them with ValueError: a documented type refusal, no clause of C07). "
        "non-trivial: list with >= 3 particles of which >= 1 is removed and >= 1 kept / map with >= 2 voxels above threshold of which "
        ">= 1 is suppressed; distinct = distinct case content")
ASSUMPTIONS = [
    "numpy float64 arithmetic on the dyadic grid 2^-10 is exact, so `norm(diff) < d` decides like `dist^2 < d^2` for d > 0 (sqrt is correctly rounded and monotone; squares differ by >= 2^-20)",
    "on the fine grid 2^-30 coordinates (< 2^39 units) and their sums / differences are exact in float64; the three squares, two additions and the square root of np.linalg.norm "
    "each round with relative error <= 2^-53, so the computed distance is within 2^-51 relative of the true one; generated lists keep |dist^2 - d^2| >= 2^-40 * d^2 for every pair "
    "of a group (i.e. |dist - d| / d >= 2^-41, a factor 2^10 above the error), hence `norm(diff) < d` decides like the exact integer comparison of the model",
    "the threshold reaches the comparison as np.float64 (anchor threshold-compared-as-float64, theorem peak_threshold_double_documented): numpy compares a float32 or float64 "
    "map with a float64 scalar in double precision, which is exact for both, so `scores_map > threshold` decides like the model's comparison of the real numbers",
    "scipy.spatial.KDTree.query_ball_point(c, r) = brute-force closed ball dist <= r on integer coordinates (probed each run)",
    "np.argsort / sorted order candidates by score; how equal scores are ordered is irrelevant to the theorems (any non-increasing order) and cases with tied scores are judged by the verified checker only",
    "pandas: boolean-mask selection keeps row order, concat keeps order, read_csv(header=None) parses repr(float) exactly",
    "mrcfile / emfile store an array given as [section, row, column] = [z, y, x] unchanged (the harness writes map files with them, never with cryocat)",
    "sklearn DBSCAN(min_samples=1) labels every point (no peak is dropped when cluster_size is None)",
    "angle-map entries below `angles_numbering` (e.g. 0 with numbering 1) point to no row of the angle list and are OUTSIDE the quantifier (decision of the integrator, audit C07-1): numpy wraps such an index to the end of the list, the model answers badAngle (theorem peakOf_below_numbering); such maps are never generated and no finding is raised for them",
    "NaN scores and NaN group ids are OUTSIDE the quantifier (audit 2, item 6): 'equal or better score' presupposes ordered scores and 'group' presupposes ids equal to themselves; never generated, no finding raised",
    "a list holding two particles of one group at distance exactly d is outside the quantifier: it is reported only when the verified checker rejects the result under both readings (`dist < d` and `dist <= d` count as close)",
    "group independence is judged by the verified checker applied to each group's sub-list (theorem spec_iff_groups: the clauses decompose over the groups), not by re-running the implementation per group",
    "the ORDER of the survivors is not a clause of the statement: the spec verdict is the order-free checker (checkCleanCore_iff); survivors out of row order are a corr finding (groupsInOrder_iff)",
    "whole-body digests: two consecutive assignments to different fresh locals, neither reading the other's target, are taken to be order-independent (a call used for its value "
    "is a query unless its name is a known mutator: pop, append, sort, random draws, `inplace=`, ..); type annotations, docstrings and the text of exception / log messages are not part of a body",
]
TRUSTED = ["harness scaling of dyadic values to integers (props/c07.py), comparison of squared distances instead of distances (d > 0)",
           "the direct evaluations of props/c07.py judge(): row identity by subtomo_id + bit comparison, dtype kinds, before/after comparison of caller-owned inputs"]

# ------------------------------------------------------------------ translator
CMP = {"Lt": "lt", "LtE": "le", "Gt": "gt", "GtE": "ge"}


def _cmp(node):
    return CMP.get(type(node.ops[0]).__name__, "other")


NEG = {"lt": "ge", "ge": "lt", "le": "gt", "gt": "le"}


def _cmp_in_context(fn, node, what, where_ok=()):
    """the operator a comparison DECIDES with, read together with what encloses it (audit 3, item 2): the Compare must be the whole
    right-hand side of an assignment, a conjunct of an `if` test, or the first argument of one of the calls named in `where_ok`;
    a directly enclosing `~` / `not` / np.logical_not is folded into the operator (not (a >= b) is a < b).  Anything else between
    the comparison and its statement (another call, a subscript, arithmetic, a negation above an `and`) fails the anchor, so the
    model keeps the DOCUMENTED operator instead of silently following a node that no longer decides alone."""
    parent = {}
    for p_ in ast.walk(fn):
        for ch in ast.iter_child_nodes(p_):
            parent[id(ch)] = p_
    op = _cmp(node)
    cur, neg, conj = node, False, False
    while True:
        par = parent.get(id(cur))
        if par is None:
            raise core.AnchorMissing(f"{what}: the comparison is not part of a statement")
        if isinstance(par, ast.UnaryOp) and isinstance(par.op, (ast.Invert, ast.Not)):
            if conj:
                raise core.AnchorMissing(f"{what}: the comparison sits under a negated `and`: `{ast.unparse(par)[:120]}`")
            neg = not neg
        elif isinstance(par, ast.Call) and ast.unparse(par.func).replace(" ", "") in ("np.logical_not", "numpy.logical_not") and par.args[:1] == [cur] and len(par.args) == 1 and not par.keywords:
            if conj:
                raise core.AnchorMissing(f"{what}: the comparison sits under a negated `and`: `{ast.unparse(par)[:120]}`")
            neg = not neg
        elif isinstance(par, ast.BoolOp) and isinstance(par.op, ast.And):
            conj = True  # a conjunct (also a negated one: `x and not (a > b)` decides with a <= b); a negation ABOVE the `and` fails
        elif isinstance(par, ast.Assign) and par.value is cur:
            break
        elif isinstance(par, (ast.If, ast.While)) and par.test is cur:
            break
        elif isinstance(par, ast.Call) and ast.unparse(par.func).replace(" ", "") in where_ok and par.args[:1] == [cur]:
            break
        else:
            raise core.AnchorMissing(f"{what}: the comparison no longer decides alone, it is enclosed by `{ast.unparse(par)[:140]}`")
        cur = par
    if neg:
        if op not in NEG:
            raise core.AnchorMissing(f"{what}: negated comparison with operator {op}")
        op = NEG[op]
    return op


_LOGGERS = ("print", "warnings.warn", "warn", "logging.debug", "logging.info", "logging.warning", "logging.error", "logger.debug",
            "logger.info", "logger.warning", "logger.error")
# value-returning calls that change the object they are called on: an assignment holding one is never moved
_MUTATORS = {"pop", "popitem", "setdefault", "next", "send", "read", "readline", "readlines", "write", "seek", "remove", "append", "extend",
             "insert", "sort", "reverse", "clear", "update", "add", "discard", "shuffle", "seed", "choice", "rand", "randn", "random", "randint",
             "permutation", "fit_predict", "fit", "drop_duplicates", "reset_index", "fillna", "drop", "rename", "set_index", "sort_values"}


def _strip(fn):
    """copy of a function without what a harmless edit may change: type annotations (`x: T = v` becomes `x = v`), docstrings and
    the TEXT of exception / log messages (the exception type and the non-string arguments stay)"""
    fn = copy.deepcopy(fn)

    def msg(call):
        if isinstance(call, ast.Call):
            call.args = [ast.Constant(value="MSG") if isinstance(a, ast.JoinedStr) or (isinstance(a, ast.Constant) and isinstance(a.value, str))
                         or (isinstance(a, ast.BinOp) and isinstance(a.op, (ast.Add, ast.Mod)) and any(isinstance(x, (ast.JoinedStr,)) or (isinstance(x, ast.Constant) and isinstance(x.value, str)) for x in ast.walk(a)))
                         else a for a in call.args]

    class T(ast.NodeTransformer):
        def visit_FunctionDef(self, n):
            self.generic_visit(n)
            n.returns = None
            a = n.args
            for x in a.posonlyargs + a.args + a.kwonlyargs + ([a.vararg] if a.vararg else []) + ([a.kwarg] if a.kwarg else []):
                x.annotation = None
            return n

        def visit_AnnAssign(self, n):
            self.generic_visit(n)
            if n.value is None:
                return None
            return ast.copy_location(ast.Assign(targets=[n.target], value=n.value), n)

        def visit_Raise(self, n):
            self.generic_visit(n)
            msg(n.exc)
            return n

        def visit_Expr(self, n):
            self.generic_visit(n)
            if isinstance(n.value, ast.Call) and ast.unparse(n.value.func).replace(" ", "") in _LOGGERS:
                msg(n.value)
            return n
    fn = T().visit(fn)
    ast.fix_missing_locations(fn)
    return fn


def _loads(node):
    return {x.id for x in ast.walk(node) if isinstance(x, ast.Name) and isinstance(x.ctx, (ast.Load, ast.Del))}


def _movable(st, params):
    """an assignment of a value to ONE fresh local name whose right-hand side is a query (no known mutator call, no walrus, no yield)"""
    if not (isinstance(st, ast.Assign) and len(st.targets) == 1 and isinstance(st.targets[0], ast.Name) and st.targets[0].id not in params):
        return False
    for x in ast.walk(st.value):
        if isinstance(x, (ast.NamedExpr, ast.Yield, ast.YieldFrom, ast.Await)):
            return False
        if isinstance(x, ast.Call):
            f = x.func
            nm = f.attr if isinstance(f, ast.Attribute) else (f.id if isinstance(f, ast.Name) else "")
            if nm in _MUTATORS or any(k.arg == "inplace" for k in x.keywords):
                return False
            if isinstance(f, ast.Attribute) and "random" in ast.unparse(f):
                return False
    return True


def _canonical_order(fn):
    """statement order up to swaps of INDEPENDENT consecutive assignments: inside every run of consecutive movable assignments
    (see `_movable`) two statements commute when neither reads or binds the other's target; the run is emitted in the unique
    dependency-respecting order that is smallest by the rename-insensitive text of the right-hand sides.  Anything else
    (calls for effect, stores into attributes / subscripts, augmented assignments, control flow) keeps its place."""
    V0 = _View(fn, canonical=False)
    params = set(V0.params)

    def commute(a, b):
        ta, tb = a.targets[0].id, b.targets[0].id
        return ta != tb and ta not in _loads(b.value) and tb not in _loads(a.value)

    def order_run(run):
        if len(run) < 2:
            return run
        keys = [V0.text(st.value) for st in run]
        n = len(run)
        preds = [{i for i in range(j) if not commute(run[i], run[j])} for j in range(n)]
        done, out = set(), []
        while len(out) < n:
            ready = [j for j in range(n) if j not in done and preds[j] <= done]
            j = min(ready, key=lambda k: (keys[k], k))
            done.add(j)
            out.append(run[j])
        return out

    def block(stmts):
        out, run = [], []
        for st in stmts:
            if _movable(st, params):
                run.append(st)
                continue
            out += order_run(run)
            run = []
            for fld in ("body", "orelse", "finalbody"):
                sub = getattr(st, fld, None)
                if isinstance(sub, list) and sub and isinstance(sub[0], ast.stmt):
                    setattr(st, fld, block(sub))
            for h in getattr(st, "handlers", []) or []:
                h.body = block(h.body)
            out.append(st)
        return out + order_run(run)
    fn.body = block(fn.body)
    return fn


class _View:
    """Rename-insensitive view of one function.  `text(node)` is the source text of an expression in which every
    local name is replaced by what it is bound to (single binding: its defining expression; several bindings:
    ALT(def1, def2, ..) in source order; loop variable: EACH(iterable); tuple target k: value[k]; a name met while it is
    being expanded: REC, or the bare parameter when it is a parameter that is re-assigned).  Parameters, attributes,
    globals and keyword names stay as they are (they are the function's interface).  Two functions that differ only in the
    names of local variables give the same texts; a changed operator, constant, column, keyword or order of operations
    gives a different one.  `dump()` is the whole body, statement kinds + expressions, with locals numbered in order of
    first binding (v0, v1, ..) - any added, removed or altered statement changes it."""

    def __init__(self, fn, canonical=True):
        if canonical:  # annotations / message texts / docstrings dropped, independent assignments in canonical order
            fn = _canonical_order(_strip(fn))
        self.fn = fn
        a = fn.args
        self.params = [x.arg for x in a.posonlyargs + a.args + a.kwonlyargs] + ([a.vararg.arg] if a.vararg else []) + ([a.kwarg.arg] if a.kwarg else [])
        self.binds = {}
        self.order = []
        for node in self._walk_in_order(fn):
            if isinstance(node, ast.Assign):
                for t in node.targets:
                    self._bind(t, node.value)
            elif isinstance(node, ast.AnnAssign) and node.value is not None:
                self._bind(node.target, node.value)
            elif isinstance(node, ast.AugAssign):
                self._bind(node.target, ast.BinOp(left=ast.Name(id="REC", ctx=ast.Load()), op=node.op, right=node.value))
            elif isinstance(node, (ast.For, ast.comprehension)):
                self._bind(node.target, ast.Call(func=ast.Name(id="EACH", ctx=ast.Load()), args=[node.iter], keywords=[]))
            elif isinstance(node, ast.With):
                for it in node.items:
                    if it.optional_vars is not None:
                        self._bind(it.optional_vars, it.context_expr)
            elif isinstance(node, ast.NamedExpr):
                self._bind(node.target, node.value)
        self._memo = {}
        self._texts = {}

    @staticmethod
    def _walk_in_order(fn):
        out = []

        def rec(n):
            out.append(n)
            for c in ast.iter_child_nodes(n):
                rec(c)
        for st in fn.body:
            rec(st)
        return out

    def _bind(self, target, value):
        if isinstance(target, ast.Name):
            if target.id not in self.binds:
                self.binds[target.id] = []
                self.order.append(target.id)
            self.binds[target.id].append(value)
        elif isinstance(target, (ast.Tuple, ast.List)):
            for i, el in enumerate(target.elts):
                self._bind(el, ast.Subscript(value=value, slice=ast.Constant(value=i), ctx=ast.Load()))
        elif isinstance(target, ast.Starred):
            self._bind(target.value, value)

    # ---- expansion (expanded sub-trees are shared, never mutated; memo per (name, names being expanded))
    def _expand_name(self, name, busy):
        if name not in self.binds:
            return ast.Name(id=name, ctx=ast.Load())
        if name in busy:
            return ast.Name(id=name if name in self.params else "REC", ctx=ast.Load())
        key = (name, busy)
        if key in self._memo:
            return self._memo[key]
        busy2 = busy | {name}
        uniq, seen = [], set()
        for v in self.binds[name]:
            d = self._expand(v, busy2)
            t = ast.unparse(d)
            if t not in seen:
                seen.add(t)
                uniq.append(d)
        res = uniq[0] if len(uniq) == 1 else ast.Call(func=ast.Name(id="ALT", ctx=ast.Load()), args=uniq, keywords=[])
        self._memo[key] = res
        return res

    def _expand(self, node, busy=frozenset()):
        view = self

        class T(ast.NodeTransformer):
            def __init__(self):
                self.lam = {}

            def visit_Lambda(self, n):
                names = [x.arg for x in n.args.args]
                old = dict(self.lam)
                for i, nm in enumerate(names):
                    self.lam[nm] = f"_a{i}"
                body = self.visit(n.body)
                self.lam = old
                return ast.Call(func=ast.Name(id="LAMBDA", ctx=ast.Load()), args=[ast.Constant(value=len(names)), body], keywords=[])

            def visit_Name(self, n):
                if n.id in self.lam:
                    return ast.Name(id=self.lam[n.id], ctx=ast.Load())
                if isinstance(n.ctx, ast.Load):
                    return view._expand_name(n.id, busy)
                return n
        return T().visit(copy.deepcopy(node))

    def text(self, node):
        k = id(node)
        if k not in self._texts:
            self._texts[k] = (node, ast.unparse(self._expand(node)).replace(" ", "").replace("\n", ""))
        return self._texts[k][1]

    def name_text(self, name):
        return ast.unparse(self._expand_name(name, frozenset())).replace(" ", "").replace("\n", "")

    # ---- whole-body dump
    def dump(self):
        """locals are numbered v0, v1, .. in order of their first BINDING occurrence; a name that is bound but never read is a
        discard and is written `_` (each `_` of the source is one: renaming a discard, or giving two discards different names,
        changes nothing); variables of a comprehension / lambda are scoped to it (`_c<k>` / `_a<k>`) and never share a number
        with a function-level name that happens to be spelt alike"""
        params = set(self.params)
        COMP = (ast.ListComp, ast.SetComp, ast.GeneratorExp, ast.DictComp)

        def names_of(t):
            if isinstance(t, ast.Name):
                return [t.id]
            if isinstance(t, (ast.Tuple, ast.List)):
                return [x for e in t.elts for x in names_of(e)]
            if isinstance(t, ast.Starred):
                return names_of(t.value)
            return []

        order, loaded = [], set()

        class P1(ast.NodeVisitor):  # function-level bindings in order, function-level loads
            def __init__(self):
                self.scopes = []

            def local(self, nm):
                return any(nm in sc for sc in self.scopes)

            def visit_Name(self, n):
                if self.local(n.id):
                    return
                if isinstance(n.ctx, ast.Store):
                    if n.id not in order:
                        order.append(n.id)
                else:
                    loaded.add(n.id)

            def visit_AugAssign(self, n):
                if isinstance(n.target, ast.Name) and not self.local(n.target.id):
                    loaded.add(n.target.id)
                self.generic_visit(n)

            def visit_ExceptHandler(self, n):
                if n.name and n.name not in order:
                    order.append(n.name)
                self.generic_visit(n)

            def comp(self, n):
                sc = set()
                self.scopes.append(sc)
                for g in n.generators:
                    self.visit(g.iter)
                    sc.update(names_of(g.target))
                    for c in g.ifs:
                        self.visit(c)
                for e in ([n.key, n.value] if isinstance(n, ast.DictComp) else [n.elt]):
                    self.visit(e)
                self.scopes.pop()
            visit_ListComp = visit_SetComp = visit_GeneratorExp = visit_DictComp = comp

            def visit_Lambda(self, n):
                self.scopes.append({x.arg for x in n.args.args + n.args.kwonlyargs + n.args.posonlyargs})
                self.visit(n.body)
                self.scopes.pop()

            def visit_FunctionDef(self, n):  # a nested def: its name is a function-level binding, its body a scope of its own
                if n.name not in order:
                    order.append(n.name)
                sc = {x.arg for x in n.args.args + n.args.kwonlyargs + n.args.posonlyargs}
                sc |= {x.id for x in ast.walk(n) if isinstance(x, ast.Name) and isinstance(x.ctx, ast.Store)}
                self.scopes.append(sc)
                for st in n.body:
                    self.visit(st)
                self.scopes.pop()
        p1 = P1()
        for st in self.fn.body:
            p1.visit(st)
        ren, k = {}, 0
        for nm in order:
            if nm in params:
                continue
            if nm not in loaded:
                ren[nm] = "_"
            else:
                ren[nm] = f"v{k}"
                k += 1

        class R(ast.NodeTransformer):
            def __init__(self):
                self.scopes = []
                self.depth = 0

            def lookup(self, nm):
                for sc in reversed(self.scopes):
                    if nm in sc:
                        return sc[nm]
                return ren.get(nm, nm)

            def visit_Name(self, n):
                n.id = self.lookup(n.id)
                return n

            def visit_ExceptHandler(self, n):
                if n.name:
                    n.name = ren.get(n.name, n.name)
                self.generic_visit(n)
                return n

            def comp(self, n):
                used = set()
                for g in n.generators[1:]:
                    used |= _loads(g.iter)
                for g in n.generators:
                    for c in g.ifs:
                        used |= _loads(c)
                for e in ([n.key, n.value] if isinstance(n, ast.DictComp) else [n.elt]):
                    used |= _loads(e)
                sc = {}
                self.scopes.append(sc)
                self.depth += 1
                cnt = 0
                for g in n.generators:
                    g.iter = self.visit(g.iter)
                    for nm in names_of(g.target):
                        if nm not in sc:
                            sc[nm] = f"_c{self.depth}_{cnt}" if nm in used else "_"
                            cnt += 1
                    g.target = self.visit(g.target)
                    g.ifs = [self.visit(c) for c in g.ifs]
                if isinstance(n, ast.DictComp):
                    n.key, n.value = self.visit(n.key), self.visit(n.value)
                else:
                    n.elt = self.visit(n.elt)
                self.depth -= 1
                self.scopes.pop()
                return n
            visit_ListComp = visit_SetComp = visit_GeneratorExp = visit_DictComp = comp

            def visit_Lambda(self, n):
                sc = {}
                for i, x in enumerate(n.args.posonlyargs + n.args.args + n.args.kwonlyargs):
                    sc[x.arg] = f"_a{i}"
                    x.arg = f"_a{i}"
                self.scopes.append(sc)
                n.body = self.visit(n.body)
                self.scopes.pop()
                return n

            def visit_FunctionDef(self, n):
                n.name = ren.get(n.name, n.name)
                inner = [x.arg for x in n.args.posonlyargs + n.args.args + n.args.kwonlyargs]
                for x in ast.walk(n):
                    if isinstance(x, ast.Name) and isinstance(x.ctx, ast.Store) and x.id not in inner:
                        inner.append(x.id)
                sc = {nm: f"_f{i}" for i, nm in enumerate(inner)}
                for x in n.args.posonlyargs + n.args.args + n.args.kwonlyargs:
                    x.arg = sc[x.arg]
                self.scopes.append(sc)
                n.body = [self.visit(st) for st in n.body]
                self.scopes.pop()
                return n
        lines = []

        def expr(e):
            return ast.unparse(e).replace(" ", "").replace("\n", "")

        def rec(stmts, depth):
            for st in stmts:
                if isinstance(st, ast.Expr) and isinstance(st.value, ast.Constant) and isinstance(st.value.value, str):
                    continue  # docstring / string statement
                head = type(st).__name__
                pad = "." * depth
                if isinstance(st, (ast.If, ast.While)):
                    lines.append(f"{pad}{head} {expr(st.test)}")
                    rec(st.body, depth + 1)
                    if st.orelse:
                        lines.append(f"{pad}Else")
                        rec(st.orelse, depth + 1)
                elif isinstance(st, ast.For):
                    lines.append(f"{pad}For {expr(st.target)} in {expr(st.iter)}")
                    rec(st.body, depth + 1)
                    if st.orelse:
                        lines.append(f"{pad}Else")
                        rec(st.orelse, depth + 1)
                elif isinstance(st, ast.With):
                    lines.append(f"{pad}With " + ",".join(expr(i.context_expr) + ("as" + expr(i.optional_vars) if i.optional_vars is not None else "") for i in st.items))
                    rec(st.body, depth + 1)
                elif isinstance(st, ast.Try):
                    lines.append(f"{pad}Try")
                    rec(st.body, depth + 1)
                    for h in st.handlers:
                        lines.append(f"{pad}Except {expr(h.type) if h.type is not None else ''}")
                        rec(h.body, depth + 1)
                    if st.orelse:
                        lines.append(f"{pad}Else")
                        rec(st.orelse, depth + 1)
                    if st.finalbody:
                        lines.append(f"{pad}Finally")
                        rec(st.finalbody, depth + 1)
                elif isinstance(st, (ast.FunctionDef, ast.ClassDef)):
                    lines.append(f"{pad}{head} {st.name}" + (f"({ast.unparse(st.args).replace(' ', '')})" if isinstance(st, ast.FunctionDef) else ""))
                    rec(st.body, depth + 1)
                else:
                    lines.append(f"{pad}{head} {expr(st)}")
        body = [R().visit(copy.deepcopy(st)) for st in self.fn.body]
        sig = ast.unparse(self.fn.args).replace(" ", "")
        lines.append(f"Def ({sig})")
        rec(body, 1)
        return lines


def _digest(lines):
    return hashlib.sha256("\n".join(lines).encode()).hexdigest()[:16]


def _defaults(fn):
    """documented signature: list of (parameter, default literal as source text) for parameters that have a default"""
    a = fn.args
    pos = a.posonlyargs + a.args
    out = []
    for p, dflt in zip(pos[len(pos) - len(a.defaults):], a.defaults):
        out.append((p.arg, ast.unparse(dflt).replace('"', "'")))
    for p, dflt in zip(a.kwonlyargs, a.kw_defaults):
        if dflt is not None:
            out.append((p.arg, ast.unparse(dflt).replace('"', "'")))
    return out


# documented values (what the statement and the docstrings say); used as fall-back when an anchor is missing so that a missing
# anchor never changes the behaviour of the model silently (the obligation `anchors_ok` is broken in that case anyway)
DOC = dict(dist_cmp="lt", thr="gt", scmp="le", sort=[True, False], srt=True, coords=[["x", "y", "z"], ["shift_x", "shift_y", "shift_z"]],
           ppos=[("x", 0, 1), ("y", 1, 1), ("z", 2, 1)], aidx=[[0, 1, 2], True], acols=[("phi", 0), ("theta", 1), ("psi", 2)],
           perm=[0, 2, 1], filen=[["phi", "psi", "theta"], ["phi", "theta", "psi"], ["phi", "theta", "psi"]], ball="particle_diameter",
           clean_defaults=[("metric_id", "'score'"), ("keep_greater", "True"), ("dist_mask", "None")],
           subset_defaults=[("feature_id", "'tomo_id'"), ("return_df", "False"), ("reset_index", "True")],
           peak_defaults=[("object_id", "None"), ("scores_threshold", "None"), ("sigma_threshold", "None"), ("cluster_size", "None"),
                          ("n_particles", "None"), ("output_path", "None"), ("output_type", "'emmotl'"), ("angles_order", "'zxz'"),
                          ("symmetry", "'c1'"), ("angles_numbering", "0"), ("tomo_mask", "None")],
           load_defaults=[("angles_order", "'zxz'")], read_defaults=[("transpose", "True"), ("data_type", "None")], read_transpose=[2, 1, 0])


_M, _G, _T, _I, _C = "cryocat/cryomotl.py", "cryocat/geom.py", "cryocat/tmana.py", "cryocat/ioutils.py", "cryocat/cryomap.py"
# (name of the Lean constant, file, qualified name) of every function whose whole body is anchored; the last six are the helpers
# every call runs through (audit 2, item 1): a narrowing / reordering there changes scores and positions unseen by the first six
_BODIES = [("cleanByDistance", _M, "Motl.clean_by_distance"), ("getMotlSubset", _M, "Motl.get_motl_subset"), ("getCoordinates", _M, "Motl.get_coordinates"),
           ("pointPairwiseDist", _G, "point_pairwise_dist"), ("scoresExtractParticles", _T, "scores_extract_particles"), ("rotAnglesLoad", _I, "rot_angles_load"),
           ("cryomapRead", _C, "read"), ("motlInit", _M, "Motl.__init__"), ("checkDfCorrectFormat", _M, "Motl.check_df_correct_format"),
           ("motlFill", _M, "Motl.fill"), ("getFeature", _M, "Motl.get_feature"), ("createEmptyMotlDf", _M, "Motl.create_empty_motl_df")]
_BODY_KEYS = [(rel, qual) for _, rel, qual in _BODIES]


def translate(src):
    M, G, T, I, C = "cryocat/cryomotl.py", "cryocat/geom.py", "cryocat/tmana.py", "cryocat/ioutils.py", "cryocat/cryomap.py"
    n = core.norm_expr
    Missing = core.AnchorMissing
    views = {}

    def view(rel, qual):
        if (rel, qual) not in views:
            views[(rel, qual)] = _View(src.find(rel, qual))
        return views[(rel, qual)]

    def first(V, pred, what):
        for x in ast.walk(V.fn):
            if pred(x):
                return x
        raise Missing(what)

    def is_false(node):
        return isinstance(node, ast.Constant) and node.value is False

    # ---- Motl.clean_by_distance -------------------------------------------------------------------------------------
    SUB = "self.get_motl_subset(EACH(np.unique(self.get_feature(feature_id))),feature_id=feature_id,reset_index=True)"
    POS = SUB + ".get_coordinates()"
    SCORES = SUB + ".df[metric_id].values"
    ORDER = f"ALT(np.argsort({SCORES})[::-1],np.argsort({SCORES}))"
    J = f"EACH({ORDER})"
    DIST = f"geom.point_pairwise_dist({POS}[{J},:],{POS})"
    KEEP = f"np.ones(({SUB}.df.shape[0],),dtype=bool)"

    def CV():
        return view(M, "Motl.clean_by_distance")

    def dist_compare():
        V = CV()
        return first(V, lambda x: isinstance(x, ast.Compare) and len(x.ops) == 1 and V.text(x.comparators[0]) == "distance_in_voxels"
                     and V.text(x.left).startswith("geom.point_pairwise_dist("), "clean_by_distance: the comparison `d_cut_idx = dist < d_cut` (dist = geom.point_pairwise_dist(pos[j, :], pos), d_cut = distance_in_voxels) is not found in this form")

    def a_dist_cmp():
        return _cmp_in_context(CV().fn, dist_compare(), "clean_by_distance: `d_cut_idx = dist < d_cut`")

    def a_self():
        V = CV()
        c = V.text(dist_compare())
        for x in ast.walk(V.fn):
            if isinstance(x, ast.Assign) and len(x.targets) == 1 and isinstance(x.targets[0], ast.Subscript) and is_false(x.value):
                t = x.targets[0]
                if V.text(t.slice) == J and c in V.text(t.value):
                    return True
        return False

    def a_sort():
        V = CV()
        iff = first(V, lambda x: isinstance(x, ast.If) and V.text(x.test) == "keep_greater", "clean_by_distance: `if keep_greater: sort_idx = np.argsort(temp_scores)[::-1]` / `else: sort_idx = np.argsort(temp_scores)` is not found")

        def direction(body):
            for st in body:
                if isinstance(st, ast.Assign) and len(st.targets) == 1 and isinstance(st.targets[0], ast.Name) and V.name_text(st.targets[0].id) == ORDER:
                    v = V.text(st.value)
                    if v == f"np.argsort({SCORES})[::-1]":
                        return True
                    if v == f"np.argsort({SCORES})":
                        return False
                    raise Missing(f"clean_by_distance: processing order = {v[:120]}")
            raise Missing("clean_by_distance: `sort_idx = np.argsort(temp_scores)[::-1]` / `sort_idx = np.argsort(temp_scores)` no longer assigned inside `if keep_greater:` / `else:`")
        return [direction(iff.body), direction(iff.orelse)]

    def a_groups():
        V = CV()
        txt = V.text(dist_compare().left)
        loop = [x for x in ast.walk(V.fn) if isinstance(x, ast.For) and V.text(x.iter) == "np.unique(self.get_feature(feature_id))"]
        return bool(loop) and SUB in txt

    def a_pos():
        V = CV()
        return V.text(dist_compare().left) == DIST

    def a_keep():
        """the keep mask: starts all-True, `if keep[j]` guards the step, `keep[close] = False` removes, `iloc[keep]` selects, result stored"""
        V = CV()
        c = V.text(dist_compare())
        guard = any(isinstance(x, ast.If) and V.text(x.test) == f"{KEEP}[{J}]" for x in ast.walk(V.fn))
        removal = any(isinstance(x, ast.Assign) and len(x.targets) == 1 and isinstance(x.targets[0], ast.Subscript) and is_false(x.value)
                      and V.text(x.targets[0].value) == KEEP and c in V.text(x.targets[0].slice) for x in ast.walk(V.fn))
        sel = [x for x in ast.walk(V.fn) if isinstance(x, ast.Call) and n(x.func) == "pd.concat" and f"{SUB}.df.iloc[{KEEP},:]" in V.text(x)
               and {k.arg: n(k.value) for k in x.keywords}.get("ignore_index") == "True"]
        stored = [x for x in ast.walk(V.fn) if isinstance(x, ast.Assign) and n(x.targets[0]) == "self.df" and "pd.concat(" in V.text(x.value)]
        if not (guard and removal and sel and stored):
            raise Missing(f"clean_by_distance: keep mask (guard={guard}, removal={removal}, iloc-selection={bool(sel)}, self.df stored={bool(stored)})")
        return True

    def a_coords():
        V = view(M, "Motl.get_coordinates")
        iff = first(V, lambda x: isinstance(x, ast.If) and n(x.test) == "tomo_numberisNone", "get_coordinates: `if tomo_number is None: coord = self.df.loc[:, ['x','y','z']].values + self.df.loc[:, ['shift_x','shift_y','shift_z']].values` is not found")
        st = iff.body[0]
        if not (isinstance(st, ast.Assign) and isinstance(st.value, ast.BinOp) and isinstance(st.value.op, ast.Add)):
            raise Missing("get_coordinates: coord = a + b")
        ret = [x for x in ast.walk(V.fn) if isinstance(x, ast.Return)]
        if not ret or not isinstance(ret[-1].value, ast.Name) or ret[-1].value.id != n(st.targets[0]):
            raise Missing("get_coordinates: the sum is what is returned")
        lists = []
        for side in (st.value.left, st.value.right):
            lit = [x for x in ast.walk(side) if isinstance(x, ast.List)]
            if not lit or not n(side).startswith("self.df.loc[:,") or not n(side).endswith(".values"):
                raise Missing("get_coordinates: self.df.loc[:, [...]].values")
            lists.append(ast.literal_eval(lit[0]))
        return lists

    def a_norm():
        V = view(G, "point_pairwise_dist")
        p = V.params
        calls = [x for x in ast.walk(V.fn) if isinstance(x, ast.Call) and n(x.func) == "np.linalg.norm"]
        if len(calls) != 1 or len(p) != 2:
            raise Missing("point_pairwise_dist: `pairwise_dist = np.linalg.norm(coord_1 - coord_2, axis=1)` (one norm call over the two parameters) is not found")
        c = calls[0]
        kw = {k.arg: n(k.value) for k in c.keywords}
        ok = (len(c.args) == 1 and isinstance(c.args[0], ast.BinOp) and isinstance(c.args[0].op, ast.Sub) and n(c.args[0].left) == p[0]
              and n(c.args[0].right) == p[1] and kw == {"axis": "1"})
        return ok

    # ---- tmana.scores_extract_particles -----------------------------------------------------------------------------
    def EV():
        return view(T, "scores_extract_particles")

    def sorted_call():
        V = EV()
        return first(V, lambda x: isinstance(x, ast.Call) and n(x.func) == "sorted" and any(k.arg == "key" for k in x.keywords),
                     "scores_extract_particles: `scored_coords = sorted(zip(s_ind.T, scores_map[...]), key=lambda x: x[1], reverse=True)` is not found")

    def thr_call():
        V = EV()

        def thr_text(x):
            t = V.text(x.args[0].comparators[0])
            return t[len("np.float64("):-1] if t.startswith("np.float64(") and t.endswith(")") else t
        return first(V, lambda x: isinstance(x, ast.Call) and n(x.func) == "np.where" and x.args and isinstance(x.args[0], ast.Compare)
                     and len(x.args[0].ops) == 1 and "cryomap.read(scores_map)" in V.text(x.args[0].left)
                     and thr_text(x).startswith("ALT(scores_threshold,"),
                     "scores_extract_particles: `t_idx = np.where(scores_map > np.float64(threshold))` is not found in this form")

    def b_thr():
        c = thr_call()
        return _cmp_in_context(EV().fn, c.args[0], "scores_extract_particles: `np.where(scores_map > np.float64(threshold))`", where_ok=("np.where",))

    def b_thr_double():
        """the threshold is handed to the comparison as np.float64: a float32 map is then compared in double precision (numpy >= 2 would
        round a python-float threshold to float32 first and lose voxels just above it: defect found by audit 3, repaired by C07-fix-1)"""
        V = EV()
        cmpn = thr_call().args[0]
        t = cmpn.comparators[0]
        return isinstance(t, ast.Call) and n(t.func) == "np.float64" and len(t.args) == 1 and not t.keywords and V.text(t.args[0]).startswith("ALT(scores_threshold,")

    def b_ball():
        V = EV()
        c = first(V, lambda x: isinstance(x, ast.Call) and isinstance(x.func, ast.Attribute) and x.func.attr == "query_ball_point",
                  "scores_extract_particles: `nearby_coords = tree.query_ball_point(coord, particle_diameter)` is not found")
        S_ = V.text(sorted_call())
        if not V.text(c.func.value).startswith("KDTree([") or len(c.args) != 2 or c.keywords or V.text(c.args[0]) != f"EACH({S_})[0]":
            raise Missing("scores_extract_particles: KDTree([...]).query_ball_point(<candidate position>, r)")
        return V.text(c.args[1])

    def b_score_cmp():
        V = EV()
        S_ = V.text(sorted_call())
        c = first(V, lambda x: isinstance(x, ast.Compare) and len(x.ops) == 1 and V.text(x.comparators[0]) == f"EACH({S_})[1]"
                  and isinstance(x.left, ast.Subscript) and isinstance(x.ops[0], (ast.Lt, ast.LtE, ast.Gt, ast.GtE)),
                  "scores_extract_particles: `coord_to_score[nearby_coord_tuple] <= score` is not found in this form")
        return _cmp_in_context(V.fn, c, "scores_extract_particles: `coord_to_score[nearby_coord_tuple] <= score`")

    def b_sorted():
        V = EV()
        c = sorted_call()
        kw = {k.arg: V.text(k.value) for k in c.keywords}
        if kw.get("key") != "LAMBDA(1,_a0[1])":
            raise Missing("scores_extract_particles: sorted key is the score (second tuple member)")
        return kw.get("reverse", "False") == "True"

    def fill_dict():
        V = EV()
        c = first(V, lambda x: isinstance(x, ast.Call) and isinstance(x.func, ast.Attribute) and x.func.attr == "fill" and x.args
                  and isinstance(x.args[0], ast.Dict) and V.text(x.func.value) == "cryomotl.Motl()", "scores_extract_particles: `motl = cryomotl.Motl(); motl.fill({'x': rpos[:, 0] + 1, ...})` is not found")
        return {ast.literal_eval(k): v for k, v in zip(c.args[0].keys, c.args[0].values)}

    def col_of(node, what):
        """`R[:, k]` -> (name of R, k)"""
        if not (isinstance(node, ast.Subscript) and isinstance(node.value, ast.Name) and isinstance(node.slice, ast.Tuple) and len(node.slice.elts) == 2
                and n(node.slice.elts[0]) == ":" and isinstance(node.slice.elts[1], ast.Constant) and isinstance(node.slice.elts[1].value, int)):
            raise Missing(f"{what}: not of the form R[:, k]: {n(node)[:60]}")
        return node.value.id, node.slice.elts[1].value

    def b_pos():
        d = fill_dict()
        out, rv = [], set()
        for name in ("x", "y", "z"):
            v = d.get(name)
            if v is None:
                raise Missing(f"motl.fill: key {name}")
            off = 0
            if isinstance(v, ast.BinOp) and isinstance(v.op, (ast.Add, ast.Sub)) and isinstance(v.right, ast.Constant) and isinstance(v.right.value, int):
                off = v.right.value if isinstance(v.op, ast.Add) else -v.right.value
                v = v.left
            r, k = col_of(v, f"motl.fill: {name}")
            rv.add(r)
            if off < 0:
                raise Missing(f"motl.fill: {name} offset {off}")
            out.append((name, k, off))
        if len(rv) != 1:
            raise Missing("motl.fill: x, y, z come from different arrays")
        return out

    def angidx_node():
        V = EV()
        return first(V, lambda x: isinstance(x, ast.BinOp) and V.text(x.right) == "angles_numbering" and isinstance(x.left, ast.Call)
                     and isinstance(x.left.func, ast.Attribute) and x.left.func.attr == "astype", "scores_extract_particles: `ang_idx = angles_map[rpos[:, 0], rpos[:, 1], rpos[:, 2]].astype(int) - angles_numbering` is not found in this form")

    def b_angidx():
        V = EV()
        v = angidx_node()
        call = v.left
        if n(call.args[0] if call.args else ast.Constant(value=None)) != "int" or not isinstance(call.func.value, ast.Subscript):
            raise Missing("scores_extract_particles: astype(int)")
        sub = call.func.value
        if V.text(sub.value) != "cryomap.read(angles_map)" or not isinstance(sub.slice, ast.Tuple):
            raise Missing("scores_extract_particles: angles_map[R[:,0], R[:,1], R[:,2]]")
        cols, rv = [], set()
        for e in sub.slice.elts:
            r, k = col_of(e, "scores_extract_particles: angle-map index")
            rv.add(r)
            cols.append(k)
        d = fill_dict()
        xv = d["x"].left if isinstance(d.get("x"), ast.BinOp) else d.get("x")
        if len(rv) != 1 or col_of(xv, "motl.fill: x")[0] not in rv:
            raise Missing("scores_extract_particles: the angle map is not indexed with the peak positions that are filled in")
        return [cols, isinstance(v.op, ast.Sub)]

    def b_angcols():
        V = EV()
        d = fill_dict()
        idx_txt = V.text(angidx_node())
        out = []
        for name in ("phi", "theta", "psi"):
            v = d.get(name)
            if not isinstance(v, ast.Name) or v.id not in V.binds:
                raise Missing(f"motl.fill: {name} is not a local array")
            b0 = V.binds[v.id][0]
            if not (isinstance(b0, ast.Subscript) and isinstance(b0.slice, ast.Tuple) and len(b0.slice.elts) == 2 and isinstance(b0.slice.elts[1], ast.Constant)
                    and V.text(b0.value) == "ioutils.rot_angles_load(angles_list,angles_order=angles_order)" and V.text(b0.slice.elts[0]) == idx_txt):
                raise Missing(f"scores_extract_particles: {name} = <loaded list>[<angle index>, k]")
            out.append((name, int(b0.slice.elts[1].value)))
        return out

    def b_direct():
        V = EV()
        d = fill_dict()
        if not all(k in d for k in ("phi", "theta", "psi", "score", "x", "y", "z")):
            return False
        sc = d["score"]
        # the score column is the second member of the kept (position, score) pairs; the positions are the first member
        return (isinstance(sc, ast.Name) and any("zip(*" in V.text(b) and V.text(b).endswith("[1]") for b in V.binds.get(sc.id, []))
                and any(isinstance(x, ast.Call) and isinstance(x.func, ast.Attribute) and x.func.attr == "append" and x.args
                        and isinstance(x.args[0], ast.Tuple) and [V.text(e) for e in x.args[0].elts] == [f"EACH({V.text(sorted_call())})[0]", f"EACH({V.text(sorted_call())})[1]"]
                        for x in ast.walk(V.fn)))

    # ---- ioutils.rot_angles_load ------------------------------------------------------------------------------------
    def LV():
        return view(I, "rot_angles_load")

    def branch(test_txt):
        V = LV()
        return first(V, lambda x: isinstance(x, ast.If) and n(x.test) == test_txt, f"rot_angles_load: `if {test_txt}`")

    ZZX = ("angles_order=='zzx'", 'angles_order=="zzx"')

    def c_perm():
        br = branch("isinstance(input_angles,np.ndarray)")
        cp = [st for st in br.body if isinstance(st, ast.Assign) and isinstance(st.targets[0], ast.Name) and n(st.value) in ("input_angles.copy()", "input_angles")]
        if not cp:
            raise Missing("rot_angles_load: <angles> = input_angles.copy()")
        var = cp[0].targets[0].id
        zz = [x for st in br.body for x in ast.walk(st) if isinstance(x, ast.If) and n(x.test) in ZZX]
        if not zz:
            return [0, 1, 2]  # the array branch does not reorder: this IS what the source does
        a = [st for st in zz[0].body if isinstance(st, ast.Assign) and n(st.targets[0]) == var]
        if not a or not n(a[0].value).startswith(var + "[:,[") or zz[0].orelse:
            raise Missing("rot_angles_load: <angles> = <angles>[:, [..]]")
        perm = ast.literal_eval(n(a[0].value)[len(var + "[:,"):-1])
        if not (isinstance(perm, list) and all(isinstance(k, int) and k >= 0 for k in perm)):
            raise Missing("rot_angles_load: permutation literal")
        return perm

    def c_file():
        br = branch("isinstance(input_angles,str)")
        rd = [st for st in br.body if isinstance(st, ast.Assign) and isinstance(st.targets[0], ast.Name) and n(st.value).startswith("pd.read_csv(input_angles,")]
        if not rd or {k.arg: n(k.value) for k in rd[0].value.keywords} != {"header": "None"}:
            raise Missing("rot_angles_load: <angles> = pd.read_csv(input_angles, header=None)")
        var = rd[0].targets[0].id
        zz = [x for st in br.body for x in ast.walk(st) if isinstance(x, ast.If) and n(x.test) in ZZX]
        if not zz:
            raise Missing("rot_angles_load: file branch zzx")

        def names(body):
            a = [st for st in body if isinstance(st, ast.Assign) and n(st.targets[0]) == var + ".columns"]
            if not a:
                raise Missing("rot_angles_load: <angles>.columns = [...]")
            return ast.literal_eval(a[0].value)
        sel = [st for st in br.body if isinstance(st, ast.Assign) and n(st.targets[0]) == var and n(st.value).startswith(var + ".loc[:,[")]
        if not sel or not n(sel[0].value).endswith("].to_numpy()"):
            raise Missing("rot_angles_load: <angles>.loc[:, [...]].to_numpy()")
        return [names(zz[0].body), names(zz[0].orelse), ast.literal_eval(n(sel[0].value)[len(var + ".loc[:,"):-len(".to_numpy()") - 1])]

    # ---- signatures and whole bodies --------------------------------------------------------------------------------
    BODIES = [(ln, rel, qual) for ln, rel, qual in _BODIES]

    # ---- cryomap.read -------------------------------------------------------------------------------------------------
    def RV():
        return view(C, "read")

    def r_array():
        """ndarray branch: `data = np.array(input_map)` (no dtype, no cast), then a plain copy; a cast happens only under `data_type is not None`"""
        V = RV()
        br = first(V, lambda x: isinstance(x, ast.If) and n(x.test) == "isinstance(input_map,np.ndarray)",
                   "cryomap.read: `elif isinstance(input_map, np.ndarray): data = np.array(input_map)`")
        if [n(st) for st in br.body] != ["data=np.array(input_map)"]:
            raise Missing("cryomap.read: ndarray branch is no longer exactly `data = np.array(input_map)`: " + "; ".join(n(st) for st in br.body)[:160])
        tail = [st for st in V.fn.body if not isinstance(st, ast.If) or n(st.test) == "data_typeisnotNone"]
        tail = [n(st).replace("\n", "") for st in tail if not (isinstance(st, ast.Expr) and isinstance(st.value, ast.Constant))]
        want = ["data=np.array(data,copy=True)", "ifdata_typeisnotNone:data=data.astype(data_type)", "returndata"]
        if [t.replace(" ", "") for t in tail] != want:
            raise Missing("cryomap.read: after the branches `data = np.array(data, copy=True)`, the cast only `if data_type is not None`, `return data`; found " + " | ".join(tail)[:200])
        return True

    def r_file():
        """file branch: mrc via mrcfile.open(..).data, em via emfile.read(..)[1], then `if transpose: data = data.transpose(2, 1, 0)`"""
        V = RV()
        tr = first(V, lambda x: isinstance(x, ast.If) and n(x.test) == "transpose", "cryomap.read: `if transpose: data = data.transpose(2, 1, 0)`")
        if [n(st) for st in tr.body] != ["data=data.transpose(2,1,0)"] or tr.orelse:
            raise Missing("cryomap.read: file branch transposition is no longer `data = data.transpose(2, 1, 0)`: " + "; ".join(n(st) for st in tr.body)[:160])
        srcs = sorted(n(x.value) for x in ast.walk(V.fn) if isinstance(x, ast.Assign) and n(x.targets[0]) == "data" and ("mrcfile" in n(x.value) or "emfile" in n(x.value)))
        if srcs != ["emfile.read(input_map)[1]", "mrcfile.open(input_map).data"]:
            raise Missing(f"cryomap.read: file readers {srcs}")
        return [2, 1, 0]

    dist_cmp = src.anchor("clean_by_distance:dist<d_cut", a_dist_cmp)
    self_ex = src.anchor("clean_by_distance:d_cut_idx[j]=False", a_self)
    sort = src.anchor("clean_by_distance:argsort-directions", a_sort)
    groups = src.anchor("clean_by_distance:group-loop-by-feature_id", a_groups)
    pos = src.anchor("clean_by_distance:pos-of-group/point_pairwise_dist", a_pos)
    keep = src.anchor("clean_by_distance:keep-mask-guard/removal/iloc-selection", a_keep)
    coords = src.anchor("get_coordinates:xyz+shifts", a_coords)
    norm = src.anchor("point_pairwise_dist:euclidean-norm", a_norm)
    thr = src.anchor("scores_extract_particles:scores_map>threshold", b_thr)
    thr_dbl = src.anchor("scores_extract_particles:threshold-compared-as-float64", b_thr_double)
    ball = src.anchor("scores_extract_particles:query_ball_point-radius", b_ball)
    scmp = src.anchor("scores_extract_particles:<=score", b_score_cmp)
    srt = src.anchor("scores_extract_particles:sorted-reverse", b_sorted)
    ppos = src.anchor("scores_extract_particles:fill-xyz+1", b_pos)
    aidx = src.anchor("scores_extract_particles:ang_idx", b_angidx)
    acols = src.anchor("scores_extract_particles:phi-theta-psi-columns", b_angcols)
    direct = src.anchor("scores_extract_particles:fill-direct", b_direct)
    perm = src.anchor("rot_angles_load:array-zzx-permutation", c_perm)
    filen = src.anchor("rot_angles_load:file-zzx-column-names", c_file)
    d_clean = src.anchor("signature:clean_by_distance-defaults", lambda: [list(t) for t in _defaults(src.find(M, "Motl.clean_by_distance"))])
    d_subset = src.anchor("signature:get_motl_subset-defaults", lambda: [list(t) for t in _defaults(src.find(M, "Motl.get_motl_subset"))])
    d_peaks = src.anchor("signature:scores_extract_particles-defaults", lambda: [list(t) for t in _defaults(src.find(T, "scores_extract_particles"))])
    d_load = src.anchor("signature:rot_angles_load-defaults", lambda: [list(t) for t in _defaults(src.find(I, "rot_angles_load"))])
    r_arr = src.anchor("cryomap.read:ndarray-branch-no-cast", r_array)
    r_fil = src.anchor("cryomap.read:file-branch-transpose(2,1,0)", r_file)
    d_read = src.anchor("signature:cryomap.read-defaults", lambda: [list(t) for t in _defaults(src.find(C, "read"))])
    dumps, raw = {}, {}

    def body(rel, qual, lean_name):
        """the normalised dump; when it differs from the documented one the anchor says WHERE (first differing line, both texts)"""
        lines = view(rel, qual).dump()
        raw[lean_name] = lines
        doc = DOC_BODIES.get(f"{rel}:{qual}")
        if doc is not None and lines != doc:
            k = next((i for i, (a, b_) in enumerate(zip(lines, doc)) if a != b_), min(len(lines), len(doc)))
            was = doc[k] if k < len(doc) else "<end of function>"
            now = lines[k] if k < len(lines) else "<end of function>"
            raise Missing(f"{qual}: body differs from the documented one at normalised line {k + 1} of {len(doc)}: documented `{was[:200]}` now `{now[:200]}`"
                          + (f" ({len(lines) - len(doc):+d} lines)" if len(lines) != len(doc) else ""))
        return lines
    for lean_name, rel, qual in BODIES:
        dumps[lean_name] = src.anchor(f"body:{qual}", lambda rel=rel, qual=qual, lean_name=lean_name: body(rel, qual, lean_name))
        if dumps[lean_name] is None and lean_name in raw:
            dumps[lean_name] = raw[lean_name]  # the digest in Gen is the one of TODAY's body (the theorem about it fails too)

    def b(v):
        return "true" if v else "false"

    def cmp(v, doc):
        return "." + (v or doc)

    def dflt(v, doc):
        return "[" + ", ".join(f"({core.lean_str(a)}, {core.lean_str(c)})" for a, c in (v if v is not None else doc)) + "]"

    # a missing anchor falls back to the DOCUMENTED value (the model keeps its documented behaviour; `anchorsOk` is false)
    sort = sort or DOC["sort"]
    coords = coords or DOC["coords"]
    ppos = ppos or DOC["ppos"]
    aidx = aidx or DOC["aidx"]
    acols = acols or DOC["acols"]
    perm = perm if perm is not None else DOC["perm"]
    filen = filen or DOC["filen"]
    srt = DOC["srt"] if srt is None else srt
    nat_list = lambda xs: "[" + ", ".join(str(int(x)) for x in xs) + "]"
    body_defs, body_comments = [], []
    for lean_name, rel, qual in BODIES:
        lines = dumps[lean_name]
        body_defs.append(f"def {lean_name}Body : String × Nat := ({core.lean_str(_digest(lines) if lines else '?')}, {len(lines) if lines else 0})")
        body_comments.append(f"/- {rel}:{qual}, locals numbered in order of first binding\n" + "\n".join(l.replace("-/", "- /").replace("/-", "/ -") for l in (lines or ["<missing>"])) + "\n-/")
    return f"""-- GENERATED by harness/props/c07.py from {M}, {G}, {T}, {I}, {C}; do not edit
namespace CryoCat.Gen.C07
inductive Cmp | lt | le | gt | ge | other
deriving DecidableEq, Repr
def anchorsOk : Bool := {b(src.ok)}
-- Motl.clean_by_distance
def cleanDistCmp : Cmp := {cmp(dist_cmp, DOC["dist_cmp"])}
def cleanSelfExcluded : Bool := {b(True if self_ex is None else self_ex)}
def cleanSortDescGreater : Bool := {b(sort[0])}
def cleanSortDescLower : Bool := {b(sort[1])}
def cleanGroupsByFeature : Bool := {b(True if groups is None else groups)}
def cleanPosFromGroup : Bool := {b(True if pos is None else pos)}
def cleanKeepMask : Bool := {b(True if keep is None else keep)}
def coordColumns : List String := {core.lean_str_list(coords[0])}
def shiftColumns : List String := {core.lean_str_list(coords[1])}
def distIsEuclidNorm : Bool := {b(True if norm is None else norm)}
-- tmana.scores_extract_particles
def peakThrCmp : Cmp := {cmp(thr, DOC["thr"])}
def peakThrInDouble : Bool := {b(True if thr_dbl is None else thr_dbl)}
def peakBallRadius : String := {core.lean_str(ball or DOC["ball"])}
def peakScoreCmp : Cmp := {cmp(scmp, DOC["scmp"])}
def peakSortDesc : Bool := {b(srt)}
def peakPosFill : List (String × Nat × Nat) := [{", ".join(f"({core.lean_str(a)}, {c}, {o})" for a, c, o in ppos)}]
def peakAngIdxCols : List Nat := {nat_list(aidx[0])}
def peakAngIdxSubtractsNumbering : Bool := {b(aidx[1])}
def peakAngleCols : List (String × Nat) := [{", ".join(f"({core.lean_str(a)}, {c})" for a, c in acols)}]
def peakFillDirect : Bool := {b(True if direct is None else direct)}
-- ioutils.rot_angles_load
def zzxArrayPerm : List Nat := {nat_list(perm)}
def zzxFileNames : List String := {core.lean_str_list(filen[0])}
def zxzFileNames : List String := {core.lean_str_list(filen[1])}
def fileSelect : List String := {core.lean_str_list(filen[2])}
-- signature defaults (parameter, default literal)
def cleanDefaults : List (String × String) := {dflt(d_clean, DOC["clean_defaults"])}
def subsetDefaults : List (String × String) := {dflt(d_subset, DOC["subset_defaults"])}
def peakDefaults : List (String × String) := {dflt(d_peaks, DOC["peak_defaults"])}
def loadDefaults : List (String × String) := {dflt(d_load, DOC["load_defaults"])}
def readDefaults : List (String × String) := {dflt(d_read, DOC["read_defaults"])}
-- cryomap.read
def readArrayBranchNoCast : Bool := {b(True if r_arr is None else r_arr)}
def readFileTranspose : List Nat := {nat_list(r_fil if r_fil is not None else DOC["read_transpose"])}
-- whole bodies: (sha-256 prefix of the normalised dump below, number of dump lines)
{chr(10).join(body_defs)}
end CryoCat.Gen.C07
{chr(10).join(body_comments)}
"""


# ------------------------------------------------------------------ generators: particle lists
def _grid(rng, lo, hi):
    """random grid value (integer numerator at scale S) in [lo, hi] (given in voxels)"""
    return rng.randint(int(lo * S), int(hi * S))


def _layout(rng, n, d):
    """n positions (numerators) and a label"""
    kind = rng.choice(["cluster", "cluster", "chain", "chain", "uniform", "dup", "mixed"])
    pts = []
    if kind == "cluster":
        k = max(1, n // rng.randint(2, 8))
        centres = [[_grid(rng, 0, 300) for _ in range(3)] for _ in range(k)]
        spread = max(1, int(d * rng.choice([0.4, 0.8, 1.2, 2.0])))
        for i in range(n):
            c = rng.choice(centres)
            pts.append([c[a] + rng.randint(-spread, spread) for a in range(3)])
    elif kind == "chain":
        # points along a line, spacing just above / below d (margin >= 2^-8 = 4 grid units)
        axis = rng.choice([(1, 0, 0), (0, 1, 0), (0, 0, 1)])
        p = [_grid(rng, 0, 100) for _ in range(3)]
        for i in range(n):
            pts.append(list(p))
            step = d + rng.choice([-1, 1, 1]) * rng.choice([4, 5, 8, 16, max(4, d // 7)])
            step = max(1, step)
            if rng.random() < 0.1:
                step = d * 3
            p = [p[a] + axis[a] * step + (rng.randint(-2, 2) if rng.random() < 0.3 and not axis[a] else 0) for a in range(3)]
        if rng.random() < 0.5:
            rng.shuffle(pts)
    elif kind == "uniform":
        side = max(2.0, (n ** (1 / 3)) * (d / S) * rng.choice([0.5, 0.8, 1.2]))
        pts = [[_grid(rng, 0, side) for _ in range(3)] for _ in range(n)]
    elif kind == "dup":
        base = [[_grid(rng, 0, 40) for _ in range(3)] for _ in range(max(1, n // 3))]
        pts = [list(rng.choice(base)) for _ in range(n)]
    else:
        side = max(2.0, (n ** (1 / 3)) * (d / S))
        pts = [[_grid(rng, 0, side) for _ in range(3)] for _ in range(n)]
        for i in range(0, n - 1, 3):  # pairs at d +- margin
            off = d + rng.choice([-4, 4, -16, 16])
            pts[i + 1] = [pts[i][0] + off, pts[i][1], pts[i][2]]
    return pts[:n], kind


def _has_tie(pos, grp, d, near_bits=None):
    """exact distance tie inside a group?  With `near_bits` (fine grid) also: a pair whose squared distance differs from d^2 by less
    than d^2 * 2^-near_bits, i.e. closer to a tie than float64 `norm(diff) < d` (relative error < 2^-50) can be trusted to decide"""
    d2 = int(d) * int(d)
    if near_bits is not None:
        by = {}
        for p_, g_ in zip(pos, grp):
            by.setdefault(g_, []).append(p_)
        for q in by.values():
            for i in range(len(q)):
                a = q[i]
                for j in range(i + 1, len(q)):
                    b = q[j]
                    dd = (a[0] - b[0]) ** 2 + (a[1] - b[1]) ** 2 + (a[2] - b[2]) ** 2
                    if abs(dd - d2) << near_bits < d2 or dd == d2:
                        return True
        return False
    p = np.array(pos, dtype=np.int64)
    g = np.array(grp)
    for v in set(grp):
        q = p[g == v]
        if len(q) < 2:
            continue
        diff = q[:, None, :] - q[None, :, :]
        dd = (diff * diff).sum(axis=2)
        if np.any(dd == d2):
            return True
    return False


def _positions(rows):
    return [[r[CI[c]] + r[CI[sc]] for c, sc in (("x", "shift_x"), ("y", "shift_y"), ("z", "shift_z"))] for r in rows]


def _rows_tie(rows, feature, d, scale=None):
    """exact tie inside a group (decided on Python integers when the case is not on the 2^-10 grid: squares exceed int64 there)"""
    fi = CI[feature]
    if scale not in (None, S):
        pos, grp, d2 = _positions(rows), [r[fi] for r in rows], int(d) * int(d)
        by = {}
        for p_, g_ in zip(pos, grp):
            by.setdefault(g_, []).append(p_)
        return any((a[0] - b[0]) ** 2 + (a[1] - b[1]) ** 2 + (a[2] - b[2]) ** 2 == d2 for q in by.values() for i, a in enumerate(q) for b in q[i + 1:])
    return _has_tie(_positions(rows), [r[fi] for r in rows], d)


def _group_values(rng, ngroups):
    """group ids (numerators at scale S) and the label of the stream they come from"""
    r = rng.random()
    if ngroups > 1 and r < 0.25:
        # LARGE ADJACENT ids (date-style tomogram numbers, object ids in the 1e5..1e9 range): equal under any relative tolerance
        base = rng.choice([10 ** 5, 230415, 10 ** 6 - 1, 10 ** 7 + 13, 123456789, 10 ** 9 - 3]) + rng.randint(0, 50)
        vals = [(base + j) * S for j in range(ngroups)]
        rng.shuffle(vals)
        return vals, "large-adjacent"
    if ngroups > 1 and r < 0.33:
        # adjacent values of the 2^-10 grid at magnitude 300..5000 (fractional feature values, e.g. geom fields)
        base = rng.randint(300, 5000) * S + rng.randint(0, S - 1)
        vals = [base + j for j in range(ngroups)]
        rng.shuffle(vals)
        return vals, "grid-adjacent"
    gvals = rng.sample([1, 2, 3, 4, 5, 7, 10, 11, 100, 0, -1] + ([S // 2 * 3] if rng.random() < 0.2 else []), ngroups)
    return [g * S if abs(g) < 200 else g for g in gvals], "small"


def _index(rng, n):
    """row labels of the caller's DataFrame"""
    r = rng.random()
    if r < 0.6 or n < 2:
        return None, "range"
    if r < 0.78:  # two lists put together with pd.concat (no ignore_index): every label twice
        half = max(1, (n + 1) // 2)
        return [i % half for i in range(n)], "dup-concat"
    if r < 0.88:
        p = list(range(n))
        rng.shuffle(p)
        return p, "permuted"
    if r < 0.95:
        return sorted(rng.sample(range(0, 5 * n + 5), n)), "sparse"
    return [7] * n, "all-equal"


def _distinct_scores(rng, n):
    return [s * 16 for s in rng.sample(range(-n * 8, n * 8 + 8), n)]


FINE = 2 ** 30  # the fine grid 2^-30: positions and scores that need more than the 24 mantissa bits of float32


def _fine_clean(rng, tier):
    """particle list on the 2^-30 grid (audit 2, items 1-2): neighbours at d +- 1..16 grid units (|dist - d| / d >= 2^-35, far above the
    2^-50 of float64 but invisible to float32), scores that differ in their low bits only, x split into x + shift_x at the same grid"""
    SC = FINE
    n = rng.randint(2, 12) if tier == "search" else rng.choice([2, 3, 4, rng.randint(5, 40)])
    d = rng.choice([1, 2, 2, 3, 5, 10]) * SC + rng.choice([0, 0, SC // 2, rng.randrange(SC)])
    ngroups = rng.choice([1, 1, 2, 3])
    feature = rng.choice(FEATURES)
    gvals = [g * SC for g in rng.sample([1, 2, 3, 5, 7, 100, 0, -1], ngroups)]
    margins = [1, 1, 2, 3, 5, 16, 2 ** 7, 2 ** 10, 2 ** 20]
    pts = []
    if rng.random() < 0.6 or n < 4:
        axis = rng.choice([(1, 0, 0), (0, 1, 0), (0, 0, 1)])
        p = [rng.randrange(0, 64 * SC) for _ in range(3)]
        for _ in range(n):
            pts.append(list(p))
            step = d + rng.choice([-1, 1, 1]) * rng.choice(margins)
            if rng.random() < 0.1:
                step = 3 * d
            p = [p[a] + axis[a] * step for a in range(3)]
        layout = "fine-chain"
        if rng.random() < 0.5:
            rng.shuffle(pts)
    else:
        side = int(max(2.0, (n ** (1 / 3)) * (d / SC)) * SC)
        pts = [[rng.randrange(0, side) for _ in range(3)] for _ in range(n)]
        for i in range(0, n - 1, 3):
            off = d + rng.choice([-1, 1]) * rng.choice(margins)
            a = rng.randrange(3)
            pts[i + 1] = [pts[i][k] + (off if k == a else 0) for k in range(3)]
        layout = "fine-pairs"
    grp = [gvals[i % ngroups] for i in range(n)] if rng.random() < 0.5 else [rng.choice(gvals) for _ in range(n)]
    for _ in range(200):
        if not _has_tie(pts, grp, d, near_bits=40):
            break
        d += rng.choice([1, 3, 7])
    hi = rng.randrange(1, 2 ** 20)
    scores = [(hi << 30) + v for v in rng.sample(range(2 ** 30), n)]  # equal in their upper bits: float32 makes them tie
    if rng.random() < 0.3:
        scores = [v * 2 ** 18 + rng.randrange(2 ** 18) for v in rng.sample(range(-4 * n, 4 * n + 4), n)]
    rows = []
    for i in range(n):
        row = [0] * 20
        for c in ("geom1", "geom2", "geom3", "geom4", "geom5", "subtomo_mean", "tomo_id", "object_id", "class"):
            row[CI[c]] = rng.randint(1, 3) * SC
        for c in ("phi", "psi", "theta"):
            row[CI[c]] = rng.randint(-180 * 4, 180 * 4) * (SC // 4)
        row[CI["subtomo_id"]] = (i + 1) * SC
        row[CI["score"]] = scores[i]
        row[CI[feature]] = grp[i]
        for a, (c, sc) in enumerate((("x", "shift_x"), ("y", "shift_y"), ("z", "shift_z"))):
            sh = rng.randrange(-3 * SC, 3 * SC) if rng.random() < 0.5 else 0
            row[CI[c]] = pts[i][a] - sh
            row[CI[sc]] = sh
        rows.append(row)
    index, ikind = _index(rng, n)
    return dict(kind="clean", d=d, keep_greater=rng.random() < 0.6, feature=feature, rows=rows, layout=layout, scores="fine", groups="small",
                index=index, index_kind=ikind, omit=rng.random() < 0.3, planted_tie=False, then=[], scale=SC, grid="2^-30")


def _int_clean(rng, case):
    """the same list with INTEGER values everywhere (what a STAR file holding integers only is read as): values = the numerators of the
    2^-10 grid, sent at scale 2 so that the radius may be a half-integer; the DataFrame handed in is int64 in every column, or in the
    coordinate and id columns only"""
    c = dict(case, rows=[[2 * v for v in r] for r in case["rows"]], then=[], scale=2, grid="integers",
             int_cols=rng.choice(["all", "all", "coords"]))
    d = 2 * case["d"] + rng.choice([0, 1, 1])
    for _ in range(50):
        if not _rows_tie(c["rows"], c["feature"], d, scale=2):
            break
        d += 2
    c["d"] = d
    c["planted_tie"] = False
    return c


def gen_clean(rng, tier):
    r0 = rng.random()
    if r0 < 0.10:
        return _fine_clean(rng, tier)
    if r0 < 0.18:
        base = _gen_clean(rng, tier)
        if not base["planted_tie"] and len(base["rows"]) <= 200:
            return _int_clean(rng, base)
        return base
    return _gen_clean(rng, tier)


def _gen_clean(rng, tier):
    big = {"quick": 0.04, "thorough": 0.25, "search": 0.0}[tier]
    r = rng.random()
    if tier == "search":
        n = rng.randint(1, 14)
    elif r < big:
        n = rng.randint(81, 400)
    elif r < big + 0.08:
        n = rng.randint(1, 2)
    else:
        n = rng.randint(3, 80)
    d = rng.choice([S, S + S // 2, 2 * S, 3 * S + S // 4, 10 * S, rng.randint(S // 4 + 1, 24 * S)])
    ngroups = rng.choice([1, 2, 2, 3, 4])
    feature = rng.choice(FEATURES)
    gvals, gkind = _group_values(rng, ngroups)
    copies = ngroups > 1 and rng.random() < 0.3
    if copies:  # the same arrangement in every group (different scores): adversarial for cross-group leakage
        m = max(1, n // ngroups)
        base, layout = _layout(rng, m, d)
        pos, grp = [], []
        for g in gvals:
            pos += [list(p) for p in base]
            grp += [g] * len(base)
        layout = "copies-" + layout
        order = list(range(len(pos)))
        rng.shuffle(order)
        pos = [pos[i] for i in order]
        grp = [grp[i] for i in order]
    else:
        pos, layout = _layout(rng, n, d)
        if rng.random() < 0.5:
            grp = [rng.choice(gvals) for _ in pos]
        else:
            grp = [gvals[i % ngroups] for i in range(len(pos))]
    n = len(pos)
    planted = n >= 2 and rng.random() < 0.03
    if planted:  # a pair of one group at distance exactly d (outside the quantifier; judged under both readings)
        i, j = rng.sample(range(n), 2)
        pos[j] = [pos[i][0], pos[i][1] + d, pos[i][2]]
        grp[j] = grp[i]
    else:
        for _ in range(50):
            if not _has_tie(pos, grp, d):
                break
            d += 1
    sk = rng.random()
    if sk < 0.15:
        scores = [rng.randint(0, max(1, n // 3)) * 64 for _ in range(n)]
        skind = "tied"
    elif sk < 0.35:
        scores = [p[0] + p[1] * 3 - p[2] for p in pos]  # correlated with position
        skind = "position"
        if len(set(scores)) < n:
            skind = "position-tied"
    else:
        scores = _distinct_scores(rng, n)
        skind = "distinct"
    rows = []
    shifted = rng.random() < 0.5
    for i in range(n):
        row = [0] * 20
        for c in ("geom1", "geom2", "geom3", "geom4", "geom5", "subtomo_mean", "tomo_id", "object_id", "class"):
            row[CI[c]] = rng.randint(1, 3) * S
        for c in ("phi", "psi", "theta"):
            row[CI[c]] = rng.randint(-180 * 4, 180 * 4) * (S // 4)
        row[CI["subtomo_id"]] = (i + 1) * S
        row[CI["score"]] = scores[i]
        row[CI[feature]] = grp[i]
        for a, (c, sc) in enumerate((("x", "shift_x"), ("y", "shift_y"), ("z", "shift_z"))):
            sh = rng.randint(-3 * S, 3 * S) if shifted and rng.random() < 0.7 else 0
            row[CI[c]] = pos[i][a] - sh
            row[CI[sc]] = sh
        rows.append(row)
    index, ikind = _index(rng, n)
    case = dict(kind="clean", d=d, keep_greater=rng.random() < 0.6, feature=feature, rows=rows, layout=layout, scores=skind,
                groups=gkind, index=index, index_kind=ikind, omit=rng.random() < 0.3, planted_tie=planted, then=[])
    if tier != "search" and rng.random() < 0.15:  # further calls on the same caller-owned DataFrame
        cur = [list(r) for r in rows]
        for _ in range(rng.choice([1, 1, 2])):
            f2 = rng.choice(FEATURES) if rng.random() < 0.5 else feature
            st = {}
            if rng.random() < 0.7:
                st["score"] = _distinct_scores(rng, n)
            if f2 != feature or rng.random() < 0.4:
                g2, _ = _group_values(rng, rng.choice([1, 2, 3]))
                st[f2] = [rng.choice(g2) for _ in range(n)]
            for col, vals in st.items():
                for r_, v in zip(cur, vals):
                    r_[CI[col]] = v
            d2 = rng.choice([d, 2 * d, max(S // 4 + 1, d // 2), rng.randint(S // 4 + 1, 24 * S)])
            for _k in range(50):
                if not _rows_tie(cur, f2, d2):
                    break
                d2 += 1
            case["then"].append(dict(d=d2, keep_greater=rng.random() < 0.5, feature=f2, set=st, omit=rng.random() < 0.3))
    return case


# ------------------------------------------------------------------ generators: score maps
def gen_peaks(rng, tier, dense=False):
    lim = {"quick": 16, "thorough": 40, "search": 6}[tier]
    r = rng.random()
    if dense:
        dims = [rng.randint(35, 40) for _ in range(3)]
    elif tier == "thorough" and r < 0.06:
        dims = [rng.randint(30, 40) for _ in range(3)]
    elif r < 0.25:
        dims = [rng.randint(1, min(lim, 12)) for _ in range(3)]
        dims[rng.randrange(3)] = rng.choice([1, 2])
    else:
        top = min(lim, 16) if r < 0.9 else lim
        dims = [rng.randint(2, top) for _ in range(3)]
    nx, ny, nz = dims
    N = nx * ny * nz
    rs = np.random.RandomState(rng.randrange(2 ** 31))
    perm = rs.permutation(N)
    if rng.random() < 0.6 and N > 8:
        gx, gy, gz = np.meshgrid(np.arange(nx), np.arange(ny), np.arange(nz), indexing="ij")
        field = np.zeros(dims)
        for _ in range(rng.randint(1, 6)):
            c = [rng.uniform(0, nx), rng.uniform(0, ny), rng.uniform(0, nz)]
            w = rng.uniform(0.8, 3.0)
            field += rng.uniform(0.3, 1.0) * np.exp(-((gx - c[0]) ** 2 + (gy - c[1]) ** 2 + (gz - c[2]) ** 2) / (2 * w * w))
        base = np.floor(field * 200).astype(np.int64).ravel()
        kind = "blobs"
    else:
        base = np.zeros(N, dtype=np.int64)
        kind = "noise"
    vals = (base * N + perm) * 2  # distinct even integers; odd thresholds fall strictly between two scores
    sscale = rng.choice([1, 16, 1024])
    sorted_vals = np.sort(vals)[::-1]
    # threshold: keep between 1 and ~1500 voxels above it (dense maps: 85..98 % of a large map, i.e. more than 2^15 candidates)
    kmax = min(N, {"quick": 500, "thorough": 1500, "search": 40}[tier])
    k = rng.randint(1, max(1, kmax if rng.random() < 0.3 else min(kmax, max(2, N // rng.randint(2, 30)))))
    if dense:
        k = int(N * rng.uniform(0.85, 0.98))
    tr = rng.random()
    if tr < 0.04 and not dense:
        thr = int(sorted_vals[0]) + rng.choice([0, 1, 7])  # nothing above: returns None
        tkind = "above-max"
    elif tr < 0.35 and k < N:
        thr = int(sorted_vals[k])  # exactly a voxel's score: that voxel is NOT above
        tkind = "equal-to-a-score"
    else:
        thr = int(sorted_vals[k - 1]) - 1
        tkind = "between"
    dd = rng.choice([1, 1, 2, 4])
    dr = rng.random()
    if dense:
        dd = 4
        dn = rng.choice([6, 8, 9, 10, 12])  # 1.5 .. 3 voxels: peaks exist deep in the low-score tail
    elif dr < 0.4:
        dn = rng.choice([1, 2, 2, 3, 5]) * dd  # integer diameters: exact ties with integer voxel distances
    elif dr < 0.8:
        dn = rng.randint(max(1, dd // 2), 3 * dd)
    else:
        dn = rng.randint(3 * dd, int(6.5 * dd))
    numbering = rng.choice([0, 1])
    L = rng.randint(1, 40)
    ascale = 4

    def angle_list():
        out = []
        for i in range(L):
            a = rng.randint(-720, 719)
            b = rng.randint(0, 720)
            c = rng.randint(-720, 719)
            while c == b:
                c = rng.randint(-720, 719)
            out.append([a, b, c])
        return out
    anglist = angle_list()
    # entries in [numbering, numbering + L): an entry BELOW the numbering points to no list row (outside the quantifier)
    angles = rs.randint(numbering, numbering + L, size=N).tolist()
    bad = rng.random() < 0.03 and not dense
    if bad:
        for _ in range(rng.randint(1, 3)):
            angles[int(np.argmax(vals)) if rng.random() < 0.5 else rng.randrange(N)] = numbering + L + rng.randint(0, 2)
    case = dict(kind="peaks", dims=dims, scores=[int(v) for v in vals], sscale=sscale, thr=thr, dn=dn, dd=dd, angles=angles,
                anglist=anglist, ascale=ascale, numbering=numbering, order=rng.choice(["zxz", "zzx"]),
                list_as=rng.choice(["array", "array", "csv"]), field=kind, thr_kind=tkind, bad_angle=bad, dense=dense,
                omit=rng.random() < 0.3, then=[])
    if tier != "search" and not dense and not bad and rng.random() < 0.15:
        # further calls with the SAME map / angle-map / list objects (or the same CSV path, rewritten in between)
        for _ in range(rng.choice([1, 1, 2])):
            k2 = rng.randint(1, max(1, min(N, kmax)))
            thr2 = int(sorted_vals[k2 - 1]) - 1 if rng.random() < 0.8 else int(sorted_vals[min(N - 1, k2)])
            case["then"].append(dict(thr=thr2, dn=rng.randint(max(1, dd // 2), int(6.5 * dd)), dd=dd, order=rng.choice(["zxz", "zzx"]),
                                     anglist=angle_list() if rng.random() < 0.6 else None, omit=rng.random() < 0.3))
    return case


def _decimal_angles(rng, L, dec):
    """angle list with `dec` decimals (off every dyadic grid), as IEEE-754 bit patterns: the model only copies and compares them"""
    out = []
    for _ in range(L):
        a = round(rng.uniform(-180, 180), dec) + 0.0
        b = round(rng.uniform(0, 180), dec) + 0.0
        c = round(rng.uniform(-180, 180), dec) + 0.0
        while c == b:
            c = round(rng.uniform(-180, 180), dec) + 0.0
        out.append([core.f2b(a), core.f2b(b), core.f2b(c)])
    return out


def _decimal_f32(rng, c):
    """a float32 score map of DECIMAL scores (np.float32(k / 10000), k distinct) with a decimal threshold (python float k_j / 10000 or a
    5-decimal value between two scores): what a user of an MRC score map types.  float32(0.1) is 0.10000000149.. > 0.1, float32(0.7) is
    0.69999998807.. < 0.7: whether the voxel under the threshold counts is decided by the real numbers.  Everything is sent as
    integers at scale 2^64 (float32 values in [1e-4, 1) and float64 decimals in that range are multiples of 2^-64)."""
    from fractions import Fraction
    N = len(c["scores"])
    SC = 2 ** 64
    ks = rng.sample(range(1, 10000), N)
    sc = []
    for k_ in ks:
        fr = Fraction(float(np.float32(k_ / 10000))) * SC
        assert fr.denominator == 1
        sc.append(int(fr))
    order = sorted(ks, reverse=True)
    j = rng.randrange(0, min(N, 40))
    dec = Fraction(order[j], 10000) if rng.random() < 0.7 else Fraction(2 * order[j] - 1, 20000)
    thr = Fraction(float(dec)) * SC  # the python float the user's decimal becomes
    assert thr.denominator == 1
    return dict(c, scores=sc, sscale=SC, thr=int(thr), then=[], score_bits="decimal-f32", thr_kind="decimal", field="decimal", thr_grid="decimal")


def _vary_peaks(rng, case):
    """inputs a user naturally hands in (audit 2, items 1 and 5, H3): scores needing all 52 mantissa bits, decimal angles, float32 / integer
    typed maps and lists, maps given as MRC / EM file PATHS (boxes with three different side lengths)"""
    c = dict(case, then=[dict(t) for t in case.get("then") or []])
    if len(case["scores"]) <= 5000 and rng.random() < 0.15:
        c = _decimal_f32(rng, c)
    vals = c["scores"]
    mx = max([abs(v) for v in vals] + [abs(c["thr"])] + [abs(t["thr"]) for t in c["then"]])
    k = 50 - mx.bit_length()
    c.setdefault("score_bits", "<=24")
    if c["score_bits"] == "decimal-f32":
        pass
    elif rng.random() < 0.4 and k >= 26:
        low = {v: rng.randrange(1, 2 ** k) for v in set(vals)}
        top = max(vals)

        def f(v):
            return v * 2 ** k + low[v]

        def fthr(t):
            if t in low:
                return f(t)  # exactly a voxel's score
            if t + 1 in low:
                return f(t + 1) - 1  # one unit in the last place below a voxel's score
            return f(top) + (t - top)  # above the maximum
        c["thr"] = fthr(c["thr"])
        for t in c["then"]:
            t["thr"] = fthr(t["thr"])
        c["scores"] = [f(v) for v in vals]
        c["sscale"] = 2 ** 52  # values in [0, 1/4): what a float64 cross-correlation map holds
        c["score_bits"] = "52"
    # a float32 map needs float32 SCORES; the threshold is a python float of the user and need not be a float32 (audit 3, item 1)
    small = (c["score_bits"] == "<=24" and max(abs(v) for v in vals) < 2 ** 24) or c["score_bits"] == "decimal-f32"
    L = len(c["anglist"])
    dec = None
    if rng.random() < 0.5:
        dec = rng.choice([0, 1, 2, 2, 3, 3])
        c["ang_bits"] = True
        c["anglist"] = _decimal_angles(rng, L, dec)
        for t in c["then"]:
            if t.get("anglist") is not None:
                t["anglist"] = _decimal_angles(rng, L, dec)
        c["ang_values"] = f"{dec} decimals"
    distinct = len(set(c["dims"])) == 3
    r = rng.random()
    c["maps_as"] = "array"
    if distinct and r < 0.3:
        c["maps_as"] = "mrc" if (small and rng.random() < 0.6) else "em"
    if c["maps_as"] == "mrc":
        c["map_dtype"], c["ang_dtype"] = "float32", rng.choice(["float32", "int16"])
    elif c["maps_as"] == "em":
        c["map_dtype"] = "float32" if (small and rng.random() < 0.3) else "float64"
        c["ang_dtype"] = rng.choice(["float64", "float32", "int32", "int16"])
    else:
        c["map_dtype"] = "float32" if (small and rng.random() < 0.25) else "float64"
        c["ang_dtype"] = rng.choice(["float64", "float64", "float32", "int32", "int64", "int16"])
    if c["score_bits"] == "decimal-f32":
        c["map_dtype"] = "float32"  # the scores ARE float32 values; only a float32 map holds them as such
    elif c["map_dtype"] == "float32" and rng.random() < 0.75:
        # scores stay float32 values (v * 2^28 at a 2^28 finer scale), the threshold moves OFF the float32 grid: one float64 step, or a few,
        # below / above a voxel's score (float(np.nextafter(s, -+inf)) and s -+ tiny).  As a real number the voxel is above / below it;
        # rounded to float32 the threshold IS the voxel's score.
        sh = 28
        top = max(vals)
        vals_set = set(vals)

        def g(t):
            delta = rng.choice([1, 1, 2, 2 ** 3, 2 ** 12, 2 ** 20, 2 ** 26])
            if t in vals_set:
                return t * 2 ** sh + rng.choice([-delta, -delta, 0, delta])  # a voxel's score: just below (voxel counts), equal, just above
            if t + 1 in vals_set:
                return (t + 1) * 2 ** sh - delta  # just below a voxel's score: the voxel counts
            return top * 2 ** sh + max(1, t - top) * rng.choice([delta, 2 ** sh])
        c["thr"] = g(c["thr"])
        for t in c["then"]:
            t["thr"] = g(t["thr"])
        c["scores"] = [v * 2 ** sh for v in vals]
        c["sscale"] = c["sscale"] * 2 ** sh
        c["thr_grid"] = "off the float32 grid"
    ld = ["float64", "float64"]
    if dec == 0:
        ld += ["int64", "int64", "float32"]
    elif dec is None:
        ld += ["float32"]
    c["list_dtype"] = rng.choice(ld)
    return c


def generate(rng, tier, n):
    for case in _generate(rng, tier, n):
        if case["kind"] == "peaks" and not case.get("dense"):
            case = _vary_peaks(rng, case)
        yield case


def _generate(rng, tier, n):
    dense_at = set()
    if tier == "quick":
        dense_at = {3, n // 2}
    elif tier == "thorough":
        dense_at = set(range(7, n, max(1, n // 22)))
    for i in range(n):
        if i in dense_at:
            yield gen_peaks(rng, tier, dense=True)
        elif rng.random() < 0.15:
            yield gen_peaks(rng, tier)
        else:
            yield gen_clean(rng, tier)


def _subcases(case):
    """the calls a case makes, each as a flat case of its own (follow-up calls see the caller's in-place edits accumulated)"""
    first = {k: v for k, v in case.items() if k != "then"}
    subs = [first]
    if case["kind"] == "clean":
        cur = [list(r) for r in case["rows"]]
        for t in case.get("then") or []:
            for col, vals in (t.get("set") or {}).items():
                for r_, v in zip(cur, vals):
                    r_[CI[col]] = v
            subs.append(dict(first, d=t["d"], keep_greater=t["keep_greater"], feature=t["feature"], omit=t.get("omit", False),
                             rows=[list(r) for r in cur], set=t.get("set") or {}))
    else:
        cur = case["anglist"]
        for t in case.get("then") or []:
            if t.get("anglist") is not None:
                cur = t["anglist"]
            subs.append(dict(first, thr=t["thr"], dn=t["dn"], dd=t["dd"], order=t["order"], anglist=cur, omit=t.get("omit", False),
                             rewrite=t.get("anglist") is not None))
    return subs


# ------------------------------------------------------------------ implementation adapters
def _quiet():
    return contextlib.redirect_stdout(io.StringIO())


def _attr(e):
    """an exception as an observation; `where` is empty when no frame of the traceback lies inside cryocat (harness / third party)"""
    where = ""
    for fr in reversed(traceback.extract_tb(e.__traceback__)):
        if "/cryocat/" in fr.filename.replace("\\", "/"):
            where = f"{os.path.basename(fr.filename)}:{fr.lineno}"
            break
    return {"error": f"{type(e).__name__}: {str(e)[:300]}", "where": where, "etype": type(e).__name__}


def _df_state(df):
    return (df.to_numpy(copy=True), list(df.index), [str(c) for c in df.columns], [str(t) for t in df.dtypes])


def _df_changed(df, state):
    vals, index, cols, dts = state
    if [str(c) for c in df.columns] != cols:
        return "columns"
    if list(df.index) != index:
        return "index"
    if [str(t) for t in df.dtypes] != dts:
        return "dtypes"
    now = df.to_numpy()
    if now.shape != vals.shape or not np.array_equal(now, vals):
        return "values"
    return ""


INT_COORD_COLS = ["x", "y", "z", "tomo_id", "object_id", "subtomo_id", "class"]


def _clean_call(df, sub, cryomotl):
    """one real clean_by_distance on the caller-owned DataFrame `df`; keywords equal to the documented defaults are omitted when asked"""
    rows = sub["rows"]
    SC = sub.get("scale", S)
    state = _df_state(df)
    kw = {}
    if not (sub.get("omit") and sub["keep_greater"] is True):
        kw["keep_greater"] = sub["keep_greater"]
    if not sub.get("omit"):
        kw["metric_id"] = "score"
    try:
        m = cryomotl.Motl(df)
        with _quiet():
            m.clean_by_distance(sub["d"] / SC, sub["feature"], **kw)
        out = m.df
    except Exception as e:
        o = _attr(e)
        o["input_modified"] = _df_changed(df, state)
        return o
    o = dict(input_modified=_df_changed(df, state), kept=None, unchanged=True, note="", dtypes={}, textual=[], n_out=int(len(out)))
    cols = [str(c) for c in out.columns]
    if cols != COLS:
        o["note"] = "columns " + ",".join(cols)[:200]
        o["unchanged"] = False
        return o
    # dtypes as returned (never coerced): a numeric field that comes back as text / object cannot be a particle field
    o["dtypes"] = {c: str(out[c].dtype) for c in COLS if str(out[c].dtype) != "float64"}
    o["in_dtypes"] = {c: str(df[c].dtype) for c in COLS if str(df[c].dtype) != "float64"}
    o["textual"] = [c for c in COLS if out[c].dtype.kind not in "fiu"]
    if o["textual"]:
        return o
    by_id = {r[CI["subtomo_id"]]: r for r in rows}
    index_of = {r[CI["subtomo_id"]]: i for i, r in enumerate(rows)}
    ids, same = [], True
    for r in zip(*[out[c].tolist() for c in COLS]):  # native python numbers of the returned dtypes (int stays int: exact)
        sid = r[CI["subtomo_id"]] * SC
        if sid != sid or sid != int(sid) or int(sid) not in by_id:
            same = False
            ids.append(-1)
            continue
        ids.append(index_of[int(sid)])
        if any(v != v or v * SC != w for v, w in zip(r, by_id[int(sid)])):
            same = False
    o["kept"] = ids
    o["unchanged"] = same
    return o


def _run_clean(case):
    import pandas as pd
    from cryocat import cryomotl
    subs = _subcases(case)
    SC = case.get("scale", S)
    if case.get("int_cols"):  # integer-typed columns (a STAR file holding integers only is read as int64)
        ints = np.array([[v // SC for v in r] for r in subs[0]["rows"]], dtype=np.int64)
        if case["int_cols"] == "all":
            df = pd.DataFrame(ints, columns=COLS, index=case.get("index"))
        else:
            df = pd.DataFrame(ints.astype(np.float64), columns=COLS, index=case.get("index"))
            for c in INT_COORD_COLS:
                df[c] = ints[:, CI[c]]
    else:
        arr = np.array(subs[0]["rows"], dtype=np.float64) / SC
        df = pd.DataFrame(arr, columns=COLS, index=case.get("index"))  # the caller-owned object, shared by every call of the case
    calls = []
    for k, sub in enumerate(subs):
        if k > 0:
            for col, vals in sub["set"].items():  # a legitimate in-place edit by the caller between two calls
                df[col] = np.array(vals, dtype=np.float64) / SC
        calls.append(_clean_call(df, sub, cryomotl))
    return dict(calls=calls)


def _write_csv(path, L):
    with open(path, "w") as f:
        for row in L:
            f.write(",".join(str(int(v)) if L.dtype.kind in "iu" else repr(float(v)) for v in row) + "\n")


def _csv_text(L):
    want = io.StringIO()
    for row in L:
        want.write(",".join(str(int(v)) if L.dtype.kind in "iu" else repr(float(v)) for v in row) + "\n")
    return want.getvalue()


def _write_map(path, arr):
    """a map file written WITHOUT cryocat: MRC / EM data are stored section by section, row by row (array axes z, y, x; x runs fastest),
    cryoCAT's array convention is [x, y, z]"""
    data = np.ascontiguousarray(arr.transpose(2, 1, 0))
    if path.endswith(".mrc"):
        import mrcfile
        with mrcfile.new(path, overwrite=True) as m:
            m.set_data(data)
    else:
        import emfile
        emfile.write(path, data, overwrite=True)


def _peaks_call(Sm, Am, lst, L, sub, tmana, paths=None):
    before = (Sm.copy(), Am.copy(), L.copy())
    files = {p_: open(p_, "rb").read() for p_ in (paths or [])}
    kw = dict(scores_threshold=sub["thr"] / sub["sscale"])
    if not (sub.get("omit") and sub["order"] == "zxz"):
        kw["angles_order"] = sub["order"]
    if not (sub.get("omit") and sub["numbering"] == 0):
        kw["angles_numbering"] = sub["numbering"]

    def changed():
        bad = [nm for nm, a, b in (("scores_map", Sm, before[0]), ("angles_map", Am, before[1]), ("angles_list", L, before[2]))
               if a.shape != b.shape or a.dtype != b.dtype or not np.array_equal(a, b)]
        if isinstance(lst, str):
            try:
                txt = open(lst).read()
            except OSError:
                txt = None
            if txt != _csv_text(L):
                bad.append("angles_list file")
        for p_, data in files.items():
            try:
                same = open(p_, "rb").read() == data
            except OSError:
                same = False
            if not same:
                bad.append("map file " + os.path.basename(p_))
        return ",".join(bad)
    try:
        with _quiet():
            m = tmana.scores_extract_particles(paths[0] if paths else Sm, paths[1] if paths else Am, lst, 7, sub["dn"] / sub["dd"], **kw)
    except Exception as e:
        o = _attr(e)
        o["input_modified"] = changed()
        if o["etype"] == "IndexError" and o["where"].startswith("tmana.py"):
            return dict(result="bad-angle", detail=o["error"][:100], input_modified=o["input_modified"])
        return o
    o = dict(input_modified=changed())
    if m is None:
        o["result"] = "empty"
        return o
    df = m.df
    want = ["x", "y", "z", "score", "phi", "theta", "psi"]
    missing = [c for c in want if c not in df.columns]
    if missing:
        return dict(o, result="peaks", rows=[], exact=False, textual=[], dtypes={}, note="missing columns " + ",".join(missing))
    o["dtypes"] = {c: str(df[c].dtype) for c in want}
    ldt = str(L.dtype) if not isinstance(lst, str) else ("int64" if L.dtype.kind in "iu" else "float64")
    o["in_dtypes"] = dict(score=str(Sm.dtype), phi=ldt, theta=ldt, psi=ldt)
    o["textual"] = [c for c in want if df[c].dtype.kind not in "fiu"]
    o["result"] = "peaks"
    if o["textual"]:
        return dict(o, rows=[], exact=False)
    rows, exact = [], True
    bits = bool(sub.get("ang_bits"))
    for x, y, z, s_, phi, the, psi in zip(*[df[c].tolist() for c in want]):  # native python numbers of the returned dtype
        vals = [x, y, z, s_ * sub["sscale"]] + ([] if bits else [phi * sub["ascale"], the * sub["ascale"], psi * sub["ascale"]])
        if any(v != v or v in (float("inf"), float("-inf")) or v != int(v) for v in vals):
            exact = False
            row = [0 if (v != v or abs(v) == float("inf")) else int(round(v)) for v in vals]
        else:
            row = [int(v) for v in vals]
        if bits:  # decimal angles travel as bit patterns of the float64 value of what came back (a narrowed value has other bits)
            row += [core.f2b(float(a)) for a in (phi, the, psi)]
        rows.append(row)
    return dict(o, rows=rows, exact=exact)


def _angle_array(sub, anglist):
    if sub.get("ang_bits"):
        L = np.array([[core.b2f(v) for v in row] for row in anglist], dtype=np.float64)
    else:
        L = np.array(anglist, dtype=np.float64) / sub["ascale"]
    return L.astype(sub.get("list_dtype", "float64"))


def _run_peaks(case):
    from cryocat import tmana
    subs = _subcases(case)
    nx, ny, nz = case["dims"]
    # caller-owned, shared by every call
    Sm = (np.array(case["scores"], dtype=np.float64).reshape(nx, ny, nz) / float(case["sscale"])).astype(case.get("map_dtype", "float64"))
    Am = np.array(case["angles"], dtype=np.float64).reshape(nx, ny, nz).astype(case.get("ang_dtype", "float64"))
    L = _angle_array(case, case["anglist"])
    calls = []
    with tempfile.TemporaryDirectory(prefix="c07_") as td:
        path = os.path.join(td, "angles.csv")
        paths = None
        if case.get("maps_as", "array") != "array":
            ext = "." + case["maps_as"]
            paths = [os.path.join(td, "scores" + ext), os.path.join(td, "angles" + ext)]
            _write_map(paths[0], Sm)
            _write_map(paths[1], Am)
        for k, sub in enumerate(subs):
            if k > 0 and sub.get("rewrite"):
                L[...] = _angle_array(case, sub["anglist"])  # the caller rewrites the same array / the same file
            if case.get("list_as") == "csv":
                if k == 0 or sub.get("rewrite"):
                    _write_csv(path, L)
                lst = path
            else:
                lst = L
            calls.append(_peaks_call(Sm, Am, lst, L, sub, tmana, paths))
    return dict(calls=calls)


def run_impl(case):
    return _run_clean(case) if case["kind"] == "clean" else _run_peaks(case)


# ------------------------------------------------------------------ model requests and judgement
def _clean_req(sub):
    return dict(d=sub["d"], keep_greater=1 if sub["keep_greater"] else 0, feature=sub["feature"], rows=sub["rows"])


def _peaks_req(sub):
    return dict(thr=sub["thr"], dn=sub["dn"], dd=sub["dd"], dims=sub["dims"], scores=sub["scores"], angles=sub["angles"],
                anglist=sub["anglist"], numbering=sub["numbering"], order=sub["order"])


def _reqs(sub, o):
    if sub["kind"] == "clean":
        reqs = [dict(op="clean", **_clean_req(sub))]
        if "error" not in o and o.get("kept") is not None and all(0 <= i < len(sub["rows"]) for i in o["kept"]):
            reqs.append(dict(op="check_clean", out=o["kept"], **_clean_req(sub)))
        return reqs
    reqs = [dict(op="peaks", **_peaks_req(sub))]
    if o.get("result") == "peaks" and not o.get("textual") and not o.get("note") and all(min(r[:3]) >= 0 for r in o["rows"]):
        reqs.append(dict(op="check_peaks", out=o["rows"], **_peaks_req(sub)))
    return reqs


def requests(case, obs):
    if "calls" not in obs:
        return []
    out = []
    for sub, o in zip(_subcases(case), obs["calls"]):
        out += _reqs(sub, o)
    return out


def _score_ties(sub):
    fi = CI[sub["feature"]]
    seen = set()
    for r in sub["rows"]:
        k = (r[fi], r[CI["score"]])
        if k in seen:
            return True
        seen.add(k)
    return False


def _raised(o):
    """an exception is a finding of the property only when cryocat itself raised it"""
    if not o.get("where"):
        return dict(kind="corr", clause="harness-or-library-raised", detail="no frame of the traceback lies inside cryocat: " + o["error"])
    return dict(kind="spec", clause="raises", detail=o["error"] + " @" + o["where"])


def _judge_clean(sub, o, rs):
    out = []
    if "error" in o:
        out.append(_raised(o))
        if o.get("input_modified"):
            out.append(dict(kind="corr", clause="caller-owned-input-modified", detail=f"the DataFrame passed to Motl(...) differs after the call: {o['input_modified']}"))
        return out
    model = rs[0]
    if "error" in model:
        return [dict(kind="corr", clause="model-rejects-input", detail=str(model))]
    n = len(sub["rows"])
    if o.get("input_modified"):
        out.append(dict(kind="corr", clause="caller-owned-input-modified", detail=f"the DataFrame passed to Motl(...) differs after clean_by_distance: {o['input_modified']}"))
    if o.get("textual"):
        out.append(dict(kind="corr", clause="numeric-field-returned-as-text", detail=f"columns {o['textual']} of the cleaned list are not numeric: { {c: o['dtypes'].get(c) for c in o['textual']} }"))
        return out
    kept = o["kept"]
    if kept is None or not o["unchanged"] or any(i < 0 for i in kept):
        out.append(dict(kind="spec", clause="remaining-not-an-input-particle", detail=f"a remaining row is not bit-identical to the input row with its subtomo_id {o.get('note','')}"))
    chk = rs[1] if len(rs) > 1 else None
    SC = sub.get("scale", S)
    tie = _rows_tie(sub["rows"], sub["feature"], sub["d"], scale=SC)  # a pair at distance exactly d: reported only when both readings reject
    if chk is not None and "error" in chk:
        out.append(dict(kind="corr", clause="checker-rejects-encoding", detail=str(chk)))
    elif chk is not None:
        # SPEC verdict: the order-free checker (theorem checkCleanCore_iff: membership, none twice, Separated, Dominated - the clauses the
        # statement names).  The ORDER of the survivors is not a clause of the statement: `in_order` (theorem groupsInOrder_iff) is corr.
        rejected = (not chk["ok_core"]) and (not tie or not chk["ok_core_le"])
        indep = chk["independent_core"] or (tie and chk["independent_core_le"])
        what = f"survivors {kept[:30]} of {n} particles (d={sub['d']/SC}, keep_greater={sub['keep_greater']}, group field {sub['feature']}, keywords omitted={bool(sub.get('omit'))}, grid {sub.get('grid', '2^-10')})"
        if rejected:
            badg = [f"{g['group']/SC}:{g['clause']}" for g in chk["groups_core"] if not g["ok"]][:4]
            out.append(dict(kind="spec", clause=chk["clause_core"], detail=f"verified checker checkCleanCore rejects the {what}" + (f"; the result is rejected under `dist <= d` as well ({chk['clause_core_le']})" if tie else "")
                            + (f"; groups failing on their own sub-list: {badg}" if badg else "")))
        # no separate verdict on the per-group answers: a result the order-free checker accepts passes in every group on its own
        # (theorem checkIndependentCore_of_core), so `independent_core` can only be false when `ok_core` is; a driver answering otherwise
        # would contradict the theorem and is reported as a broken correspondence
        elif not indep:
            out.append(dict(kind="corr", clause="driver-contradicts-checkIndependentCore_of_core", detail=f"ok_core is true but independent_core is false: {what}"))
        elif not chk["in_order"]:
            out.append(dict(kind="corr", clause="remaining-not-in-input-order", detail=f"the survivors of a group are not in the order of the input rows (separation, domination and independence hold; the statement is silent about order): {what}"))
    if not out:
        narrow = {c: t for c, t in (o.get("dtypes") or {}).items() if np.dtype(t).itemsize < np.dtype((o.get("in_dtypes") or {}).get(c, "float64")).itemsize
                  or (np.dtype(t).kind in "iu" and np.dtype((o.get("in_dtypes") or {}).get(c, "float64")).kind == "f")}
        if narrow:
            out.append(dict(kind="corr", clause="dtype-differs-from-input", detail=f"columns came back in a narrower / integer type than they went in: {narrow} (input {o.get('in_dtypes') or 'float64'})"))
    if not out and kept != model["kept"]:
        if _score_ties(sub) and sorted(kept) != sorted(model["kept"]) and chk is not None and chk.get("ok"):
            pass  # equal scores processed in another order: a different, valid result (accepted by the verified checker)
        else:
            out.append(dict(kind="corr", clause="survivors-differ-from-model", detail=f"impl {kept[:30]} model {model['kept'][:30]}"))
    return out


def _judge_peaks(sub, o, rs):
    out = []
    if "error" in o:
        out.append(_raised(o))
        if o.get("input_modified"):
            out.append(dict(kind="corr", clause="caller-owned-input-modified", detail=f"changed by the call: {o['input_modified']}"))
        return out
    model = rs[0]
    if "error" in model:
        return [dict(kind="corr", clause="model-rejects-input", detail=str(model))]
    if o.get("input_modified"):
        out.append(dict(kind="corr", clause="caller-owned-input-modified", detail=f"changed by scores_extract_particles: {o['input_modified']}"))
    nb, L = sub["numbering"], len(sub["anglist"])
    sup = [(s, a) for s, a in zip(sub["scores"], sub["angles"]) if s > sub["thr"]]
    res = o["result"]
    if res == "empty":
        if sup:
            out.append(dict(kind="spec", clause="no-peaks-although-voxels-exceed-threshold", detail=f"{len(sup)} voxels above the threshold, None returned"))
    elif res == "bad-angle":
        if all(nb <= a < nb + L for _, a in sup):  # every entry a peak could read points to a list row: the call must not raise
            out.append(dict(kind="spec", clause="raises", detail="IndexError from the angle list although every supra-threshold voxel's angle-map entry points to a row of the list: " + o.get("detail", "")))
        elif model["result"] != "bad-angle":
            out.append(dict(kind="corr", clause="result-kind-differs-from-model", detail="IndexError from the angle list: " + o.get("detail", "")))
        return out
    else:
        if o.get("textual"):
            out.append(dict(kind="corr", clause="numeric-field-returned-as-text", detail=f"columns {o['textual']} of the extracted list are not numeric: {o['dtypes']}"))
            return out
        if o.get("note") or not o["exact"]:
            out.append(dict(kind="spec", clause="peak-does-not-carry-voxel-score-position-angles-or-is-below-threshold", detail="a peak value is not on the input grid " + o.get("note", "")))
        chk = rs[1] if len(rs) > 1 else None
        if chk is None:
            if not out:
                out.append(dict(kind="spec", clause="peak-does-not-carry-voxel-score-position-angles-or-is-below-threshold", detail="a peak position is below 1 (no voxel has it as 1-based position)"))
        elif "error" in chk:
            out.append(dict(kind="corr", clause="checker-rejects-encoding", detail=str(chk)))
        elif not chk["ok"]:
            out.append(dict(kind="spec", clause=chk["clause"],
                            detail=f"verified checker checkPeaks rejects the peak table (first rows {o['rows'][:4]}; {len(o['rows'])} peaks for {len(sup)} voxels above the threshold; D={sub['dn']}/{sub['dd']}, thr={sub['thr']}, order={sub['order']}, numbering={sub['numbering']}, list as {sub.get('list_as')}, keywords omitted={bool(sub.get('omit'))})"))
    if not out and res == "peaks" and o.get("dtypes"):
        # a returned column NARROWER than what went in (score vs. the score map, angles vs. the angle list) loses digits on some input even
        # when this one survived: corr (the spec finding is the score / angle mismatch the verified checker reports on a value that needs the digits)
        ind = o.get("in_dtypes") or {}
        narrow = {c: t for c, t in o["dtypes"].items() if c in ind and (np.dtype(t).itemsize < np.dtype(ind[c]).itemsize
                                                                         or (np.dtype(t).kind in "iu" and np.dtype(ind[c]).kind == "f"))}
        if narrow:
            out.append(dict(kind="corr", clause="dtype-differs-from-input", detail=f"returned {narrow} for inputs {ind}"))
    if not out:
        if model["result"] != res:
            out.append(dict(kind="corr", clause="result-kind-differs-from-model", detail=f"impl {res} model {model['result']}"))
        elif res == "peaks" and model["rows"] != o["rows"]:
            out.append(dict(kind="corr", clause="peak-table-differs-from-model", detail=f"impl {o['rows'][:5]} model {model['rows'][:5]}"))
    return out


def judge(case, obs, resps):
    if "calls" not in obs:  # raised outside the guarded library calls
        return [_raised(obs) if "error" in obs else dict(kind="corr", clause="harness-or-library-raised", detail=str(obs)[:300])]
    out, at = [], 0
    for k, (sub, o) in enumerate(zip(_subcases(case), obs["calls"])):
        nreq = len(_reqs(sub, o))
        rs = resps[at:at + nreq]
        at += nreq
        fs = _judge_clean(sub, o, rs) if case["kind"] == "clean" else _judge_peaks(sub, o, rs)
        for f in fs:
            if k > 0:
                f["detail"] = f"[call {k + 1} of the case, same caller-owned inputs as the calls before] " + f["detail"]
        out += fs
    return out


def classify(case, obs, finding):
    return None  # no open known finding belongs to C07


def nontrivial(case, obs):
    if "calls" not in obs or not obs["calls"] or "error" in obs["calls"][0]:
        return False
    o = obs["calls"][0]
    if case["kind"] == "clean":
        n = len(case["rows"])
        return n >= 3 and o.get("kept") is not None and 1 <= len(o["kept"]) < n
    if o.get("result") != "peaks":
        return False
    nsup = sum(1 for s in case["scores"] if s > case["thr"])
    return nsup >= 2 and len(o["rows"]) < nsup


def _bucket(n, edges):
    for e in edges:
        if n <= e:
            return f"<={e}"
    return f">{edges[-1]}"


def stats(case, obs, resps):
    calls = obs.get("calls") or [{}]
    o = calls[0]
    if case["kind"] == "clean":
        n = len(case["rows"])
        fi = CI[case["feature"]]
        st = {"kind": "clean", "clean.n": _bucket(n, [2, 10, 40, 80, 200, 400]), "clean.groups": len(set(r[fi] for r in case["rows"])),
              "clean.feature": case["feature"], "clean.keep_greater": case["keep_greater"], "clean.layout": case.get("layout", "corpus"),
              "clean.scores": case.get("scores", "corpus"), "clean.d": _bucket(case["d"] / case.get("scale", S), [1, 2, 5, 10, 24]), "clean.grid": case.get("grid", "2^-10"),
              "clean.input_dtypes": {None: "float64", "all": "int64 (all columns)", "coords": "int64 (coordinates, ids) + float64"}[case.get("int_cols")],
              "clean.shifted": any(r[CI["shift_x"]] or r[CI["shift_y"]] or r[CI["shift_z"]] for r in case["rows"]),
              "clean.group_values": case.get("groups", "corpus"), "clean.index": case.get("index_kind", "range"),
              "clean.keywords_omitted": bool(case.get("omit")), "clean.calls_on_same_input": 1 + len(case.get("then") or []),
              "clean.exact_distance_tie": _rows_tie(case["rows"], case["feature"], case["d"], scale=case.get("scale", S))}
        if "error" not in o and o.get("kept") is not None:
            st["clean.removed_fraction"] = _bucket(100 * (n - len(o["kept"])) // max(1, n), [0, 25, 50, 75, 99])
            st["clean.returned_dtypes"] = "float64" if not o.get("dtypes") else str(sorted(set(o["dtypes"].values())))
            if resps and "kept" in resps[0] and resps[0]["kept"] != o["kept"]:
                st["clean.tie_divergence"] = True
        return st
    nsup = sum(1 for s in case["scores"] if s > case["thr"])
    st = {"kind": "peaks", "peaks.voxels": _bucket(case["dims"][0] * case["dims"][1] * case["dims"][2], [64, 512, 4096, 27000, 64000]),
          "peaks.above_threshold": _bucket(nsup, [0, 1, 10, 100, 500, 1500, 32768]), "peaks.diameter": _bucket(case["dn"] / case["dd"], [0.99, 1, 2, 3, 5, 7]),
          "peaks.order": case["order"], "peaks.numbering": case["numbering"], "peaks.list_as": case.get("list_as"),
          "peaks.threshold": case.get("thr_kind", "corpus"), "peaks.result": o.get("result", "error"), "peaks.field": case.get("field", "corpus"),
          "peaks.flat_box": min(case["dims"]) <= 2, "peaks.keywords_omitted": bool(case.get("omit")),
          "peaks.calls_on_same_input": 1 + len(case.get("then") or []), "peaks.score_mantissa_bits": case.get("score_bits", "<=24"), "peaks.threshold_grid": case.get("thr_grid", "as the scores"),
          "peaks.maps_as": case.get("maps_as", "array"), "peaks.map_dtype": case.get("map_dtype", "float64"), "peaks.angle_map_dtype": case.get("ang_dtype", "float64"),
          "peaks.list_dtype": case.get("list_dtype", "float64"), "peaks.angle_values": case.get("ang_values", "quarter degrees"),
          "peaks.three_distinct_sides": len(set(case["dims"])) == 3}
    if o.get("result") == "peaks":
        st["peaks.extracted"] = _bucket(len(o["rows"]), [1, 5, 20, 100, 500])
        st["peaks.suppressed"] = _bucket(nsup - len(o["rows"]), [0, 5, 50, 500])
        st["peaks.returned_dtypes"] = str(sorted(set((o.get("dtypes") or {}).values())))
    return st


def sample_view(case):
    if case["kind"] == "clean":
        SC = case.get("scale", S)
        return dict(kind="clean", n=len(case["rows"]), d=case["d"] / SC, grid=case.get("grid", "2^-10"), int_columns=case.get("int_cols"), feature=case["feature"], keep_greater=case["keep_greater"], layout=case.get("layout"),
                    group_values=case.get("groups"), index=case.get("index_kind"), keywords_omitted=case.get("omit"), further_calls=len(case.get("then") or []),
                    first_rows=[{c: r[CI[c]] / SC for c in ("score", case["feature"], "x", "y", "z", "shift_x")} for r in case["rows"][:3]])
    return dict(kind="peaks", dims=case["dims"], thr=case["thr"] / case["sscale"], diameter=case["dn"] / case["dd"], order=case["order"],
                numbering=case["numbering"], list_rows=len(case["anglist"]), list_as=case.get("list_as"), keywords_omitted=case.get("omit"),
                maps_as=case.get("maps_as", "array"), score_bits=case.get("score_bits"), dtypes=[case.get("map_dtype"), case.get("ang_dtype"), case.get("list_dtype")],
                further_calls=len(case.get("then") or []), above_threshold=sum(1 for s in case["scores"] if s > case["thr"]))


# ------------------------------------------------------------------ shrinking
def _cut(case, keep):
    """the clean case restricted to the rows `keep` (positions), follow-up edits and index labels cut alike"""
    c = dict(case, rows=[case["rows"][i] for i in keep])
    if case.get("index") is not None:
        c["index"] = [case["index"][i] for i in keep]
    c["then"] = [dict(t, set={col: [v[i] for i in keep] for col, v in (t.get("set") or {}).items()}) for t in case.get("then") or []]
    return c


def shrink(case):
    subs = _subcases(case)
    if len(subs) > 1:
        yield dict(case, then=[])
        for sub in subs[1:]:  # a follow-up call as a case of its own
            alone = {k: v for k, v in sub.items() if k not in ("set", "rewrite")}
            alone["then"] = []
            yield alone
        if len(case["then"]) > 1:
            yield dict(case, then=case["then"][:1])
    if case["kind"] == "clean":
        rows = case["rows"]
        n = len(rows)
        if n > 1:
            yield _cut(case, list(range(n // 2)))
            yield _cut(case, list(range(n // 2, n)))
            if n <= 24:
                for i in range(n):
                    yield _cut(case, [j for j in range(n) if j != i])
            else:
                w = max(1, n // 8)
                for k in range(0, n, w):
                    yield _cut(case, [j for j in range(n) if not (k <= j < k + w)])
        if case.get("index") is not None:
            yield dict(case, index=None)
        if case.get("omit"):
            yield dict(case, omit=False)
        # fold the shifts into the coordinates
        simple = []
        for r in rows:
            q = list(r)
            for c, sc in (("x", "shift_x"), ("y", "shift_y"), ("z", "shift_z")):
                q[CI[c]] = r[CI[c]] + r[CI[sc]]
                q[CI[sc]] = 0
            simple.append(q)
        if simple != rows:
            yield dict(case, rows=simple)
        return
    nx, ny, nz = case["dims"]
    big = nx * ny * nz > 20000  # one evaluation costs seconds: halvings only
    sc = np.array(case["scores"], dtype=object).reshape(nx, ny, nz)
    an = np.array(case["angles"], dtype=object).reshape(nx, ny, nz)
    for ax in range(3):
        m = case["dims"][ax]
        if m > 1:
            for sl in ((slice(0, m // 2), slice(m // 2, m)) if big else (slice(0, m // 2), slice(m // 2, m), slice(0, m - 1), slice(1, m))):
                idx = [slice(None)] * 3
                idx[ax] = sl
                s2, a2 = sc[tuple(idx)], an[tuple(idx)]
                yield dict(case, dims=list(s2.shape), scores=[int(v) for v in s2.ravel()], angles=[int(v) for v in a2.ravel()])
    above = sorted(s for s in case["scores"] if s > case["thr"])
    if len(above) > 2:
        yield dict(case, thr=above[len(above) // 2] - 1)
        if not big:
            yield dict(case, thr=above[-3] + 1)
    if case.get("list_as") == "csv":
        yield dict(case, list_as="array")
    if case.get("maps_as", "array") != "array":
        yield dict(case, maps_as="array")
    for fld in ("map_dtype", "ang_dtype", "list_dtype"):
        if case.get(fld, "float64") != "float64" and not (fld == "map_dtype" and case.get("maps_as") == "mrc"):
            yield dict(case, **{fld: "float64"})
    if case.get("omit"):
        yield dict(case, omit=False)


def corpus():
    """stored cases; cases written before the hardening pass lack the newer fields"""
    import glob, json
    out = []
    for p in sorted(glob.glob(os.path.join(core.VERIF, "corpus", PROP, "*.json"))):
        d = json.load(open(p))
        out.extend(d if isinstance(d, list) else [d])
    for c in out:
        c.setdefault("then", [])
        c.setdefault("omit", False)
        if c["kind"] == "clean":
            c.setdefault("index", None)
    return out


# ------------------------------------------------------------------ probes of recorded assumptions
def probes(rng):
    from scipy.spatial import KDTree
    out = []
    pts = np.array([[rng.randint(0, 8) for _ in range(3)] for _ in range(300)])
    tree = KDTree(pts)
    ok = True
    detail = ""
    for r in (1.0, 2.0, 3.0, 5.0, 1.5, 2.25):
        for i in range(0, 300, 17):
            got = sorted(tree.query_ball_point(pts[i], r))
            diff = pts - pts[i]
            want = sorted(np.nonzero((diff * diff).sum(axis=1) <= r * r)[0].tolist())
            if got != want:
                ok = False
                detail = f"r={r} point {pts[i].tolist()}"
    out.append(dict(name="KDTree.query_ball_point = closed brute-force ball (exact ties at integer radii included)", ok=ok, detail=detail))
    a = np.array([[3.0, 4.0, 0.0], [0.0, 0.0, 0.0], [1.0, 2.0, 2.0]])
    nrm = np.linalg.norm(a - np.zeros((3, 3)), axis=1)
    out.append(dict(name="np.linalg.norm exact on perfect squares of the grid", ok=bool(nrm[0] == 5.0 and nrm[1] == 0.0 and nrm[2] == 3.0), detail=str(nrm)))
    big = np.array([(10 ** 9 + 47) * S, (10 ** 9 + 48) * S], dtype=np.float64) / S
    out.append(dict(name="group ids up to 1e9+50 on the 2^-10 grid are exact float64 values (adjacent ids stay different)", ok=bool(big[0] == 10 ** 9 + 47 and big[1] - big[0] == 1.0), detail=str(big)))
    return out


LEVEL_TEXT = ("Lean 4 theorems about an executable model of the greedy suppression shared by Motl.clean_by_distance and tmana.scores_extract_particles: "
              "for every candidate list, every suppression relation and every processing order non-increasing in score (greedy_sublist/_separated/_dominated); "
              "for every particle list, grouping field, radius and score direction (cleanByDistance_spec = separated + dominated + remaining + groups independent, "
              "clean_single_group); the clauses decompose over the groups for ANY claimed result (spec_iff_groups); for score/angle maps of any size given as flat "
              "arrays (peaks_above_threshold, peaks_carry, extractPeaks_reads_maps, peaks_separated, peaks_far, peaks_cover, extractPeaks_covers_map, peaks_none_iff, "
              "peakOf_below_numbering); soundness of the checkers run on the implementation's outputs (checkClean_sound incl. Remaining and no-duplicate, "
              "checkCleanLe_sound for lists with an exact-distance tie, checkIndependent_sound / checkIndependentLe_sound for the per-group verdicts, checkPeaks_sound) and their "
              "COMPLETENESS (checkCleanCore_iff, checkClean_iff, checkPeaks_iff: accepted exactly when the clause Props hold; checkClean_accepts_model, checkPeaks_accepts_model: "
              "the model's own output passes, so a correct result cannot raise a false alarm). The model is tied to the "
              "source by regenerated operators / directions / offsets / column permutations / signature defaults / normalised whole-body digests of twelve functions "
              "(37 anchors incl. cryomap.read's array / file branches and 12 whole bodies, insensitive to renames, type hints, message texts and swaps of independent assignments; "
              "22 translator theorems, one per body) and by an exact differential run of the real functions against the model on generated lists and maps")
LEVEL_NOTE = ("trusted: Lean kernel; translator anchors; integer scaling of dyadic inputs; squared-distance form of the comparisons (d > 0); "
              "KD-tree ball query = brute force (probed); numpy exact on the grid. Not modelled: dist_mask, cluster_size, n_particles, sigma/triangle thresholds, "
              "symmetry randomisation, tomo_mask, file output")
TECHNIQUE = "Lean 4 proof (fold invariants of a greedy rule, list/permutation lemmas, index arithmetic) + regenerated operators, defaults and body digests + verified checkers on the implementation's output + exact differential correspondence"
DESIGN_REF = "DESIGN.md section 4, C07; Appendix A.1"


# ------------------------------------------------------------------ documented bodies
# The normalised dumps of the functions the statement runs through, as documented when the check was last agreed with the source
# (python harness/props/c07.py --bodies prints them from the current tree; Props/C07.lean holds their digests as theorems).
DOC_BODIES = {
    'cryocat/cryomotl.py:Motl.clean_by_distance': [
        "Def (self,distance_in_voxels,feature_id,metric_id='score',keep_greater=True,dist_mask=None)",
        '.Assign v0=distance_in_voxels',
        '.If dist_maskisnotNone',
        '..Assign v1=nnana.get_nn_stats_within_radius(self,nn_radius=v0,feature=feature_id)',
        '..Assign v2=nnana.filter_nn_radial_stats(v1,dist_mask)',
        '.Assign v3=np.unique(self.get_feature(feature_id))',
        '.Assign v4=pd.DataFrame()',
        '.For v5 in v3',
        '..Assign v6=self.get_motl_subset(v5,feature_id=feature_id,reset_index=True)',
        '..Assign v7=v6.df.shape[0]',
        '..Assign v8=v6.df[metric_id].values',
        '..Assign v9=v6.get_coordinates()',
        '..If keep_greater',
        '...Assign v10=np.argsort(v8)[::-1]',
        '..Else',
        '...Assign v10=np.argsort(v8)',
        '..Assign v11=np.ones((v7,),dtype=bool)',
        '..For v12 in v10',
        '...If v11[v12]',
        '....If dist_maskisNone',
        '.....Assign v13=geom.point_pairwise_dist(v9[v12,:],v9)',
        '.....Assign v14=v13<v0',
        '.....Assign v14[v12]=False',
        '....Else',
        '.....Assign v14=np.arange(v6.df.shape[0])',
        ".....Assign v15=v6.df.loc[v12,'subtomo_id']",
        ".....Assign v16=v2.loc[v2['qp_subtomo_id']==v15,'nn_motl_idx'].values",
        '.....Assign v14=np.isin(v14,v16)',
        '....Assign v11[v14]=False',
        '..Assign v4=pd.concat((v4,v6.df.iloc[v11,:]),ignore_index=True)',
        ".Expr print('MSG')",
        '.Assign self.df=v4',
    ],
    'cryocat/cryomotl.py:Motl.get_motl_subset': [
        "Def (self,feature_values,feature_id='tomo_id',return_df=False,reset_index=True)",
        '.Assign feature_values=np.atleast_1d(np.asarray(feature_values))',
        '.Assign v0=Motl.create_empty_motl_df()',
        '.For v1 in feature_values',
        '..Assign v2=self.df.loc[self.df[feature_id]==v1].copy()',
        '..Assign v0=pd.concat([v0,v2])',
        '.If reset_index',
        '..Assign v0=v0.reset_index(drop=True)',
        '.If return_df',
        '..Return returnv0',
        '.Else',
        '..Return returnMotl(motl_df=v0)',
    ],
    'cryocat/cryomotl.py:Motl.get_coordinates': [
        'Def (self,tomo_number=None)',
        '.If tomo_numberisNone',
        "..Assign v0=self.df.loc[:,['x','y','z']].values+self.df.loc[:,['shift_x','shift_y','shift_z']].values",
        '.Else',
        "..Assign v0=self.df.loc[self.df.loc[:,'tomo_id']==tomo_number,['x','y','z']].values+self.df.loc[self.df.loc[:,'tomo_id']==tomo_number,['shift_x','shift_y','shift_z']].values",
        '.Return returnv0',
    ],
    'cryocat/geom.py:point_pairwise_dist': [
        'Def (coord_1,coord_2)',
        '.If coord_1.shape[0]==1andcoord_2.shape[0]!=1',
        '..Assign coord_1=np.tile(coord_1,(coord_2.shape[0],1))',
        '.Assign coord_1=np.atleast_2d(coord_1)',
        '.Assign coord_2=np.atleast_2d(coord_2)',
        '.Assign v0=np.linalg.norm(coord_1-coord_2,axis=1)',
        '.Assign v0=np.where(isinstance(v0,complex),0.0,v0)',
        '.Return returnv0',
    ],
    'cryocat/tmana.py:scores_extract_particles': [
        "Def (scores_map,angles_map,angles_list,tomo_id,particle_diameter,object_id=None,scores_threshold=None,sigma_threshold=None,cluster_size=None,n_particles=None,output_path=None,output_type='emmotl',angles_order='zxz',symmetry='c1',angles_numbering=0,tomo_mask=None)",
        ".If symmetry.lower().startswith('c')",
        "..Assign symmetry=int(re.findall('\\\\d+',symmetry)[-1])",
        '.Else',
        "..Expr warnings.warn('MSG')",
        '..Assign symmetry=1',
        '.Assign scores_map=cryomap.read(scores_map)',
        '.Assign angles_map=cryomap.read(angles_map)',
        '.Assign v0=ioutils.rot_angles_load(angles_list,angles_order=angles_order)',
        '.If tomo_maskisnotNone',
        '..Assign tomo_mask=cryomap.read(tomo_mask)',
        '..Assign scores_map=scores_map*tomo_mask',
        '.If object_idisNone',
        '..Assign object_id=1',
        '.If scores_thresholdisnotNone',
        '..Assign v1=scores_threshold',
        '.Else',
        '..If sigma_thresholdisNone',
        '...Assign v1=compute_scores_map_threshold_triangle(scores_map)',
        '..Else',
        '...Assign v2=scores_map.mean()',
        '...Assign v3=scores_map.std(ddof=1)',
        '...Assign v1=v2+sigma_threshold*v3',
        '.Assign v4=np.where(scores_map>np.float64(v1))',
        '.Assign v5=len(v4[0])',
        '.If v5==0',
        '..Return returnNone',
        '.Assign v6=[]',
        '.Assign v5=min(v5,len(scores_map[v4]))-1',
        '.Assign v7=np.argpartition(-scores_map[v4],v5)[:v5+1]',
        '.Assign v7=v7[np.argsort(-scores_map[v4][v7])]',
        '.Assign v8=np.array([v4[0][v7],v4[1][v7],v4[2][v7]])',
        '.Assign v9=sorted(zip(v8.T,scores_map[v8[0],v8[1],v8[2]]),key=lambda_a0:_a0[1],reverse=True)',
        '.Assign v10=KDTree([_c1_0for_c1_0,_inv9])',
        '.Assign v11={tuple(_c1_0):_c1_1for_c1_0,_c1_1inv9}',
        '.Assign v12=set(v11.keys())',
        '.For (v13,v14) in v9',
        '..If tuple(v13)notinv12',
        '...Continue continue',
        '..Expr v6.append((v13,v14))',
        '..Assign v15=v10.query_ball_point(v13,particle_diameter)',
        '..For v16 in v15',
        '...Assign v17=tuple(v9[v16][0])',
        '...If v17inv12andv11[v17]<=v14',
        '....Expr v12.remove(v17)',
        '.Assign v6,v18=zip(*v6)',
        '.Assign v19=DBSCAN(eps=particle_diameter/2,min_samples=1)',
        '.Assign v6=np.array(v6)',
        '.Assign v18=np.array(v18)',
        '.Assign v20=v19.fit_predict(v6)',
        '.Assign v21=0',
        '.Assign v22=np.zeros(len(v6),dtype=bool)',
        '.For v23 in np.unique(v20)',
        '..If v23==-1',
        '...Continue continue',
        '..If cluster_sizeisnotNone',
        '...Assign v24=np.sum(v20==v23)',
        '...If v24<cluster_size',
        '....Continue continue',
        '..Assign v22[v20==v23]=True',
        '..AugAssign v21+=np.sum(v20==v23)',
        '.Assign v25=v6[v22]',
        '.If n_particlesisnotNone',
        '..Assign v25=v25[0:min(v25.shape[0],n_particles),:]',
        '..Assign v18=v18[0:min(v25.shape[0],n_particles)]',
        '.Assign v26=angles_map[v25[:,0],v25[:,1],v25[:,2]].astype(int)-angles_numbering',
        '.Assign v27=v0[v26,0]',
        '.Assign v28=v0[v26,1]',
        '.Assign v29=v0[v26,2]',
        '.If symmetry>1',
        '..Assign v30=np.linspace(0,360,symmetry+1)',
        '..Assign v30=v30[:-1]',
        '..Assign v27=v27+np.random.choice(v30,size=v27.shape[0])',
        ".Expr print('MSG')",
        '.Assign v31=cryomotl.Motl()',
        ".Expr v31.fill({'x':v25[:,0]+1,'y':v25[:,1]+1,'z':v25[:,2]+1,'score':v18,'class':1,'tomo_id':tomo_id,'object_id':object_id,'phi':v27,'theta':v28,'psi':v29,'subtomo_id':np.arange(1,v25.shape[0]+1)})",
        '.Delete delv8,v9',
        '.Expr gc.collect()',
        '.If output_pathisnotNone',
        "..If output_type=='emmotl'",
        '...Expr v31.write_out(output_path)',
        '..Else',
        "...If output_type=='stopgap'",
        '....Assign v32=cryomotl.StopgapMotl(v31.df)',
        '....Expr v32.write_out(output_path=output_path)',
        '...Else',
        "....If output_type=='relion'",
        '.....Assign v33=cryomotl.RelionMotl(v31.df)',
        '.....Expr v33.write_out(output_path=output_path)',
        '....Else',
        ".....Raise raiseValueError('MSG')",
        '.Return returnv31',
    ],
    'cryocat/ioutils.py:rot_angles_load': [
        "Def (input_angles,angles_order='zxz')",
        '.If isinstance(input_angles,str)',
        '..If notos.path.exists(input_angles)',
        "...Raise raiseValueError('MSG')",
        '..Assign v0=pd.read_csv(input_angles,header=None)',
        '..If len(v0.columns)!=3',
        "...Raise raiseValueError('MSG')",
        "..If angles_order=='zzx'",
        "...Assign v0.columns=['phi','psi','theta']",
        '..Else',
        "...Assign v0.columns=['phi','theta','psi']",
        "..Assign v0=v0.loc[:,['phi','theta','psi']].to_numpy()",
        '.Else',
        '..If isinstance(input_angles,np.ndarray)',
        '...Assign v0=input_angles.copy()',
        "...If angles_order=='zzx'",
        '....Assign v0=v0[:,[0,2,1]]',
        '..Else',
        "...Raise raiseValueError('MSG')",
        '.Return returnv0',
    ],
    'cryocat/cryomap.py:read': [
        'Def (input_map,transpose=True,data_type=None)',
        '.If isinstance(input_map,str)',
        '..FunctionDef v0(_f0)',
        "...Assign _f1='\\\\.(mrc|ali|rec|st)(\\\\.\\\\d+)?$'",
        '...Return returnbool(re.search(_f1,_f0))',
        '..If v0(input_map)',
        '...Assign v1=mrcfile.open(input_map).data',
        '..Else',
        "...If input_map.endswith('.em')",
        '....Assign v1=emfile.read(input_map)[1]',
        '...Else',
        "....Raise raiseValueError('MSG',input_map,'MSG')",
        '..If transpose',
        '...Assign v1=v1.transpose(2,1,0)',
        '.Else',
        '..If isinstance(input_map,np.ndarray)',
        '...Assign v1=np.array(input_map)',
        '..Else',
        "...Raise raiseValueError('MSG')",
        '.Assign v1=np.array(v1,copy=True)',
        '.If data_typeisnotNone',
        '..Assign v1=v1.astype(data_type)',
        '.Return returnv1',
    ],
    'cryocat/cryomotl.py:Motl.__init__': [
        'Def (self,motl_df=None)',
        '.If motl_dfisnotNone',
        '..If self.check_df_correct_format(motl_df)',
        '...Assign self.df=motl_df',
        '..Else',
        "...Raise raiseValueError('MSG')",
        '.Else',
        '..Assign self.df=Motl.create_empty_motl_df()',
    ],
    'cryocat/cryomotl.py:Motl.check_df_correct_format': [
        'Def (input_df)',
        '.If sorted(Motl.motl_columns)==sorted(input_df.columns)',
        '..Return returnTrue',
        '.Else',
        '..Return returnFalse',
    ],
    'cryocat/cryomotl.py:Motl.fill': [
        'Def (self,input_dict)',
        '.For (v0,v1) in input_dict.items()',
        '..If v0inself.df.columns',
        '...Assign self.df[v0]=v1',
        '..Else',
        "...If v0=='coord'",
        "....Assign self.df[['x','y','z']]=v1",
        '...Else',
        "....If v0=='angles'",
        ".....Assign self.df[['phi','theta','psi']]=v1",
        '....Else',
        ".....If v0=='shifts'",
        "......Assign self.df[['shift_x','shift_y','shift_z']]=v1",
        '.Assign self.df=self.df.fillna(0.0)',
    ],
    'cryocat/cryomotl.py:Motl.get_feature': [
        'Def (self,feature_id)',
        '.If isinstance(feature_id,str)',
        '..Assign feature_id=[feature_id]',
        '.Assign v0=set(feature_id)-set(self.df.columns)',
        '.If v0',
        "..Raise raiseUserInputError('MSG')",
        '.Return returnself.df[feature_id].values',
    ],
    'cryocat/cryomotl.py:Motl.create_empty_motl_df': [
        'Def ()',
        '.Assign v0=pd.DataFrame(columns=Motl.motl_columns,dtype=float)',
        '.Assign v0=v0.fillna(0.0)',
        '.Return returnv0',
    ],
}

if __name__ == "__main__":
    import sys, json
    if "--bodies" in sys.argv:
        DOC_BODIES.clear()
        src_ = core.Source(core.REPO)
        translate(src_)
        out_ = {}
        for a_ in src_.anchors:
            if a_["name"].startswith("body:"):
                out_[a_["name"][5:]] = a_["value"]
        print(json.dumps(out_, indent=0))
